#!/usr/bin/env python3
"""tools_patch.py <patch.diff> <ID> [<ID>...] : apply a patch to /repo, run checks, revert."""
import subprocess, sys
import os
patch = os.path.abspath(sys.argv[1])
ids = sys.argv[2:]
subprocess.run(['git', '-C', '/repo', 'apply', patch], check=True)
try:
    for pid in ids:
        r = subprocess.run(['/verif/check', pid], capture_output=True, text=True)
        lines = [l for l in r.stdout.splitlines() if l.startswith('  violation') or l.startswith('    ') or l.startswith('VIOLATION')]
        print(f'--- {pid} rc={r.returncode}')
        print('\n'.join(l[:400] for l in lines[:24]))
        if r.returncode not in (0, 1):
            print(r.stdout[-2000:], r.stderr[-3000:])
finally:
    subprocess.run(['git', '-C', '/repo', 'checkout', '--', '.']); subprocess.run(['git', '-C', '/repo', 'clean', '-fdq', '--', 'packages'])
    subprocess.run(['git', '-C', '/repo', 'status', '--short'])

//! Type-level probes for the linked crate's per-thread reference types.
#![allow(dead_code, clippy::all)]
use std::cell::Cell;

pub fn __factgen_probe<T: ?Sized>(_id: &'static str) {}

#[linked::object]
pub struct SyncObj {
    v: usize,
}
#[linked::object]
pub struct LocalObj {
    v: Cell<usize>,
}

pub fn refs() {
    __factgen_probe::<linked::RefSync<SyncObj>>("ref|RefSync|SyncObj");
    __factgen_probe::<linked::Ref<SyncObj>>("ref|Ref|SyncObj");
    __factgen_probe::<linked::Ref<LocalObj>>("ref|Ref|LocalObj");
    __factgen_probe::<linked::InstancePerThreadSync<SyncObj>>("wrapper|InstancePerThreadSync|SyncObj");
    __factgen_probe::<linked::InstancePerThread<SyncObj>>("wrapper|InstancePerThread|SyncObj");
    __factgen_probe::<linked::InstancePerThread<LocalObj>>("wrapper|InstancePerThread|LocalObj");
    __factgen_probe::<linked::Family<SyncObj>>("family|SyncObj");
    __factgen_probe::<linked::Family<LocalObj>>("family|LocalObj");
    __factgen_probe::<usize>("control|usize");
    __factgen_probe::<Cell<usize>>("control|Cell");
}

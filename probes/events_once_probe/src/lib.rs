//! Type-level probes for events_once endpoint types (see infinity_pool_probe for the mechanism).
#![allow(dead_code, clippy::all)]
use std::cell::Cell;
use std::rc::Rc;

use events_once::*;

pub fn __factgen_probe<T: ?Sized>(_id: &'static str) {}

pub type SS = u32;
pub type SnS = Cell<u32>;
pub type NN = Rc<u32>;

macro_rules! probe_sync {
    ($($h:ident),*) => {
        pub fn sync_endpoints() {
            $(
                __factgen_probe::<$h<SS>>(concat!("sync|", stringify!($h), "|SS"));
                __factgen_probe::<$h<SnS>>(concat!("sync|", stringify!($h), "|SnS"));
            )*
        }
    };
}
macro_rules! probe_local {
    ($($h:ident),*) => {
        pub fn local_endpoints() {
            $(
                __factgen_probe::<$h<SS>>(concat!("local|", stringify!($h), "|SS"));
                __factgen_probe::<$h<NN>>(concat!("local|", stringify!($h), "|NN"));
            )*
        }
    };
}

probe_sync!(BoxedSender, BoxedReceiver, RawSender, RawReceiver, PooledSender, PooledReceiver, RawPooledSender, RawPooledReceiver);
probe_local!(
    BoxedLocalSender, BoxedLocalReceiver, RawLocalSender, RawLocalReceiver, PooledLocalSender, PooledLocalReceiver,
    RawLocalPooledSender, RawLocalPooledReceiver
);

pub fn controls() {
    __factgen_probe::<SS>("control|SS");
    __factgen_probe::<SnS>("control|SnS");
    __factgen_probe::<NN>("control|NN");
}

//! Type-level probes for infinity_pool, compiled as an external user would (path dependency).
//! Each `__factgen_probe::<T>("id")` call is answered by the factgen driver with the trait
//! matrix of T (Send, Sync, Clone, Copy, Unpin, Deref, DerefMut, UnwindSafe, ...). Nothing runs.
#![allow(dead_code, clippy::all)]
use std::cell::Cell;
use std::fmt::Debug;
use std::rc::Rc;
use std::sync::MutexGuard;

use infinity_pool::*;

pub fn __factgen_probe<T: ?Sized>(_id: &'static str) {}

// payload classes
pub type SS = u32; // Send + Sync
pub type SnS = Cell<u32>; // Send + !Sync
pub struct NSs(MutexGuard<'static, u32>); // !Send + Sync
pub type NN = Rc<u32>; // !Send + !Sync
pub type DynPlain = dyn Debug; // !Send + !Sync trait object
pub type DynSend = dyn Debug + Send; // Send + !Sync trait object
pub type DynSS = dyn Debug + Send + Sync;

macro_rules! probe_handles {
    ($($h:ident),*) => {
        pub fn handles() {
            $(
                __factgen_probe::<$h<SS>>(concat!(stringify!($h), "|SS"));
                __factgen_probe::<$h<SnS>>(concat!(stringify!($h), "|SnS"));
                __factgen_probe::<$h<NSs>>(concat!(stringify!($h), "|NSs"));
                __factgen_probe::<$h<NN>>(concat!(stringify!($h), "|NN"));
                __factgen_probe::<$h<()>>(concat!(stringify!($h), "|unit"));
                __factgen_probe::<$h<DynPlain>>(concat!(stringify!($h), "|DynPlain"));
                __factgen_probe::<$h<DynSend>>(concat!(stringify!($h), "|DynSend"));
                __factgen_probe::<$h<DynSS>>(concat!(stringify!($h), "|DynSS"));
            )*
        }
    };
}

probe_handles!(
    Pooled, PooledMut, BlindPooled, BlindPooledMut, LocalPooled, LocalPooledMut, LocalBlindPooled,
    LocalBlindPooledMut, RawPooled, RawPooledMut, RawBlindPooled, RawBlindPooledMut
);

pub fn pools() {
    __factgen_probe::<OpaquePool>("pool|OpaquePool");
    __factgen_probe::<BlindPool>("pool|BlindPool");
    __factgen_probe::<PinnedPool<SS>>("pool|PinnedPool|SS");
    __factgen_probe::<PinnedPool<SnS>>("pool|PinnedPool|SnS");
    __factgen_probe::<LocalOpaquePool>("pool|LocalOpaquePool");
    __factgen_probe::<LocalBlindPool>("pool|LocalBlindPool");
    __factgen_probe::<LocalPinnedPool<SS>>("pool|LocalPinnedPool|SS");
    __factgen_probe::<RawOpaquePool>("pool|RawOpaquePool");
    __factgen_probe::<RawBlindPool>("pool|RawBlindPool");
    __factgen_probe::<RawPinnedPool<SS>>("pool|RawPinnedPool|SS");
    __factgen_probe::<RawPinnedPool<SnS>>("pool|RawPinnedPool|SnS");
    __factgen_probe::<RawPinnedPool<NSs>>("pool|RawPinnedPool|NSs");
    __factgen_probe::<RawPinnedPool<NN>>("pool|RawPinnedPool|NN");
}

pub fn controls() {
    // positive controls for the driver's answers (must match the language's own rules)
    __factgen_probe::<SS>("control|SS");
    __factgen_probe::<SnS>("control|SnS");
    __factgen_probe::<NSs>("control|NSs");
    __factgen_probe::<NN>("control|NN");
    __factgen_probe::<DynSend>("control|DynSend");
}

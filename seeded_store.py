#!/usr/bin/env python3
"""seeded_store.py <worktree> <mN> <ID> <property> <pkgs> : copy a confirmed mutant into /verif/seeded/<ID>/."""
import json, os, shutil, sys, re
wt, m, sid, prop, pkgs = sys.argv[1:6]
src = f"{wt}/MUTATION/{m}"
dst = f"/verif/seeded/{sid}"
os.makedirs(dst, exist_ok=True)
shutil.copy(f"{src}/patch.diff", f"{dst}/patch.diff")
if os.path.isdir(f"{dst}/demo"):
    shutil.rmtree(f"{dst}/demo")
shutil.copytree(f"{src}/demo", f"{dst}/demo")
if os.path.exists(f"{src}/README.md"):
    shutil.copy(f"{src}/README.md", f"{dst}/README.md")
log = open(f"/tmp/mut/confirm_{sid}.log").read() if os.path.exists(f"/tmp/mut/confirm_{sid}.log") else ""
res = re.findall(r"RESULT (.*)", log)
readme = open(f"{src}/README.md").read() if os.path.exists(f"{src}/README.md") else ""
meta = {
    "id": sid,
    "property": prop,
    "packages": pkgs.split(),
    "origin": "fresh sub-agent given only the property record and a scratch worktree",
    "needs_to_manifest": "see README.md (written by the sub-agent)",
    "confirmed_by_me": {
        "how": "seeded_confirm.sh in the scratch worktree: demo without patch (must pass), demo with patch (must fail), existing package test suite with patch (must pass)",
        "result": res[-1] if res else "not run",
    },
    "detected_by": [],
}
json.dump(meta, open(f"{dst}/meta.json", "w"), indent=1)
print("stored", dst, meta["confirmed_by_me"]["result"])

#!/usr/bin/env python3
"""Applies every /verif/seeded/<id>/patch.diff to /repo in turn, runs the property's check, records the rules that
fire in meta.json and seeded/MATRIX.md, and reverts (git -C /repo checkout -- .). Hand-run tool, not a registered check."""
import glob, json, os, re, subprocess, sys
os.chdir(os.path.dirname(os.path.abspath(__file__)))
rows = []
assert subprocess.run(['git', '-C', '/repo', 'status', '--porcelain'], capture_output=True, text=True).stdout.strip() == '', '/repo not clean'
for d in sorted(glob.glob('seeded/C*_m*')):
    meta = json.load(open(f'{d}/meta.json'))
    pid = meta['property']
    patch = os.path.abspath(f'{d}/patch.diff')
    r = subprocess.run(['git', '-C', '/repo', 'apply', patch], capture_output=True, text=True)
    if r.returncode != 0:
        rows.append((meta['id'], pid, 'PATCH DOES NOT APPLY', []))
        continue
    try:
        out = subprocess.run(['./check', pid], capture_output=True, text=True)
        keys = re.findall(r'^  violation (\S+\|[^\n]*)', out.stdout, re.M)
        rules = sorted({k.split('|')[1] for k in keys})
        verdict = 'DETECTED' if out.returncode == 1 and keys else ('missed' if out.returncode == 0 else f'error rc={out.returncode}')
    finally:
        subprocess.run(['git', '-C', '/repo', 'checkout', '--', '.'])
    meta['detected_by'] = [{'check': pid, 'rules': rules, 'keys': keys[:6]}] if keys else []
    json.dump(meta, open(f'{d}/meta.json', 'w'), indent=1)
    rows.append((meta['id'], pid, verdict, rules))
    print(meta['id'], verdict, rules, flush=True)
with open('seeded/MATRIX.md', 'w') as f:
    f.write('# Seeded changes vs checks\n\nEach row: a change written by a fresh sub-agent (given only the property record), confirmed by me '
            '(existing suite passes with it, demonstration fails with it and passes without), applied to /repo, the property\'s quick check run, reverted.\n\n')
    f.write('| seeded change | property | verdict | rules that fired |\n|---|---|---|---|\n')
    for i, p, v, rl in rows:
        f.write(f'| {i} | {p} | {v} | {", ".join(rl)} |\n')
    f.write(f'\n{sum(1 for r in rows if r[2]=="DETECTED")}/{len(rows)} detected.\n')
# final sanity: tree clean, checks quiet again
print(subprocess.run(['git', '-C', '/repo', 'status', '--porcelain'], capture_output=True, text=True).stdout or 'repo clean')

#!/usr/bin/env python3
"""Applies every /verif/seeded/<id>/patch.diff to /repo in turn, runs the property's check, records the rules that
fire in meta.json and seeded/MATRIX.md, and reverts (git -C /repo checkout -- .). Hand-run tool, not a registered check."""
import glob, json, os, re, subprocess, sys
os.chdir(os.path.dirname(os.path.abspath(__file__)))
rows = []
assert subprocess.run(['git', '-C', '/repo', 'status', '--porcelain'], capture_output=True, text=True).stdout.strip() == '', '/repo not clean'
for d in sorted(glob.glob('seeded/C*_m*')):
    meta = json.load(open(f'{d}/meta.json'))
    pid = meta['property']
    patch = os.path.abspath(f'{d}/patch.diff')
    r = subprocess.run(['git', '-C', '/repo', 'apply', patch], capture_output=True, text=True)
    if r.returncode != 0:
        rows.append((meta['id'], pid, 'PATCH DOES NOT APPLY', [], meta.get('blind', {}).get('verdict', 'n/a')))
        continue
    det = []
    rules = []
    verdict = 'missed'
    try:
        for chk in meta.get('checks', [pid]):
            out = subprocess.run(['./check', chk], capture_output=True, text=True)
            keys = re.findall(r'^  violation (\S+\|[^\n]*)', out.stdout, re.M)
            rl = sorted({k.split('|')[1] for k in keys})
            if out.returncode == 1 and keys:
                verdict = 'DETECTED'
                det.append({'check': chk, 'rules': rl, 'keys': keys[:6]})
                rules += [(chk + ':' if chk != pid else '') + r for r in rl]
            elif out.returncode not in (0, 1):
                verdict = f'error rc={out.returncode}'
    finally:
        subprocess.run(['git', '-C', '/repo', 'checkout', '--', '.']); subprocess.run(['git', '-C', '/repo', 'clean', '-fdq', '--', 'packages'])
    meta['detected_by'] = det
    json.dump(meta, open(f'{d}/meta.json', 'w'), indent=1)
    blind = meta.get('blind', {}).get('verdict', 'n/a (round 1)')
    rows.append((meta['id'], pid, verdict, rules, blind))
    print(meta['id'], verdict, rules, 'blind:', blind, flush=True)
with open('seeded/MATRIX.md', 'w') as f:
    f.write('# Seeded changes vs checks\n\nEach row: a change written by a fresh sub-agent (given only the property record), confirmed by me '
            '(existing suite passes with it, demonstration fails with it and passes without), applied to /repo, the property\'s quick check run, reverted.\n\n')
    f.write('`blind` = verdict of the checks as they stood BEFORE I had seen the change (round 2 onwards; round-1 changes were partly known while the checks were written, see DESIGN.md section 5).\n\n')
    f.write('| seeded change | property | verdict now | rules that fire now | blind verdict |\n|---|---|---|---|---|\n')
    for i, p, v, rl, bl in rows:
        f.write(f'| {i} | {p} | {v} | {", ".join(rl)} | {bl} |\n')
    f.write(f'\n{sum(1 for r in rows if r[2]=="DETECTED")}/{len(rows)} detected now.\n')
    r2 = [r for r in rows if not r[4].startswith('n/a')]
    if r2:
        f.write(f'Blind (round 2+): {sum(1 for r in r2 if r[4].startswith("detected"))}/{len(r2)} detected before any strengthening.\n')
# final sanity: tree clean, checks quiet again
print(subprocess.run(['git', '-C', '/repo', 'status', '--porcelain'], capture_output=True, text=True).stdout or 'repo clean')

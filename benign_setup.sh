#!/bin/bash
# benign_setup.sh <tag> <PID> [<PID>...] : scratch worktree /tmp/ben/<tag> with BENIGN/PROPERTIES.json = the listed property records
set -e
TAG=$1; shift; WT=/tmp/ben/$TAG
git -C /repo worktree add --detach "$WT" HEAD >/dev/null 2>&1
mkdir -p "$WT/BENIGN"
python3 - "$WT" "$@" <<'P'
import json,sys
wt=sys.argv[1]; ids=set(sys.argv[2:])
out=[json.loads(l) for l in open('/verif/properties.jsonl') if json.loads(l)['id'] in ids]
json.dump(out,open(f'{wt}/BENIGN/PROPERTIES.json','w'),indent=1)
P
echo "$WT"

#!/usr/bin/env python3
"""tools_benign.py [<tag> ...]: apply every /verif/benign/<tag>/bN/patch.diff to /repo in turn, run the checks of the crate's
properties, report any alarm (a FALSE alarm: the patches are behaviour-preserving), revert. Hand-run tool, not a registered check."""
import glob, os, subprocess, sys
os.chdir(os.path.dirname(os.path.abspath(__file__)))
REPO = os.environ.get('VERIF_REPO', '/repo')
PROPS = {'pool': ['C01', 'C02', 'C03', 'C04'], 'once': ['C05', 'C06', 'C07'], 'events': ['C08'], 'cpus': ['C09', 'C10', 'C11'],
         'linked': ['C12'], 'region': ['C13'], 'vicinal': ['C14'], 'deque': ['C15'], 'nm': ['C16'], 'bench': ['C17'], 'alloc': ['C18'],
         'cbh': ['C19', 'C20']}
tags = sys.argv[1:] or sorted(PROPS)
assert subprocess.run(['git', '-C', REPO, 'status', '--porcelain'], capture_output=True, text=True).stdout.strip() == '', '/repo not clean'
tot = bad = 0
for tag in tags:
    for d in sorted(glob.glob(f'benign/{tag}*/b*')):
        patch = os.path.abspath(f'{d}/patch.diff')
        if subprocess.run(['git', '-C', REPO, 'apply', patch]).returncode != 0:
            print(d, 'PATCH DOES NOT APPLY'); continue
        try:
            alarms = []
            for pid in PROPS[tag.rstrip('0123456789')]:
                r = subprocess.run(['./check', pid], capture_output=True, text=True)
                if r.returncode != 0:
                    keys = [l.strip()[10:] for l in r.stdout.splitlines() if l.startswith('  violation')]
                    alarms.append((pid, keys[:4], r.stderr[-300:] if r.returncode not in (0, 1) else ''))
            tot += 1
            if alarms:
                bad += 1
            print(d, 'FALSE ALARM ' + str(alarms) if alarms else 'quiet', flush=True)
        finally:
            subprocess.run(['git', '-C', REPO, 'checkout', '--', '.']); subprocess.run(['git', '-C', REPO, 'clean', '-fdq', '--', 'packages'])
print(f'{bad}/{tot} benign changes raise an alarm')

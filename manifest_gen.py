#!/usr/bin/env python3
"""Regenerates MANIFEST.json from the table below (keeps it valid and in one place)."""
import json
import os

HERE = os.path.dirname(os.path.abspath(__file__))

# id -> (technique, level text, level note, design ref)
CLAIMS = {
    "C18": (
        "MIR rules: exactly-once forwarding on every path, argument/return identity by backward slice, who-may-call on the counters, dominance of register-before-publish",
        "Decides structural necessary conditions only: each GlobalAlloc method forwards exactly once with unchanged arguments and returns the inner result; (size,1) is recorded exactly once for alloc/alloc_zeroed/realloc and never for dealloc; counters are thread-local and registered before publication; spans subtract their start snapshot. It does not decide exactness over all allocation histories/interleavings.",
        "Trusted: rustc nightly MIR construction and callee resolution, factgen extraction, the rule table in vf/props/c18.py. Analyses lib target, default features, dev profile.",
        "DESIGN.md section 3, C18"),
    "C19": (
        "MIR rules over the async bodies (analysis MIR of coroutines): dominance order create->write->flush->close->rename, who-may-call on file-writing primitives, dominating-switch guards (Ok(false) arm), backward slices for path provenance, writer/lister constant agreement",
        "Decides structural necessary conditions only: write order and rename-last in write_atomic, single writer function, temp file beside the target with the reserved prefix shared by writer and lister, existence check guarding write-once put, key validation dominating every filesystem call, compress/decompress pairing. Crash atomicity itself rests on rename(2) and is not decided; nor are byte-identical round trips or reader/writer interleavings.",
        "Trusted: rustc nightly MIR construction (mir_promoted of coroutine bodies captured through a query-provider override), factgen extraction, rule table in vf/props/c19.py; rename(2) atomicity.",
        "DESIGN.md section 3, C19"),
}

NOT_APPLICABLE = {
    "C11": "Equality between parsed kernel text and the reported inventory, and an exact codec over the whole u32 range: values all the way down; no structural clause that is both exact and necessary was found (see DESIGN.md C11).",
    "C16": "Counts, sums and bucket indices are arithmetic over runtime observations and thread histories; no structural necessary condition beyond what rustc already enforces (see DESIGN.md C16).",
}

PENDING = "static check not implemented yet in this round (planned, see DESIGN.md section 5); not claimed until it exists"

ALL = [f"C{i:02d}" for i in range(1, 21)]


def main():
    checks = []
    for pid in ALL:
        if pid not in CLAIMS:
            continue
        tech, text, note, ref = CLAIMS[pid]
        checks.append({
            "property_id": pid,
            "quick_cmd": f"./check {pid} --tier quick",
            "thorough_cmd": f"./check {pid} --tier thorough",
            "evidence_file": f"/verif/evidence/{pid}.json",
            "replay_cmd_template": f"./check {pid} --replay {{path}}",
            "engine": "factgen+rules",
            "level_claimed": {"category": "other", "text": text, "design_ref": ref},
            "level_note": note,
            "technique": "static analysis: " + tech,
        })
    na = []
    for pid in ALL:
        if pid in CLAIMS:
            continue
        na.append({"property_id": pid, "reason": NOT_APPLICABLE.get(pid, PENDING)})
    m = {
        "version": 1,
        "setup_cmd": "./setup.sh",
        "hooks": {
            "guard": "folo_verif",
            "enable": "none needed: the checks analyse /repo as built (cargo +nightly check with the factgen rustc wrapper); no hook code exists in /repo",
            "baseline_off_cmd": "cd /repo && cargo nextest run --workspace --no-fail-fast --tool-config-file pb:/w/lib/nextest.toml --profile pb --test-threads 8 --offline",
            "source_commits": [],
            "add_only": True,
        },
        "engines": [
            {"name": "factgen", "path": "/verif/factgen", "serves_properties": sorted(CLAIMS),
             "kind_free_text": "rustc_private driver (RUSTC_WORKSPACE_WRAPPER) dumping elaborated/analysis MIR with resolved callees, evaluated constants, ADTs, impls and a trait matrix as JSON facts"},
            {"name": "rules", "path": "/verif/vf", "serves_properties": sorted(CLAIMS),
             "kind_free_text": "Python rule engine over the facts: CFG dominance / must-pass-through / per-path counting, guard liveness, user-code classification with interprocedural summaries, atomic-ordering events, backward slices"},
        ],
        "checks": checks,
        "not_applicable": na,
        "notes": "All claimed checks are static analyses of the current /repo tree (no test or binary of /repo is executed). Known findings live in /verif/known_findings.jsonl.",
    }
    with open(os.path.join(HERE, "MANIFEST.json"), "w") as f:
        json.dump(m, f, indent=1)
        f.write("\n")


if __name__ == "__main__":
    main()

#!/usr/bin/env python3
"""Regenerates MANIFEST.json from the table below (keeps it valid and in one place)."""
import json
import os

HERE = os.path.dirname(os.path.abspath(__file__))

# id -> (technique, level text, level note, design ref)
CLAIMS = {
    "C01": (
        "MIR rules: who-may-call on alloc/dealloc/realloc and on the slab vector's mutators, single-writer of the storage pointer, backward slices for handle provenance and layout-offset agreement, control-dependence of the shrink scan on is_empty()",
        "Decides structural necessary conditions only: slot storage immobility, order-preserving slab-vector discipline, shrink_to_fit keeping every non-empty slab, handle provenance (index/pointer computed at insertion and preserved by copy-constructors), stride/offset/array-alignment agreement between SlabLayout and its two readers, VacancyMap::resize contract, the blind pools' routing key built from both size and alignment and inner pools created with the layout their key was built from, vacancy-map blocks modified bit-wise only. Non-overlap and value integrity over all histories and alignment arithmetic for all layouts are not decided.",
        "Trusted: rustc nightly MIR and callee resolution, factgen extraction, rule table in vf/props/c01.py (method whitelists, sanctioned mutators).",
        "DESIGN.md section 3, C01"),
    "C02": (
        "MIR rules: exactly-once-per-path counting of dropper creation / counter updates / forget, dominating-switch guards (Occupied arm), who-may-call removal-authority table, must-pass-through for vacancy bookkeeping, duplicate-then-forget discipline",
        "Decides structural necessary conditions only: dropper pairing, remove destroys once / remove_unpin forgets, double-remove guard, paired counters updated once per path after user code, vacancy bookkeeping never skipped, into_parts forget discipline, single removal authority, Slab::drop policy order, shrink keeps live slabs, every slab created with the owning pool's layout and drop policy (policy handed on unchanged by builders), the vacancy cache kept at the lowest vacant slab (the refill search is forward-only). It does not decide len/iteration agreement over all histories.",
        "Trusted: rustc nightly MIR (elaborated drops), factgen extraction, rule tables in vf/props/c02.py (removal-authority table).",
        "DESIGN.md section 3, C02"),
    "C03": (
        "trait-obligation matrix evaluated by rustc's trait solver on a user-style probe crate (factgen driver answers type_implements_trait for every handle x payload class), checked against a soundness rule; unsafe-impl census from impl facts; struct-field ownership facts; who-may-call on removal",
        "Decides the 'safe programs' clause (which handle types are Send/Sync/Clone/Deref(Mut) for which payload classes - for all instantiations of those classes, by construction of the trait solver) and the structural clauses: unsafe-impl census, storage kept alive by type, T: Send on every safe insertion API, single remover, the Drop of a managed unique handle / Remover locks unconditionally and reaches the removal on every path. The 16 matrix rows violating the rule on the pinned tree are one genuine defect (SlabHandle<T>: Sync without T: Sync), reproduced by a safe program per row and listed as known findings. Exactly-once destruction and quiescent len under all interleavings are not decided.",
        "Trusted: rustc nightly trait solver, the probe crate's payload classes, the soundness rule and the justified unsafe-impl table in vf/props/c03.py.",
        "DESIGN.md section 3, C03"),
    "C04": (
        "guard-liveness dataflow on elaborated MIR x interprocedural user-code classification (type-erased dropper, closure parameters tracked parametrically, drop glue of local types), catch_unwind containment, split-update detection",
        "Decides the repository's own callback-safety rule structurally: no user code under a live pool guard (re-entry), none uncontained under a MutexGuard (poisoning), no persistent writes on both sides of a may-unwind user point, restore-before-destroy in Slab::remove, closures of the thread-safe entry points confined to catch_unwind with the guard released before resume_unwind. The 25 sites violating R1-R3 on the pinned tree are genuine reproduced defects listed as known findings; any other site is a VIOLATION. That the pool still works after every fault sequence is not decided.",
        "Trusted: rustc nightly drop elaboration and unwind edges, factgen extraction, the user-code classification (U1-U5) and its two named benign sites in vf/props/c04.py.",
        "DESIGN.md section 3, C04"),
    "C05": (
        "typestate table over MIR: dominating-switch value guards on results of atomic operations for every access to the two MaybeUninit cells, transition table of atomic operations with evaluated constants, path-sensitive acquire dataflow (compare_exchange outcomes split), trait matrix for endpoint types",
        "Decides structural necessary conditions only: which function may touch which cell under which observed state, publish order, terminal-state-before-wake, waker cleanup on every failed registration arm, exhaustive switches, the protocol's transition table, acquire-before-payload-read, endpoint Send/!Sync/!Clone. The outcome / exactly-once / wake-up guarantees over all interleavings and weak-memory executions are NOT decided (they need a memory-model-aware exploration).",
        "Trusted: rustc nightly MIR and constant evaluation, factgen extraction, the protocol tables (TRANSITIONS, SWITCH_TABLE, cell access table) in vf/props/c05.py which restate packages/events_once/src/core/state.rs.",
        "DESIGN.md section 3, C05"),
    "C06": (
        "path-sensitive ordering dataflow on MIR (last-read acquire state / last-write release state, compare_exchange success/failure split at the branch on its result, helper summaries, fences), sibling cross-check of the two sender transitions, who-may-call + guard on release_event, reachability of deallocation primitives per storage strategy",
        "Decides structural necessary conditions only: Acquire on every path that grants release of the storage, Release on every hand-over, no event access after hand-over, release_event discipline, one deallocation primitive per storage strategy. One violation on the pinned tree (missing acquire fence in sender_dropped_without_set's DISCONNECTED arm) was a genuine defect and is repaired by a fix: commit. Leak freedom at quiescence and the full happens-before relation over all schedules are not decided.",
        "Trusted: rustc nightly MIR, factgen extraction of orderings as evaluated constants, the return-shape table (SPEC) in vf/props/c06.py; C11 release/acquire semantics as the reason the rule is necessary.",
        "DESIGN.md section 3, C06"),
    "C07": (
        "MIR rules keyed on the syntactic re-entry points (Waker clone/wake/drop sites found by the user-code classifier): must-pass-through of a state re-read between a callback and any later cell access or state store, dominance (terminal store before wake, revert before drop, clone before cell), reachability (no callback after extraction), per-path sink counting for cloned wakers, dominating-switch typestate table on Cell<u8> reads",
        "Decides structural necessary conditions only: re-validation after every callback unless the state is already terminal, terminal-before-wake, extraction-is-last, clone-before-cell, revert-before-drop with a fresh read, release discipline, waker balance, cell typestate table, no use of the event reference after the sender-side wake. The tree of nested callback programs is not explored.",
        "Trusted: rustc nightly MIR, factgen extraction, the user-code classification, the cell/typestate tables in vf/props/c07.py restating core/state.rs and docs/callback-safety.md.",
        "DESIGN.md section 3, C07"),
    "C08": (
        "MIR rules over events + awaiter_set loaded as one program: guard liveness (wake outside the mutex, is_notified read under it, register under it), must-pass-through of the signal re-read between fetch_or(HAS_WAITERS) and register, dominating-switch guards, evaluated orderings/constants, single-writer and path rules on the awaiter list (generation stamp only with the tail link); for the single-threaded pair: liveness of `&mut` views across waker callbacks (every use after a callback must re-derive the view), signal forwarding shape, drain shape",
        "Weakest form: linearizability is NOT decided. Decides structural necessary conditions of 'no lost / duplicated signal': wake outside the lock, set-flag-then-recheck before register, HAS_WAITERS clear discipline, cancel forwards-or-restores decided under the lock, manual-set publish/advance/drain shape, release/acquire on signal publication/consumption, awaiter-list discipline (generation, lifecycle), the only way to skip the manual drain is 'no waiters observed'. Single-threaded pair: no stale &mut view of the waiter list/state across a waker callback, notify-or-store on set and on cancel of a notified wait, flag-advance-drain order, register only while unset after consuming the notification.",
        "Trusted: rustc nightly MIR, factgen extraction, constants IDLE/SIGNALED/HAS_WAITERS as evaluated, user-code/guard classification.",
        "DESIGN.md section 3, C08"),
    "C09": (
        "MIR rules: backward slices for result provenance, field read/write census over the call graphs of take and take_all (no dead criterion), quota guard shape, loop rule for length-bounded accumulation (bulk additions must be sized by the remainder), call-graph field-read rule for builder-time exclusion passes, entry-API merge shape of the candidate map, pick-removes-picked pairing in revisiting loops, total-sort-largest-first shape of the prefer-same region order",
        "Narrow: decides provenance from the filtered candidate map, that every configured criterion is read, the quota guards, bounded accumulation, independence of filter passes from later-changeable criteria, total per-region grouping. The bounded-accumulation violation on the pinned tree (prefer-same over-selects) was genuine, reproduced and repaired by a fix: commit. Satisfiability/optimality for all topologies is not decided.",
        "Trusted: rustc nightly MIR, factgen extraction, method-name recognition of Vec/HashMap/itertools calls.",
        "DESIGN.md section 3, C09"),
    "C10": (
        "MIR rules: FFI length/pointer provenance by backward slice to one CpuMask, who-may-call chain for the affinity syscall, exactly-one bookkeeping call per path with dominating-comparison classification of its form, thread_local / hardware_id keyed access census, fresh-mask provenance",
        "Narrow: the OS effect is NOT decided. Decides FFI buffer agreement, the single door to sched_setaffinity, pin bookkeeping on every path with the right form, per-thread per-hardware keyed state and pin-before-entry in spawn_threads, and that the mask given to the kernel is built fresh from exactly the given processors.",
        "Trusted: rustc nightly MIR, factgen extraction; Linux build of many_cpus_impl (cfg(target_os = linux)).",
        "DESIGN.md section 3, C10"),
    "C12": (
        "guard-liveness x user-code classification over the linked crate (incl. closures run under LocalKey::with_borrow*), call-graph reachability of thread::current() from Drop of Send reference types (Send decided by the trait matrix of a probe crate), guard liveness at the reference-count test, entry()/insert discipline on the registries",
        "Decides structural necessary conditions only: no user code under a registry lock / thread-local registry borrow (first access with nested linked variables terminates), per-thread cleanup of Send references keyed by origin and decided under the lock, confinement witnesses, create-outside/insert-under-lock with occupied re-check, first registration wins. Two defects found by R1 on the pinned tree were genuine, reproduced and repaired by two fix: commits; R2/R3 on RefSync are genuine, reproduced and recorded as known findings (repair is a design change). Exactly-one-family under all racing first accesses is not decided.",
        "Trusted: rustc nightly MIR and trait solver, factgen extraction, user-code classification with the benign tables in vf/props/c12.py.",
        "DESIGN.md section 3, C12"),
    "C13": (
        "MIR rules: dominance order generation -> publish -> invalidate, control-dependence of re-invalidation on the generation comparison, must-pass-through of a latest-value re-load between the regional install and leaving the install loop, scope-guard bracketing of the user Clone, who-may-call for the per-thread region lookup",
        "Decides structural necessary conditions only: publish-then-invalidate, mismatch retries, validate-after-install, guard brackets Clone, per-thread region resolution / own-slot writes. The validate-after-install violation on the pinned tree was a genuine, reproduced staleness defect and is repaired by a fix: commit. Visibility and ordering over all interleavings are not decided.",
        "Trusted: rustc nightly MIR, factgen extraction, arc_swap load/store/compare_and_swap recognised by callee name.",
        "DESIGN.md section 3, C13"),
    "C14": (
        "MIR rules: dominance/must-pass-through for listen -> re-check -> wait and push -> notify, guard liveness (no task run under a queue lock; flag re-read under the handle-list lock; joins outside it), catch_unwind containment of the user closure with send-on-every-path, backward slices for the single processor id, control-dependence of enqueue on a shutdown check",
        "Decides structural necessary conditions only: no-lost-wake-up protocol shape on worker and spawner side, run-once / panic-captured / result-always-sent, one processor id and pin-before-loop, shutdown ordering, no task under a queue lock. The enqueue/shutdown discipline (R5) is violated on the pinned tree: genuine, reproduced (handles hang) and recorded as three known findings; the repair is cross-cutting. Liveness over all schedules is not decided.",
        "Trusted: rustc nightly MIR, factgen extraction, expansion shape of event_listener's listener! macro (StackSlot::listen / Listener::wait), user-code classification.",
        "DESIGN.md section 3, C14"),
    "C15": (
        "MIR rules: per-path counting of reference-count effects of the RawWaker vtable functions (own atomic ops + callee calls), control-dependence of the free on the decrement's result, evaluated orderings, dominance of the activation-flag swap over the inner poll, guard liveness at parent clone/wake, method whitelist and predicate check on the slot deque, destruction-site census for metadata release",
        "Decides structural necessary conditions only: refcount effects clone +1 / wake -1 / wake_by_ref 0 / drop -1 / make_waker +1 / create 1 with free on last; Release decrement and Acquire before free; clear-flag-before-poll and 0->1 parent wake outside the lock; parent installed through an unconditional lock; removals only at the ends under the readiness predicate; one release_ref per destroyed Pending slot. Order equivalence with a reference deque over all histories and wake delivery over all interleavings are not decided.",
        "Trusted: rustc nightly MIR, factgen extraction (evaluated constants/orderings), method whitelist in vf/props/c15.py.",
        "DESIGN.md section 3, C15"),
    "C17": (
        "MIR rules: detection of lifetime-erasing transmutes (source = target after region erasure), exit analysis over both return and unwind edges (must-pass-through of a drain-guard Drop on every unwind path from a panicking call after the first cross-thread hand-off; returns only behind the collection loop's exhaustion), loop/dominance shape of the per-thread closure, backward slices for barrier size and group indexes",
        "Decides structural necessary conditions only: the scope obligation created by the lifetime-erasing transmute (no return or unwind before all result channels are drained), the call-count shape of the per-thread closure, barrier/grouping provenance. The violation found on the pinned tree (panicking expect inside the collection/dispatch loops) was a genuine, reproduced use-after-return and is repaired by a fix: commit. Numeric iteration counts for all inputs are not decided.",
        "Trusted: rustc nightly MIR incl. unwind edges and cleanup blocks, factgen extraction, the list of calls considered panicking (expect/unwrap/panic*/user Clone) in vf/props/c17.py.",
        "DESIGN.md section 3, C17"),
    "C18": (
        "MIR rules: exactly-once forwarding on every path, argument/return identity by backward slice, who-may-call on the counters, dominance of register-before-publish",
        "Decides structural necessary conditions only: each GlobalAlloc method forwards exactly once with unchanged arguments and returns the inner result; (size,1) is recorded exactly once for alloc/alloc_zeroed/realloc and never for dealloc; counters are thread-local and registered before publication; spans subtract their start snapshot. It does not decide exactness over all allocation histories/interleavings.",
        "Trusted: rustc nightly MIR construction and callee resolution, factgen extraction, the rule table in vf/props/c18.py. Analyses lib target, default features, dev profile.",
        "DESIGN.md section 3, C18"),
    "C19": (
        "MIR rules over the async bodies (analysis MIR of coroutines): dominance order create->write->flush->close->rename, who-may-call on file-writing primitives, dominating-switch guards (Ok(false) arm), backward slices for path provenance, writer/lister constant agreement",
        "Decides structural necessary conditions only: write order and rename-last in write_atomic, single writer function, temp file beside the target with the reserved prefix shared by writer and lister, existence check guarding write-once put, key validation dominating every filesystem call, compress/decompress pairing. Crash atomicity itself rests on rename(2) and is not decided; nor are byte-identical round trips or reader/writer interleavings.",
        "Trusted: rustc nightly MIR construction (mir_promoted of coroutine bodies captured through a query-provider override), factgen extraction, rule table in vf/props/c19.py; rename(2) atomicity.",
        "DESIGN.md section 3, C19"),
}

CLAIMS["C20"] = (
    "abstract interpretation over MIR (interval flags: lower bound >= 1e-15 known / upper bound <= 1 known) with constants by value, clamp as the only sanitiser, f64::min/max/clamp lattice rules, callee summaries by fixpoint, struct-field summaries over construction sites, container-element summaries; plus structural check of the sanitiser and sibling agreement on the exact/approximate switch-over predicate",
    "One clause only: every reported p-value lies in [1e-15, 1] and non-finite intermediates map to 'no evidence' - for all inputs, by construction of the abstract interpretation (any arithmetic result is unbounded until sanitised). Exactness of the rank tests/estimators against their definitions and the invariances are numerical and NOT decided.",
    "Trusted: rustc nightly MIR and float constant evaluation, factgen extraction, the table of p-valued fields/functions in vf/props/c20.py, lattice rules for f64::min/max (NaN-ignoring) and clamp.",
    "DESIGN.md section 3, C20")

CLAIMS["C16"] = (
    "MIR rules over nm_impl: write/read correspondence of counter fields by backward slice (which field of which parameter feeds which store / fetch_add / Cell::set, and under which index), per-path counting and must-pass-through (bucket increment -> dirty mark; copy -> remember), evaluated-constant agreement between the dirty-bit marker, the overflow mask and the overflow drain, normalised comparison operator of the bucket-selection predicate, guard liveness of the registry state lock across remove+archive and across thread-bags+archive visits, argument identity from every observe entry point to insert",
    "Decides structural necessary conditions only (narrow): every bucket increment sets the dirty bit min(index,K) and the three uses of K agree; both insert siblings add batch / magnitude*batch / batch to count / sum / the first bucket with magnitude <= bound, with only the sanctioned early exits; push copies count, sum, the overflow range and each dirty bucket index-for-index and consumes the bitmap once; merges are additive; the pusher skips only on an unchanged count and remembers the count it compared; the published bag is the registered bag; thread teardown archives under the write guard that removed the thread's bags and reports read under one read guard; batch size and magnitude reach insert unchanged; report count/sum/overflow bucket come from the merged snapshot. The totals themselves over all observation histories, interleavings, torn concurrent reads and wrapping extremes are NOT decided.",
    "Trusted: rustc nightly MIR and constant evaluation, factgen extraction, the accepted-idiom lists in vf/props/c16.py (first-match scans, min() marker, entry API).",
    "DESIGN.md section 3, C16")

CLAIMS["C11"] = (
    "MIR rules over many_cpus_impl::pal::linux::{platform,cpu_mask} and cpulist: backward slices through closures and their captures for the joins (allowed filter, online file, node membership -> region), call-chain order of the fall-backs for the maxima, forward reachability of panicking extractors from optional-file reads, evaluated string constants for key matching and separators, symbolic linear forms over (group start, group length) for the range arithmetic of emit, inverse-pair recognition in the mask's bit arithmetic",
    "Narrow (was not_applicable until round 3): decides the structural joins and pairings only - reported processors = cpuinfo records whose index passes the allowed-list membership test, id = index; is_active from the same index's online file with absent = online and the public list filtered on it; memory region = key of the node whose member list contains the index with a non-panicking default; maxima are maxima over the possible -> online -> enumerated chain and the node table reads the same source as the region maximum; quota = min(count of reported processors, quota/period) with v2 before v1 and unswapped fields; an optional kernel file's absence never reaches expect/unwrap; cpuinfo keys compared lower-cased against lower-case constants, unreadable bogomips -> None, index-less record skipped; codec: parse splits on the separators emit writes, sorts then de-duplicates, ranges are inclusive, emit groups a sorted unique sequence, consumes exactly the group and never computes an intermediate above the range end; mask: bit position and id are inverse over one constant, insert never narrows, equality pads. One violation on the pinned tree (emit overflows for a run of >= 3 ids ending at u32::MAX) was a genuine defect, reproduced (repro/src/bin/c11.rs) and repaired by a fix: commit. Equality between any parsed text and the inventory, number parsing and the float arithmetic are NOT decided.",
    "Trusted: rustc nightly MIR and constant evaluation (incl. Display of promoted constants), factgen extraction, the fmt::Arguments template grammar of this toolchain (fail closed when unrecognised), the axiom that ids in a strictly ascending u32 sequence bound start+len by the next element.",
    "DESIGN.md section 3, C11")

NOT_APPLICABLE = {
}

# clauses added in round 3 (appended to the level text of the property)
EXTRA = {
    "C01": " Round 3: also evaluates the sibling rules C02.R3/R4/R5/R11/R12 (bookkeeping whose corruption places an object outside its slab or over a live one).",
    "C02": " Round 3: no slab index, scan bound or iterator cursor derives from an object count (R12); also evaluates C01.R2/R7/R9 and C04.R4/R3-premise.",
    "C03": " Round 3: no decision taken under one acquisition of the pool mutex guards an action under a later one (check-then-act, R6); shrink keeps live slabs (R7) and counts are not positions (R8); also evaluates C04.R5 and C02.R2/R3/R4/R7.",
    "C04": " Round 3: the excused pre-initialiser writes are self-consistent (R3 premise); also evaluates C02.R1/R4/R5 (dropper armed only after the initialiser, counters after it).",
    "C05": " Round 3: compare_exchange_weak only inside a retry loop (R10); a literal Pending only on the success side of the CAS to AWAITING (R11); also evaluates C06.R3/R6/R7.",
    "C06": " Round 3: the endpoint layer does nothing with its event reference after the sender's finishing transition returned except release_event (R3 extension); also evaluates C05.R7/R9/R10.",
    "C07": " Round 3: the endpoint layer (LocalSenderCore send / Drop) does nothing with its event reference after the finishing transition returned except release_event.",
    "C08": " Round 3: all four poll_wait return Pending only behind register(.., waker of this poll) (R9); the thread-safe auto-reset poll makes a second consumption attempt only after the first returned false (R10).",
    "C09": " Round 3: nothing but None leaves take_all around the quota reduction; the thread-availability pass tests every candidate on every path.",
    "C10": " Round 3: thread_processors answers from the full inventory, never from the quota-limited set (R7); also evaluates C09.R5 (the consumer of the affinity read-back).",
    "C12": " Round 3: the per-thread cleanup always takes the blocking write lock and reaches the removal once the lock is taken (R8b).",
    "C19": " Round 3: the reused per-thread codec state is reset unconditionally before every use (R6).",
    "C20": " Round 3 adds two shape clauses about order statistics: median_in_place reads its middle positions from a totally sorted slice (R5); benjamini_hochberg sorts and then scans EVERY ordered p-value keeping the largest passing rank, with no exit before the scan except for empty input (R6). Numerical exactness remains undecided.",
}

EXTRA2 = {
    "C01": " Round 4/5: checked insertion entry points verify the layout or forward to a checked one (R10); a checked entry point and its `_unchecked` twin differ only by that verification (R11).",
    "C02": " Round 4: builder steps carry every option on (R13); the free-list head only ever takes a vacated or vacant index (R14).",
    "C04": " Round 4: RefCell-protected pool state is reached only through borrow guards (R6).",
    "C05": " Round 4/5: the cell accessors (poll_set / destroy_value / destroy_awaiter) are judged by the state observed at their call site whether they exist as helpers or are written out.",
    "C06": " Round 4: receiver Drop reaches final_poll on every path and releases unless its result is Ok(None); sender Drop likewise; nothing uses the event reference after the storage was given back.",
    "C07": " Round 4: the same receiver/sender Drop endpoint rules on the single-threaded endpoints.",
    "C08": " Round 4/5: the manual-reset flag word is only written bit-wise (R11); the awaiter's lifecycle byte is stored release-ish and read acquire-ish where NOTIFIED/registration is acted upon.",
    "C09": " Round 4: every ProcessorSet -> builder conversion restricts the source; membership is tested by id over all processors (R9).",
    "C10": " Round 4: pin-state lookups scan all entries of the per-thread table; the fake platform's pin overwrites (R8).",
    "C13": " Round 4: one install door for regional values; regional states are born empty (R9).",
    "C14": " Round 4: the per-processor table is sized by the id space and the shutdown broadcast is unconditional (R8).",
    "C15": " Round 4: each deque wakes its own parent cell (R7).",
    "C16": " Round 4: the overflow subtraction is clamped; the bucket write is skipped only when there are no buckets or no bucket matches; each batch is merged from its own bag (R7).",
    "C18": " Round 4: reports merge spans only on the occupied side (R5b).",
    "C19": " Round 4: only the temporary path is ever opened for writing (R1).",
}

EXTRA3 = {
    "C02": " Round 5: after the pool iterator's slab cursor moves the cached per-slab iterator is rewritten before the next round (R15); also evaluates C04.R5 (a poisoned pool mutex stops every later handle drop from destroying its object).",
    "C03": " Round 5: also evaluates C01.R10/R11/R4 (checked insertion entry points, handle coordinates).",
    "C04": " Round 5: also evaluates C02.R8 (a slab dropped while a user panic unwinds does not raise its own panic).",
    "C05": " Round 5: each single-purpose cell accessor performs its access exactly once on every path.",
    "C06": " Round 5: the receiver's Future::poll releases on the inner poll's own result only; no function holding the event by `&Event` argument reaches a waker invocation (evaluated on the un-normalised program).",
    "C07": " Round 5: the same two rules on the single-threaded event and receiver.",
    "C08": " Round 5: no call made with the waiter-list guard live reaches Waker::clone.",
    "C09": " Round 5: every sample of the requested count is dominated by a length test of the sampled collection (R10); the quota reduction returns its own argument, only shortened.",
    "C10": " Round 5: the by-id processor table is filled at each processor's own id, never by position (R9).",
    "C11": " Round 5: CpuMask equality returns nothing but the padded word-by-word comparison.",
    "C12": " Round 5: closures handed by value to library code under a registry guard capture nothing with a user destructor; the first-instance provider is only ever handed to the registry-arbitrated initialiser.",
    "C13": " Round 5: every retry of the regional install re-loads the latest value; users of a region's state run on the slot's content, never on a private copy.",
    "C14": " Round 5: Pool::drop reaches join_all_workers exactly once on every path.",
    "C17": " Round 5: no user callback of the worker closure runs with a lock guard live.",
    "C18": " Round 5: no decision taken under one acquisition of the session's operations lock acts under another (R6).",
    "C19": " Round 5: run_inflate originates a truncation error only after the pass's decompress call and from its output progress.",
    "C20": " Round 5: sorts of f64-valued slices compare numerically (total_cmp / partial_cmp), never by bit pattern (R7); the tie term handed to the normal approximation is the unconditional result of mann_whitney_tie_term (R8).",
}

EXTRA4 = {
    "C01": " Round 6: the page pre-faulting helper runs only inside Slab::new before the slot metadata is initialised (R12).",
    "C03": " Round 6: also evaluates C01.R12.",
    "C04": " Round 6: also evaluates C03.R5 (a handle dropped during an unwind still takes the pool lock unconditionally).",
    "C05": " Round 6: also evaluates C06.R1 (every releasing arm, the disconnect arm included, acquired the sender's accesses).",
    "C07": " Round 6: a waker taken out of the awaiter cell is woken on every normal path.",
    "C08": " Round 6: the Drop of every wait future reaches drop_wait exactly once on every path.",
    "C10": " Round 6: pin readers consult the thread-local table on every path and nothing shared between threads; PinStateMap::set never evicts.",
    "C11": " Round 6: the cgroup line is never split at every ':' (the path may contain colons).",
    "C12": " Round 6: thread::current() is not reachable from RefSync::clone; a function that waits on a condition it sets notifies on every return after the wait.",
    "C13": " Round 6: the region crates never decide from SystemHardware::processors()/all_processors() (quota-limited, not affinity).",
    "C14": " Round 6: every spawn path ensures the pool's workers before enqueueing; the worker takes one task at a time from the shared queues.",
    "C15": " Round 6: a consumed activation flag is always followed by the poll of that future.",
    "C17": " Round 6: the measured loop runs to the exhaustion of the prepared iteration states.",
    "C19": " Round 6: put_overwrite returns Ok only behind the atomic write.",
    "C20": " Round 6: a non-finite guard of a parameter dominates every other use of it (R9); Theil-Sen records a slope for every pair (R10).",
}

EXTRA5 = {
    "C03": " Round 7: also evaluates C02.R5 (the vacancy tracker is told 'full' exactly when the slab says so).",
    "C08": " Round 7: a fresh link in AwaiterSet::register writes both link fields of the awaiter.",
    "C10": " Round 7: PinStateMap never uses an index counted from the back as an index from the front.",
    "C11": " Round 7: every method of the filesystem / bindings facades forwards to the operation of its own name.",
    "C12": " Round 7: the per-thread maps are keyed by ThreadId.",
    "C16": " Round 7: the thread-local registry's duplicate check precedes the global registration.",
    "C17": " Round 7: after the worker-side result send nothing of caller-chosen type is destroyed and no user code runs.",
    "C18": " Round 7: every process-wide static holding counters is read by allocation_totals (no write-only sink).",
    "C19": " Round 7: every path to the atomic write passes compress.",
    "C20": " Round 7: the tie predicate is exact equality under total_cmp (no tolerance).",
}

PENDING = "static check not implemented yet in this round (planned, see DESIGN.md section 5); not claimed until it exists"

ALL = [f"C{i:02d}" for i in range(1, 21)]


def main():
    checks = []
    for pid in ALL:
        if pid not in CLAIMS:
            continue
        tech, text, note, ref = CLAIMS[pid]
        text = text + EXTRA.get(pid, "") + EXTRA2.get(pid, "") + EXTRA3.get(pid, "") + EXTRA4.get(pid, "") + EXTRA5.get(pid, "")
        note = note + " Names, parameter order and field names of the analysed tree are mapped back to the committed baseline vocabulary (vf/baseline.json) where unambiguous; new private helpers are inlined into their callers before the rules run."
        checks.append({
            "property_id": pid,
            "quick_cmd": f"./check {pid} --tier quick",
            "thorough_cmd": f"./check {pid} --tier thorough",
            "evidence_file": f"/verif/evidence/{pid}.json",
            "replay_cmd_template": f"./check {pid} --replay {{path}}",
            "engine": "factgen+rules",
            "level_claimed": {"category": "other", "text": text, "design_ref": ref},
            "level_note": note,
            "technique": "static analysis: " + tech,
        })
    na = []
    for pid in ALL:
        if pid in CLAIMS:
            continue
        na.append({"property_id": pid, "reason": NOT_APPLICABLE.get(pid, PENDING)})
    m = {
        "version": 1,
        "setup_cmd": "./setup.sh",
        "hooks": {
            "guard": "folo_verif",
            "enable": "none needed: the checks analyse /repo as built (cargo +nightly check with the factgen rustc wrapper); no hook code exists in /repo",
            "baseline_off_cmd": "cd /repo && cargo nextest run --workspace --no-fail-fast --tool-config-file pb:/w/lib/nextest.toml --profile pb --test-threads 8 --offline",
            "source_commits": [],
            "add_only": True,
        },
        "engines": [
            {"name": "factgen", "path": "/verif/factgen", "serves_properties": sorted(CLAIMS),
             "kind_free_text": "rustc_private driver (RUSTC_WORKSPACE_WRAPPER) dumping elaborated/analysis MIR with resolved callees, evaluated constants, ADTs, impls and a trait matrix as JSON facts"},
            {"name": "rules", "path": "/verif/vf", "serves_properties": sorted(CLAIMS),
             "kind_free_text": "Python rule engine over the facts: CFG dominance / must-pass-through / per-path counting, guard liveness, user-code classification with interprocedural summaries, atomic-ordering events, backward slices"},
        ],
        "checks": checks,
        "not_applicable": na,
        "notes": "All claimed checks are static analyses of the current /repo tree (no test or binary of /repo is executed). Known findings live in /verif/known_findings.jsonl.",
    }
    with open(os.path.join(HERE, "MANIFEST.json"), "w") as f:
        json.dump(m, f, indent=1)
        f.write("\n")


if __name__ == "__main__":
    main()

#!/usr/bin/env python3
"""tools_mut.py <ID> <file> <old> <new> : apply a textual edit to /repo, run ./check ID, revert."""
import subprocess, sys
pid, path, old, new = sys.argv[1:5]
p = '/repo/' + path
s = open(p).read()
assert s.count(old) >= 1, "pattern not found"
open(p, 'w').write(s.replace(old, new, 1))
try:
    r = subprocess.run(['/verif/check', pid], capture_output=True, text=True)
    out = r.stdout
    lines = [l for l in out.splitlines() if 'violation' in l.lower() or l.startswith('    ')]
    print('\n'.join(lines[:30]))
    print('rc', r.returncode)
    if r.returncode not in (0,1): print(out[-3000:], r.stderr[-3000:])
finally:
    subprocess.run(['git', '-C', '/repo', 'checkout', '--', path])

"""Path-sensitive ordering dataflow for a one-byte atomic state protocol.

Abstract state per program point (a set of these is kept per block):
    acq   'A' if the last atomic read of the state field on this path was acquire-ish or has been
          followed by an acquire-ish fence; 'N' otherwise (also at function entry)
    rel   'R' if the last atomic write of the state field on this path was release-ish (or relaxed but
          preceded by a release fence), 'W' if it was weaker, '-' if the path has not written yet
    pend  None, or (kind, local, succ(acq,rel), fail(acq,rel)) for a compare_exchange whose outcome has
          not been branched on yet: kind 'res' = Result local, 'okb'/'errb' = bool from is_ok()/is_err()
"""
from collections import defaultdict

from .analysis import atomic_events, acquireish, releaseish, discr_source
from .mir import callee_key, op_local, op_place, place_fields


class Flow:
    def __init__(self, body, field_suffix, summaries=None, cell_mode=False):
        self.body = body
        self.field_suffix = field_suffix
        self.summaries = summaries or {}
        self.events = {}
        for e in atomic_events(body):
            if e["op"] == "fence" or (e["field"] and e["field"].endswith(field_suffix)):
                self.events[e["bb"]] = e
        self.in_states = defaultdict(set)
        self.out_states = {}
        self._run()

    def has_events(self):
        return any(e["op"] != "fence" for e in self.events.values())

    # -- transfer of one block's terminator on one state
    def _apply(self, bb, st):
        acq, rel, relfence, pend = st
        b = self.body.blocks[bb]
        t = b.term
        e = self.events.get(bb)
        if e is not None:
            op = e["op"]
            ords = [o for o in e["ords"] if o]
            if op == "fence":
                o = ords[0] if ords else None
                if acquireish(o):
                    acq = "A"
                    if pend:
                        k, l, s, f = pend
                        pend = (k, l, ("A", s[1]), ("A", f[1]))
                if releaseish(o):
                    relfence = True
            elif op == "load":
                acq = "A" if ords and acquireish(ords[0]) else "N"
                pend = None
            elif op == "store":
                rel = "R" if (ords and releaseish(ords[0])) or relfence else "W"
                pend = None
            elif op in ("compare_exchange", "compare_exchange_weak"):
                so = ords[0] if ords else None
                fo = ords[1] if len(ords) > 1 else None
                succ = ("A" if acquireish(so) else "N", "R" if releaseish(so) or relfence else "W")
                fail = ("A" if acquireish(fo) else "N", rel)
                pend = ("res", e["dest"], succ, fail)
                # until branched on: worst case
                acq = "A" if succ[0] == "A" and fail[0] == "A" else "N"
            elif op in ("get_mut", "into_inner"):
                pass
            else:  # swap, fetch_*: read-modify-write
                o = ords[0] if ords else None
                acq = "A" if acquireish(o) else "N"
                rel = "R" if releaseish(o) or relfence else "W"
                pend = None
        elif t["k"] == "call":
            k = callee_key(t["callee"])
            if k in self.summaries:
                s_acq, s_rel = self.summaries[k]
                if s_acq is not None:
                    acq = s_acq
                    pend = None
                if s_rel is not None:
                    rel = s_rel
            elif pend and t["callee"].get("method") in ("is_ok", "is_err") and t["args"]:
                # bool derived from the pending Result
                src = op_place(t["args"][0])
                root = src["l"] if src else None
                d = self.body.unique_def(root) if root is not None else None
                if d and d[2] == "assign" and d[3]["rv"]["k"] == "ref" and d[3]["rv"]["place"]["l"] == pend[1]:
                    kind = "okb" if t["callee"]["method"] == "is_ok" else "errb"
                    pend = (kind, t["dest"]["l"], pend[2], pend[3])
        return (acq, rel, relfence, pend)

    def _edges(self, bb, st):
        """Successor states per outgoing normal edge (resolving a pending CAS at switches)."""
        body = self.body
        t = body.blocks[bb].term
        acq, rel, relfence, pend = st
        outs = []
        succs = body.term_succ(bb, unwind=False)
        if t["k"] == "switch" and pend:
            kind, l, succ, fail = pend
            dl = op_local(t["discr"])
            src = discr_source(body, dl) if dl is not None else {}
            hit = None
            if kind == "res" and src.get("kind") == "discr" and src["place"]["l"] == l and not src["place"]["p"]:
                hit = "res"
            elif kind in ("okb", "errb") and (dl == l or (src.get("kind") == "local" and src.get("local") == l)):
                hit = kind
            elif kind in ("okb", "errb"):
                d = body.unique_def(dl) if dl is not None else None
                if d and d[2] == "assign" and d[3]["rv"]["k"] == "use" and op_local(d[3]["rv"]["op"]) == l:
                    hit = kind
            if hit:
                for v, tgt in [(a[0], a[1]) for a in t["arms"]] + [("otherwise", t["otherwise"])]:
                    if hit == "res":
                        ok_edge = (v == 0)
                        if v == "otherwise":
                            listed = [a[0] for a in t["arms"]]
                            ok_edge = None if (0 in listed and 1 in listed) else (0 not in listed)
                            if 0 in listed and 1 in listed:
                                continue  # unreachable default
                    else:
                        truth = (v != 0) if v != "otherwise" else True
                        if v == "otherwise" and 0 not in [a[0] for a in t["arms"]]:
                            truth = None
                        ok_edge = truth if hit == "okb" else (None if truth is None else not truth)
                    if ok_edge is None:
                        outs.append((tgt, (acq, rel, relfence, pend)))
                    elif ok_edge:
                        outs.append((tgt, (succ[0], succ[1], relfence, None)))
                    else:
                        outs.append((tgt, (fail[0], fail[1], relfence, None)))
                return outs
        for s in succs:
            outs.append((s, st))
        return outs

    def _run(self):
        body = self.body
        start = ("N", "-", False, None)
        self.in_states[0].add(start)
        work = [0]
        seen_pairs = set()
        while work:
            bb = work.pop()
            for st in list(self.in_states[bb]):
                if (bb, st) in seen_pairs:
                    continue
                seen_pairs.add((bb, st))
                if body.blocks[bb].cleanup:
                    continue
                out = self._apply(bb, st)
                self.out_states.setdefault(bb, set()).add(out)
                for tgt, s2 in self._edges(bb, out):
                    if s2 not in self.in_states[tgt]:
                        self.in_states[tgt].add(s2)
                        work.append(tgt)
                    elif (tgt, s2) not in seen_pairs:
                        work.append(tgt)

    # -- queries
    def acq_at_entry(self, bb):
        """'A' iff every state reaching the block has acq == 'A'."""
        sts = self.in_states.get(bb)
        if not sts:
            return None
        return "A" if all(s[0] == "A" for s in sts) else "N"

    def rel_at_entry(self, bb):
        sts = self.in_states.get(bb)
        if not sts:
            return None
        vals = {s[1] for s in sts}
        if vals == {"R"}:
            return "R"
        if vals <= {"R", "-"}:
            return "R-" if "R" in vals else "-"
        return "W"

    def exit_summary(self):
        """(acq, rel) effect of calling this function, None = unchanged / no events."""
        if not self.has_events() and not any(e["op"] == "fence" for e in self.events.values()):
            return (None, None)
        rets = self.body.exits(("return",))
        accs, rels = [], []
        for r in rets:
            a = self.acq_at_entry(r)
            if a is not None:
                accs.append(a)
                rels.append(self.rel_at_entry(r))
        if not accs:
            return (None, None)
        acq = "A" if all(a == "A" for a in accs) else "N"
        rel = None
        if any(x != "-" for x in rels):
            rel = "R" if all(x in ("R",) for x in rels) else "W"
        return (acq, rel)


def summaries_for(bodies, field_suffix, rounds=4):
    """Fixpoint of exit summaries over a set of bodies (helpers calling helpers)."""
    summ = {}
    for _ in range(rounds):
        new = {}
        for b in bodies:
            f = Flow(b, field_suffix, summ)
            s = f.exit_summary()
            if s != (None, None):
                new[b.key] = s
        if new == summ:
            break
        summ = new
    return summ


def variant_path(body, op, depth=4):
    """Describe the enum value an operand holds as a path of variant names, e.g. ['Ok','Some'] or
    ['Err'], following single-definition aggregates; '?' when unknown (e.g. a call result)."""
    out = []
    while depth:
        depth -= 1
        l = op_local(op)
        if l is None:
            if op and op.get("k") == "const" and op.get("variant"):
                out.append(op["variant"])
            else:
                out.append("?")
            return out
        d = body.unique_def(l)
        if not d:
            out.append("?")
            return out
        if d[2] == "call":
            out.append("call:" + callee_key(d[3]["callee"]))
            return out
        rv = d[3]["rv"]
        if rv["k"] == "aggr" and "variant" in rv:
            out.append(rv["variant"])
            if not rv["ops"]:
                return out
            op = rv["ops"][0]
            continue
        if rv["k"] == "use":
            op = rv["op"]
            continue
        out.append("?")
        return out
    return out


def value_forms(body, op, depth=8, proj=()):
    """Where does the (enum) value of `op` come from, per reaching definition: [(variant name | '?', bb of the defining
    aggregate)]. Unlike variant_path this follows locals with several definitions (a value chosen in the arms of a match and
    used after the join) and field projections into tuple / struct aggregates (`let (a, b) = helper()` after splicing)."""
    if depth == 0 or op is None:
        return [("?", None)]
    if op.get("k") == "const":
        return [(op.get("variant") or "?", None)] if not proj else [("?", None)]
    pl = op.get("place")
    if pl is None:
        return [("?", None)]
    fields = []
    for e in pl["p"]:
        if isinstance(e, dict) and "i" in e and "v" not in e:
            fields.append(e["i"])
        else:
            return [("?", None)]
    fields = tuple(fields) + tuple(proj)
    out = []
    defs = body.defs().get(pl["l"], [])
    if not defs:
        return [("?", None)]
    for d in defs:
        bb, _i, kind, payload = d
        if kind != "assign" or payload["place"]["p"]:
            out.append(("?", bb))
            continue
        rv = payload["rv"]
        if rv["k"] == "use":
            out += value_forms(body, rv["op"], depth - 1, fields)
        elif rv["k"] == "aggr":
            if not fields:
                out.append((rv.get("variant") or "?", bb))
            elif fields[0] < len(rv["ops"]) and "variant" not in rv:
                out += value_forms(body, rv["ops"][fields[0]], depth - 1, fields[1:])
            else:
                out.append(("?", bb))
        else:
            out.append(("?", bb))
    return out


def return_sites(body):
    """[(bb, variant_path)] for every definition of the return place."""
    out = []
    for b in body.blocks:
        if b.cleanup:
            continue
        for s in b.stmts:
            if s["k"] == "assign" and s["place"]["l"] == 0 and not s["place"]["p"]:
                rv = s["rv"]
                if rv["k"] == "aggr" and "variant" in rv:
                    p = [rv["variant"]]
                    if rv["ops"]:
                        p += variant_path(body, rv["ops"][0])
                    out.append((b.idx, p, s))
                elif rv["k"] == "use":
                    out.append((b.idx, variant_path(body, rv["op"]), s))
                else:
                    out.append((b.idx, ["?"], s))
        t = b.term
        if t["k"] == "call" and t["dest"]["l"] == 0 and not t["dest"]["p"]:
            out.append((b.idx, ["call:" + callee_key(t["callee"])], t))
    return out

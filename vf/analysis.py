"""Shared analyses over MIR facts: path counting, user-code classification with
interprocedural summaries, guard liveness, atomic events, value guards."""
import re
import sys
from collections import defaultdict

from .mir import (Program, Body, callee_key, callee_paths, strip_generics, op_local, op_place,
                  place_fields, resolve_const, access_path, op_access_path)

sys.setrecursionlimit(10000)
INF = float("inf")


# ------------------------------------------------------------------ SCC / path counts
def sccs(n, succ):
    index = {}
    low = {}
    onstack = set()
    stack = []
    out = []
    counter = [0]

    def strong(v):
        # iterative Tarjan
        work = [(v, 0)]
        while work:
            v, pi = work[-1]
            if pi == 0:
                index[v] = low[v] = counter[0]
                counter[0] += 1
                stack.append(v)
                onstack.add(v)
            recurse = False
            for i in range(pi, len(succ[v])):
                w = succ[v][i]
                if w not in index:
                    work[-1] = (v, i + 1)
                    work.append((w, 0))
                    recurse = True
                    break
                elif w in onstack:
                    low[v] = min(low[v], index[w])
            if recurse:
                continue
            if low[v] == index[v]:
                comp = []
                while True:
                    w = stack.pop()
                    onstack.discard(w)
                    comp.append(w)
                    if w == v:
                        break
                out.append(comp)
            work.pop()
            if work:
                u = work[-1][0]
                low[u] = min(low[u], low[v])

    for v in range(n):
        if v not in index:
            strong(v)
    return out


def path_count(body, match_blocks, unwind=False, exit_kinds=("return",), start=0):
    """(min, max) number of blocks in `match_blocks` on any path from `start` to an exit
    of the given kinds. max is INF if a matching block lies on a cycle. Returns None if
    no exit is reachable."""
    succ = body.succ(unwind)
    n = len(body.blocks)
    reach = body.reachable([start], unwind)
    exits = {b for b in body.exits(exit_kinds) if b in reach}
    if not exits:
        return None
    # restrict to blocks that can reach an exit
    preds = [[] for _ in range(n)]
    for i in range(n):
        for o in succ[i]:
            preds[o].append(i)
    can = set(exits)
    todo = list(exits)
    while todo:
        b = todo.pop()
        for p in preds[b]:
            if p not in can:
                can.add(p)
                todo.append(p)
    live = reach & can
    sub_succ = [[o for o in succ[i] if o in live] if i in live else [] for i in range(n)]
    comps = sccs(n, sub_succ)
    comp_of = {}
    for ci, c in enumerate(comps):
        for v in c:
            comp_of[v] = ci
    match = set(match_blocks)
    w = []
    for c in comps:
        cyc = len(c) > 1 or (c[0] in sub_succ[c[0]])
        m = sum(1 for v in c if v in match)
        w.append((m, INF if (cyc and m) else m))
    # comps is in reverse topological order (Tarjan): successors come first
    best = {}
    for ci, c in enumerate(comps):
        if not any(v in live for v in c):
            continue
        mins, maxs = [], []
        is_exit = any(v in exits for v in c)
        for v in c:
            for o in sub_succ[v]:
                co = comp_of[o]
                if co != ci and co in best:
                    mins.append(best[co][0])
                    maxs.append(best[co][1])
        if is_exit:
            mins.append(0)
            maxs.append(0)
        if not mins:
            continue
        best[ci] = (w[ci][0] + min(mins), w[ci][1] + max(maxs))
    return best.get(comp_of[start])


# ------------------------------------------------------------------ user code
FN_TRAITS = ("std::ops::FnOnce", "std::ops::FnMut", "std::ops::Fn", "core::ops::FnOnce", "core::ops::FnMut",
             "core::ops::Fn", "std::ops::function::FnOnce", "std::ops::AsyncFnOnce")
DROP_FNS = {"std::mem::drop", "core::mem::drop", "std::ptr::drop_in_place", "core::ptr::drop_in_place",
            "std::mem::MaybeUninit::assume_init_drop", "core::mem::MaybeUninit::assume_init_drop",
            "std::mem::ManuallyDrop::drop", "core::mem::ManuallyDrop::drop",
            "std::ptr::mut_ptr::drop_in_place", "std::ptr::NonNull::drop_in_place"}
WAKER_FNS = {"std::task::Waker::wake", "std::task::Waker::wake_by_ref", "std::task::Waker::clone_from",
             "core::task::Waker::wake", "core::task::Waker::wake_by_ref", "core::task::wake::Waker::wake",
             "core::task::wake::Waker::wake_by_ref"}
CATCH_UNWIND = {"std::panic::catch_unwind", "std::panicking::catch_unwind", "core::panic::catch_unwind"}

# Traits whose methods on a type parameter / dyn are NOT arbitrary user code for our purposes
# (marker-ish or allocation-free std plumbing). Everything else on a param/dyn is user code.
BENIGN_TRAITS = {"std::marker::Sized", "std::any::Any", "std::ptr::Pointee", "std::marker::Unpin",
                 # conversions between a crate's own handle types (`impl Into<RawPooled<T>>`); a check whose crate
                 # converts into USER types (linked: Family<T> -> T) removes them via `user_traits`
                 "std::convert::From", "std::convert::Into", "std::borrow::Borrow",
                 # implemented by the std range types; internal bitmap helpers take `impl RangeBounds<usize>`
                 "std::ops::RangeBounds"}


def ty_mentions_user(ty):
    """Dropping a value of this type may run user-controlled code: it OWNS (by value, not
    behind a reference / raw pointer / NonNull / PhantomData / ManuallyDrop) a type parameter,
    a dyn object, an opaque type or a Waker (whose drop runs a user vtable)."""
    if "oparam" in ty:
        if ty.get("oparam") or ty.get("odyn") or ty.get("oalias"):
            return True
        return any(a.endswith("task::Waker") or a.endswith("task::wake::Waker") for a in ty.get("owned", []))
    if ty.get("param") or ty.get("dyn") or ty.get("alias"):
        return True
    return ty_is_waker(ty)


def ty_is_waker(ty):
    return any(a.endswith("task::Waker") or a.endswith("task::wake::Waker") for a in ty.get("owned", ty.get("adts", [])))


def fn_bound_params(body):
    """Names of type parameters that have an Fn-family bound in the enclosing item."""
    out = set()
    for p in body.preds:
        m = re.match(r"^(?:for<[^>]*> )?(\w+): (?:for<[^>]*> )?(?:(?:std|core)::ops::(?:function::)?)?(Fn|FnMut|FnOnce|AsyncFn\w*)\b", p)
        if m:
            out.add(m.group(1))
    return out


BENIGN_BOUND_TRAITS = ("std::ops::RangeBounds",)


def benign_params(body):
    """Type parameters bounded by a std-only trait (e.g. `impl RangeBounds<usize>`): values of
    such a type are std types, dropping/using them runs no user code."""
    out = set()
    for p in body.preds:
        for tr in BENIGN_BOUND_TRAITS:
            i = p.find(": " + tr)
            if i > 0:
                out.add(p[:i])
    return out


FN_TRAIT_NAMES = ("ops::FnOnce", "ops::FnMut", "ops::Fn", "ops::function::FnOnce", "ops::function::FnMut",
                  "ops::function::Fn")


class UserCode:
    """Classifies call/drop sites on NORMAL (non-cleanup) paths as user-code points:
      U1 trait method dispatched on a type parameter / dyn / opaque (incl. calling an Fn-bounded
         parameter, reported as U1-closure-param),
      U2 drop (terminator, drop_in_place, mem::drop ...) of a value owning a parameter/dyn/opaque/Waker,
      U3 Waker::{wake, wake_by_ref, clone, clone_from},
      U4 indirect call through a fn pointer,
      U5 call of a local function (or drop glue of a local type) whose summary says so.
    Summaries are interprocedural least fixpoints. Calls of an Fn-bounded type parameter are
    tracked parametrically (`pinv`): they only become user code where the actual argument is the
    caller's own Fn-bounded parameter or a closure that itself runs user code, so
    `insert(value)` (internal closure `|u| u.write(value)`) is not mistaken for a callback."""

    def __init__(self, prog, extra_user_callees=(), benign_callees=(), benign_sites=(), benign_fnptr_fields=(), user_traits=()):
        self.prog = prog
        self.benign_traits = set(BENIGN_TRAITS) - set(user_traits)
        self.user_traits = set(user_traits)
        self.benign_fnptr_fields = tuple(benign_fnptr_fields)
        self.extra = set(extra_user_callees)
        self.benign = set(benign_callees)
        self.benign_sites = set(benign_sites)   # (body.key, what-prefix)
        self.summary = {}       # body.key -> reason (runs user code on some normal path)
        self.unc_summary = {}   # body.key -> reason (.. not contained by catch_unwind)
        self.pinv = defaultdict(set)      # body.key -> Fn-bounded param names it may invoke
        self.unc_pinv = defaultdict(set)
        self._site_cache = {}
        self._glue_cache = {}
        self._drop_impls = defaultdict(list)
        for b in prog.bodies:
            if b.impl_trait and b.impl_trait.endswith("ops::Drop") and b.name == "drop" and b.impl_adt and not b.is_closure:
                self._drop_impls[b.impl_adt].append(b)
        self._compute()

    # -- drop glue of local types
    def glue_bodies(self, ty):
        """Local Drop::drop bodies that dropping a value of type `ty` may run."""
        out = []
        seen = set()
        todo = list(ty.get("owned", ty.get("adts", [])))
        while todo:
            a = todo.pop()
            if a in seen:
                continue
            seen.add(a)
            out.extend(self._drop_impls.get(a, []))
            adt = self.prog.adts.get(a)
            if adt:
                for v in adt["variants"]:
                    for f in v["fields"]:
                        if f["ty"].get("needs_drop", True):
                            todo.extend(f["ty"].get("owned", f["ty"].get("adts", [])))
        return out

    def _narrow_enum(self, body, bb, t):
        """Drop of a bare local of a local enum type that is dominated by a discriminant test:
        only the variants that can reach the drop contribute glue."""
        ty = t["ty"]
        pl = t["place"]
        if pl["p"] or ty.get("k") != "adt":
            return ty
        adt = self.prog.adts.get(ty.get("head", ""))
        if not adt or adt.get("kind") != "Enum":
            return ty
        aliases = {pl["l"]}
        for blk in body.blocks:
            for s in blk.stmts:
                if s["k"] == "assign" and s["rv"]["k"] == "use" and not s["place"]["p"] and s["place"]["l"] in aliases:
                    l2 = op_local(s["rv"]["op"])
                    if l2 is not None:
                        aliases.add(l2)
        allowed = None
        for g in switch_guards(body, bb, unwind=False):
            gp = guard_src_place(g["src"])
            if g["src"].get("kind") == "discr" and gp and not gp["p"] and gp["l"] in aliases:
                vals = set()
                n = len(adt["variants"])
                for a in g["allowed"]:
                    if a == "otherwise":
                        vals |= set(range(n)) - set(g["listed"])
                    else:
                        vals.add(a)
                allowed = vals if allowed is None else (allowed & vals)
        if allowed is None:
            return ty
        owned = []
        needs = False
        for i in sorted(allowed):
            if i < len(adt["variants"]):
                for f in adt["variants"][i]["fields"]:
                    if f["ty"].get("needs_drop", True):
                        needs = True
                        owned.extend(f["ty"].get("owned", f["ty"].get("adts", [])))
        # keep Drop impl of the enum itself, if any
        return {"owned": owned + ([ty["head"]] if self._drop_impls.get(ty["head"]) else []), "needs_drop": needs, "s": ty["s"]}

    def _is_benign_site(self, body, what):
        for k, w in self.benign_sites:
            if (body.key == k or body.key == self.prog.folded.get(k)) and what.startswith(w):
                return True
            if "::{closure" in k and what.startswith(w):
                root = k.split("::{closure")[0]
                tgt = self.prog.folded.get(root)
                if tgt and body.key.startswith(tgt + "::{closure"):
                    return True   # the helper (and its closure) was inlined into its only caller
        return False

    # -- direct classification of one terminator (ignoring callee summaries)
    def direct(self, body, bb):
        blk = body.blocks[bb]
        if blk.cleanup:
            return None
        t = blk.term
        k = t["k"]
        if k == "drop":
            ty = t["ty"]
            if ty.get("k") == "param" and ty["s"] in benign_params(body):
                return None
            if ty.get("needs_drop") and ty_mentions_user(ty):
                if self._is_benign_site(body, "drop " + ("*" if "*" in t["place"]["p"] else "") + ty["s"]):
                    return None
                kind = "U2-waker-drop" if ty_is_waker(ty) and not (ty.get("oparam") or ty.get("odyn")) else "U2-drop"
                return (kind, ty["s"])
            return None
        if k not in ("call", "tailcall"):
            return None
        c = t["callee"]
        if c.get("rkind") == "indirect":
            if self.benign_fnptr_fields and c.get("op"):
                _r, fs = op_access_path(body, c["op"])
                if fs and any(fs[-1].endswith(x) for x in self.benign_fnptr_fields):
                    return None
            return ("U4-fnptr", "indirect call through fn pointer")
        keys = callee_paths(c)
        if keys & self.benign:
            return None
        if keys & self.extra:
            return ("U5-table", c["path"])
        if keys & WAKER_FNS:
            return ("U3-waker", c["path"])
        st = c.get("self_ty") or {}
        if c.get("trait") and c["trait"].endswith("clone::Clone") and st.get("k") == "adt" and st.get("head", "").endswith("Waker"):
            return ("U3-waker-clone", c["full"])
        if keys & DROP_FNS:
            for ta in c.get("targs", []):
                if ty_mentions_user(ta) and ta.get("needs_drop", True):
                    # `drop(x)` written out is the same event as x's scope-end drop: the same site exemption applies
                    if self._is_benign_site(body, "drop " + ta["s"]):
                        continue
                    return ("U2-dropfn", c["full"])
            return None
        if c.get("trait") in self.user_traits and any(ta.get("param") or ta.get("dyn") for ta in c.get("targs", [])):
            # e.g. `<Family<T> as Into<T>>::into` resolves to std's blanket impl, which calls the user's `From`
            return ("U1-generic", c["full"])
        if c.get("trait") and (c.get("rkind") in ("unresolved", "virtual") or c.get("rtrait_default")):
            tr = c["trait"]
            if tr in self.benign_traits:
                return None
            if st.get("k") == "param" and any(tr.endswith(n) for n in FN_TRAIT_NAMES):
                return ("P", st["s"])
            if st.get("param") or st.get("dyn") or st.get("alias") or c.get("rkind") == "virtual":
                return ("U1-dyn" if c.get("rkind") == "virtual" else "U1-generic", c["full"])
        return None

    def linked_closures(self, body, t):
        """Local closure/fn bodies that appear in the call's generic arguments."""
        c = t["callee"]
        out = []
        for ta in c.get("targs", []):
            for cl in ta.get("closures", []):
                b = self.prog.by_key.get(strip_generics(cl))
                if b:
                    out.append(b[0])
            for fd in ta.get("fndefs", []):
                b = self.prog.by_key.get(strip_generics(fd))
                if b:
                    out.append(b[0])
        return out

    def fn_param_actuals(self, body, t):
        """Fn-bounded params of `body` passed as generic args of the call."""
        fb = fn_bound_params(body)
        out = set()
        if not fb:
            return out
        for ta in t["callee"].get("targs", []):
            if ta["k"] == "param" and ta["s"] in fb:
                out.add(ta["s"])
            elif ta.get("param"):
                for n in fb:
                    if re.search(r"\b%s\b" % re.escape(n), ta["s"]):
                        out.add(n)
        return out

    def callees(self, body, bb):
        """(local body, how) pairs possibly run by the terminator at bb."""
        blk = body.blocks[bb]
        t = blk.term
        out = []
        if t["k"] == "drop":
            if t["ty"].get("needs_drop"):
                what = "drop " + ("*" if "*" in t["place"]["p"] else "") + t["ty"]["s"]
                if self._is_benign_site(body, what):
                    return out
                out.extend((g, "glue") for g in self.glue_bodies(self._narrow_enum(body, bb, t)))
            return out
        if t["k"] not in ("call", "tailcall"):
            return out
        c = t["callee"]
        if c.get("rkind") == "indirect":
            return out
        keys = callee_paths(c)
        if keys & DROP_FNS:
            for ta in c.get("targs", []):
                if self._is_benign_site(body, "drop " + ta["s"]):
                    continue
                out.extend((g, "glue") for g in self.glue_bodies(ta))
            return out
        b = self.prog.body_for_callee(c)
        if b is not None:
            out.append((b, "call"))
            # closures passed along may be invoked by the callee: only if the callee invokes params
        else:
            out.extend((cb, "linked") for cb in self.linked_closures(body, t))
        st = c.get("self_ty")
        if st and st.get("k") == "closure":
            bs = self.prog.by_key.get(strip_generics(st["head"]))
            if bs:
                out.append((bs[0], "call"))
        return out

    def is_catch_unwind(self, t):
        return t["k"] == "call" and bool(callee_paths(t["callee"]) & CATCH_UNWIND)

    def _eval(self, body, bb):
        """Returns (user_reason or None, contained: bool, params: set) for terminator bb using current summaries."""
        d = self.direct(body, bb)
        t = body.blocks[bb].term
        where = body.loc(t["span"])
        if d:
            if d[0] == "P":
                return None, False, {d[1]}
            return f"{d[0]} {d[1]} at {where}", False, set()
        if body.blocks[bb].cleanup:
            return None, False, set()
        if t["k"] not in ("call", "tailcall", "drop"):
            return None, False, set()
        contained = self.is_catch_unwind(t)
        reason = None
        unc = False
        params = set()
        for cb, how in self.callees(body, bb):
            if cb.key in self.summary:
                reason = reason or f"calls {cb.key} at {where}"
                if not contained and cb.key in self.unc_summary:
                    unc = True
            inv = self.pinv.get(cb.key)
            if inv:
                if how == "linked" or cb.is_closure and cb.root == body.root:
                    # closure shares the generics of its parent: names carry over
                    params |= inv
                else:
                    act = self.fn_param_actuals(body, t)
                    params |= act
                    for c2 in self.linked_closures(body, t):
                        if c2.key in self.summary:
                            reason = reason or f"calls {cb.key} with closure {c2.key} at {where}"
                            if not contained and c2.key in self.unc_summary:
                                unc = True
                        params |= self.pinv.get(c2.key, set())
        # a non-local combinator receiving the body's own Fn-bounded parameter
        if t["k"] in ("call", "tailcall") and not self.prog.body_for_callee(t["callee"]) and \
                not (callee_paths(t["callee"]) & self.benign):
            c = t["callee"]
            if not c.get("local") and not c.get("rlocal"):
                fb = fn_bound_params(body)
                for ta in c.get("targs", []):
                    if ta["k"] == "param" and ta["s"] in fb:
                        params.add(ta["s"])
        return reason, (reason is not None and not unc), params

    def _compute(self):
        prog = self.prog
        changed = True
        rounds = 0
        while changed and rounds < 50:
            changed = False
            rounds += 1
            for b in prog.bodies:
                for blk in b.blocks:
                    if blk.cleanup:
                        continue
                    reason, contained, params = self._eval(b, blk.idx)
                    if reason and b.key not in self.summary:
                        self.summary[b.key] = reason
                        changed = True
                    if reason and not contained and b.key not in self.unc_summary:
                        self.unc_summary[b.key] = reason
                        changed = True
                    if params - self.pinv[b.key]:
                        self.pinv[b.key] |= params
                        changed = True

    def site(self, body, bb):
        """None or dict(kind, what, contained, chain) if the terminator at bb may run user code
        (from the point of view of `body`: invoking its own Fn-bounded parameter counts)."""
        key = (body.key, bb)
        if key in self._site_cache:
            return self._site_cache[key]
        res = None
        if not body.blocks[bb].cleanup:
            d = self.direct(body, bb)
            t = body.blocks[bb].term
            if d and d[0] == "P":
                res = {"kind": "U1-closure-param", "what": f"call of parameter {d[1]}", "contained": False, "chain": ""}
            elif d:
                res = {"kind": d[0], "what": d[1], "contained": False, "chain": ""}
            else:
                reason, contained, params = self._eval(body, bb)
                if reason:
                    m = re.match(r"calls (\S+)", reason)
                    tgt = m.group(1) if m else reason
                    res = {"kind": "U5-summary", "what": tgt, "contained": contained, "chain": self.explain(tgt)}
                elif params & fn_bound_params(body) or (params and body.is_closure):
                    res = {"kind": "U1-closure-param", "what": f"passes parameter {sorted(params)} to code that calls it",
                           "contained": self.is_catch_unwind(t), "chain": ""}
        self._site_cache[key] = res
        return res

    def explain(self, key, depth=6):
        out = []
        seen = set()
        while key in self.summary and depth and key not in seen:
            seen.add(key)
            r = self.summary[key]
            out.append(f"{key}: {r}")
            m = re.match(r"calls (\S+)(?: with closure (\S+))? at", r)
            if not m:
                break
            key = m.group(2) or m.group(1)
            depth -= 1
        return " <- ".join(out)


# ------------------------------------------------------------------ guard liveness
GUARD_ADTS = ("std::sync::MutexGuard", "std::sync::RwLockWriteGuard", "std::sync::RwLockReadGuard",
              "std::cell::RefMut", "std::cell::Ref", "std::sync::poison::mutex::MutexGuard",
              "std::sync::poison::rwlock::RwLockWriteGuard", "std::sync::poison::rwlock::RwLockReadGuard",
              "std::sync::poison::MutexGuard", "std::sync::poison::RwLockWriteGuard",
              "std::sync::poison::RwLockReadGuard", "std::sync::nonpoison::mutex::MutexGuard")


def guard_kind(ty):
    """Return the guard ADT short name if the type is or wraps (by value) a lock guard."""
    if ty["k"] in ("ref", "refmut", "ptrmut", "ptrconst"):
        return None
    for a in ty.get("adts", []):
        short = a.split("::")[-1]
        if short in ("MutexGuard", "RwLockWriteGuard", "RwLockReadGuard", "RefMut", "Ref") and \
                (a.startswith("std::sync") or a.startswith("std::cell") or a.startswith("core::cell")):
            # avoid references to guards wrapped in ADTs? accept: by-value containment only at top-level kinds
            return short
    return None


def guard_target(ty_s):
    """Text of the guarded type, e.g. `MutexGuard<'_, X>` -> X."""
    m = re.search(r"(?:MutexGuard|RwLockWriteGuard|RwLockReadGuard|RefMut|Ref)<'[^,>]*, (.*)", ty_s)
    if not m:
        return ty_s
    s = m.group(1)
    depth = 0
    out = []
    for ch in s:
        if ch == "<":
            depth += 1
        elif ch == ">":
            if depth == 0:
                break
            depth -= 1
        out.append(ch)
    return "".join(out)


class GuardLiveness:
    """Forward may-analysis: which guard-typed locals are live at entry of each block and
    at each terminator. Locals only (guards stored in fields are not tracked)."""

    def __init__(self, body, filt=None):
        self.body = body
        self.filt = filt  # optional predicate on type dict
        self.guard_locals = {}
        for i, l in enumerate(body.locals):
            gk = guard_kind(l["ty"])
            if gk and (filt is None or filt(l["ty"])):
                self.guard_locals[i] = gk
        self.at_term = {}
        if self.guard_locals:
            self._run()

    def _moved_locals(self, ops):
        out = []
        for o in ops:
            if o.get("k") == "move":
                out.append(o["place"]["l"])
        return out

    def _transfer_block(self, bb, live):
        live = set(live)
        b = self.body.blocks[bb]
        G = self.guard_locals
        for s in b.stmts:
            if s["k"] == "assign":
                rv = s["rv"]
                dest = s["place"]
                ops = []
                if rv["k"] in ("use", "cast", "repeat"):
                    ops = [rv["op"]]
                elif rv["k"] == "aggr":
                    ops = rv["ops"]
                moved = [m for m in self._moved_locals(ops) if m in G]
                for m in moved:
                    live.discard(m)
                if not dest["p"] and dest["l"] in G and (moved or rv["k"] == "aggr"):
                    live.add(dest["l"])
                elif moved and dest["p"]:
                    pass  # moved into a field: lost track (treated as released to owner)
        at_term = set(live)
        t = b.term
        out_normal = set(live)
        out_unwind = set(live)
        if t["k"] == "drop":
            l = t["place"]["l"]
            if l in G:
                out_normal.discard(l)
                out_unwind.discard(l)
        elif t["k"] == "call":
            moved = [m for m in self._moved_locals(t["args"]) if m in G]
            for m in moved:
                out_normal.discard(m)
                out_unwind.discard(m)
                # the callee owns the guard during the call; it is live during the call unless the
                # callee is mem::drop (which releases it first thing) -- handled by caller via at_term
            d = t["dest"]
            if not d["p"] and d["l"] in G:
                out_normal.add(d["l"])
        return at_term, out_normal, out_unwind

    def _run(self):
        body = self.body
        n = len(body.blocks)
        inn = [set() for _ in range(n)]
        seen = [False] * n
        work = [0]
        seen[0] = True
        while work:
            bb = work.pop()
            at_term, out_n, out_u = self._transfer_block(bb, inn[bb])
            self.at_term[bb] = at_term
            t = body.blocks[bb].term
            for o in body.term_succ(bb, True):
                is_unw = isinstance(t.get("unwind"), int) and o == t["unwind"] and o != t.get("target")
                src = out_u if is_unw else out_n
                if not seen[o] or not src <= inn[o]:
                    inn[o] |= src
                    seen[o] = True
                    work.append(o)

    def live_at_term(self, bb):
        """Guard locals live while the terminator of bb executes. A guard moved into the call
        itself (e.g. mem::drop(guard)) counts as NOT live for that call."""
        live = set(self.at_term.get(bb, ()))
        t = self.body.blocks[bb].term
        if t["k"] == "call":
            for m in self._moved_locals(t["args"]):
                live.discard(m)
        if t["k"] == "drop":
            live.discard(t["place"]["l"])
        return live


# ------------------------------------------------------------------ atomics
ATOMIC_OPS = {"load", "store", "swap", "compare_exchange", "compare_exchange_weak", "fetch_add", "fetch_sub",
              "fetch_or", "fetch_and", "fetch_xor", "fetch_update", "fetch_max", "fetch_min", "fetch_nand",
              "get_mut", "into_inner"}
ORD_RANK = {"Relaxed": 0, "Release": 1, "Acquire": 1, "AcqRel": 2, "SeqCst": 3}


def is_atomic_call(c):
    p = c.get("path", "")
    return ("sync::atomic::Atomic" in p) and c.get("method") in ATOMIC_OPS


def is_fence_call(c):
    p = strip_generics(c.get("path", ""))
    return p.endswith("sync::atomic::fence") or p.endswith("sync::atomic::compiler_fence")


def acquireish(o):
    return o in ("Acquire", "AcqRel", "SeqCst")


def releaseish(o):
    return o in ("Release", "AcqRel", "SeqCst")


def atomic_events(body):
    """List of dicts: bb, op, field (last field name of the receiver path or None), fields (full),
    consts (list of resolved constant values for value args), orderings (list of names), dest local."""
    out = []
    for bb, t in body.calls():
        c = t["callee"]
        if is_fence_call(c):
            o = resolve_const(body, t["args"][0]) if t["args"] else None
            out.append({"bb": bb, "op": "fence", "field": None, "fields": [], "vals": [],
                        "ords": [o.get("variant") if o else None], "dest": None, "term": t})
            continue
        if not is_atomic_call(c):
            continue
        args = t["args"]
        root, fields = op_access_path(body, args[0]) if args else (None, [])
        vals = []
        ords = []
        for a in args[1:]:
            rc = resolve_const(body, a)
            if rc is not None and rc.get("adt", "").endswith("atomic::Ordering"):
                ords.append(rc.get("variant"))
            elif rc is not None and rc.get("ty", "").endswith("atomic::Ordering"):
                ords.append(rc.get("variant"))
            else:
                vals.append(rc.get("val") if rc is not None else None)
        dest = t["dest"]["l"] if not t["dest"]["p"] else None
        out.append({"bb": bb, "op": c["method"], "field": fields[-1] if fields else None, "fields": fields,
                    "root": root, "vals": vals, "ords": ords, "dest": dest, "term": t})
    return out


# ------------------------------------------------------------------ value guards
def switch_facts(body):
    """For each switch terminator: (bb, discr_local_or_None, [(value, target)], otherwise)."""
    out = []
    for b in body.blocks:
        t = b.term
        if t["k"] == "switch":
            out.append((b.idx, op_local(t["discr"]), [(a[0], a[1]) for a in t["arms"]], t["otherwise"]))
    return out


def discr_source(body, local, depth=6):
    """Describe what a switch discriminant local holds: follows copies/casts/`discriminant(x)`/
    comparisons with constants. Returns a dict:
      {"kind":"local","local":l} | {"kind":"discr","place":..} |
      {"kind":"cmp","op":Eq|Ne|..,"lhs":src,"const":v} | {"kind":"call","term":t}"""
    if depth == 0 or local is None:
        return {"kind": "unknown"}
    d = body.unique_def(local)
    if not d or 1 <= local <= body.arg_count:
        return {"kind": "local", "local": local}
    _bb, _i, kind, payload = d
    if kind == "call":
        return {"kind": "call", "term": payload, "local": local, "bb": _bb}
    rv = payload["rv"]
    if rv["k"] in ("use", "cast"):
        l2 = op_local(rv["op"])
        if l2 is not None:
            return discr_source(body, l2, depth - 1)
        pl = op_place(rv["op"])
        if pl is not None:
            return {"kind": "place", "place": pl, "local": local}
        return {"kind": "const", "const": rv["op"]}
    if rv["k"] == "discr":
        return {"kind": "discr", "place": rv["place"], "local": local}
    if rv["k"] == "binop":
        a, b = rv["a"], rv["b"]
        ca, cb = resolve_const(body, a), resolve_const(body, b)
        if cb is not None and "val" in cb:
            la = op_local(a)
            return {"kind": "cmp", "op": rv["op"], "lhs": discr_source(body, la, depth - 1) if la is not None else
                    {"kind": "place", "place": op_place(a)}, "const": cb["val"], "lhs_local": la}
        if ca is not None and "val" in ca:
            lb = op_local(b)
            return {"kind": "cmp", "op": rv["op"], "lhs": discr_source(body, lb, depth - 1) if lb is not None else
                    {"kind": "place", "place": op_place(b)}, "const": ca["val"], "lhs_local": lb, "swapped": True}
        return {"kind": "binop", "op": rv["op"], "local": local}
    if rv["k"] == "unop":
        la = op_local(rv["a"])
        return {"kind": "unop", "op": rv["op"], "inner": discr_source(body, la, depth - 1)}
    return {"kind": "unknown"}


def edge_dominates(body, edge, target_bb, unwind=True):
    """True iff every path from entry to target_bb uses CFG edge (from,to)."""
    if target_bb not in body.reachable([0], unwind):
        return False
    r = body.reachable([0], unwind, avoid_edges=[edge])
    return target_bb not in r


# ------------------------------------------------------------------ backward slice
class Slice:
    """Backward data slice of an operand inside one body (flow-insensitive over defs):
    follows every definition of every local involved, through uses, casts, refs, field
    projections, aggregates, binary ops and (optionally) all arguments of calls.
    Collects: args (parameter locals), consts, calls (callee key, bb), upvar fields (for closures)."""

    def __init__(self, body, through_calls=True, stop_calls=()):
        self.body = body
        self.through_calls = through_calls
        self.stop_calls = set(stop_calls)
        self._alldefs = None

    def alldefs(self):
        if self._alldefs is None:
            d = defaultdict(list)
            for b in self.body.blocks:
                for i, s in enumerate(b.stmts):
                    if s["k"] == "assign":
                        d[s["place"]["l"]].append(("assign", b.idx, s, tuple(place_fields(s["place"]))))
                t = b.term
                if t["k"] == "call":
                    d[t["dest"]["l"]].append(("call", b.idx, t, tuple(place_fields(t["dest"]))))
            self._alldefs = d
        return self._alldefs

    def run(self, op, max_nodes=4000):
        """Field-sensitive on the first level: a read of `x.f` only follows definitions of
        `x` as a whole or of places overlapping `x.f`."""
        body = self.body
        res = {"args": set(), "consts": [], "calls": [], "upvars": set(), "locals": set(), "fields": set(),
               "statics": set(), "binops": []}
        todo = []

        def push_op(o):
            if o is None:
                return
            if o.get("k") == "const":
                res["consts"].append(o)
                return
            pl = op_place(o)
            if pl is not None:
                push_place(pl)

        def push_place(pl):
            fs = tuple(place_fields(pl))
            for f in fs:
                res["fields"].add(f)
            todo.append((pl["l"], fs))
            # closure upvar: _1.<i> in a closure body
            if pl["l"] == 1 and body.is_closure and pl["p"]:
                for e in pl["p"]:
                    if isinstance(e, dict) and "f" in e:
                        res["upvars"].add(e["i"])
                        break
            for e in pl["p"]:
                if isinstance(e, dict) and "idx" in e:
                    todo.append((e["idx"], ()))

        def overlap(a, b):
            n = min(len(a), len(b))
            return a[:n] == b[:n]

        push_op(op)
        defs = self.alldefs()
        seen = set()
        seen_calls = set()
        while todo and len(seen) < max_nodes:
            l, fs = todo.pop()
            if (l, fs) in seen:
                continue
            seen.add((l, fs))
            res["locals"].add(l)
            if 1 <= l <= body.arg_count:
                res["args"].add(l)
            for kind, bb, payload, dfs in defs.get(l, []):
                if not overlap(dfs, fs):
                    continue
                if kind == "assign":
                    rv = payload["rv"]
                    k = rv["k"]
                    rest = fs[len(dfs):] if len(fs) > len(dfs) else ()
                    if k in ("use", "cast") and rest and op_place(rv["op"]) is not None:
                        # `x = move y` read as `x.f`: follow `y.f`, not all of y
                        pl = op_place(rv["op"])
                        for f in place_fields(pl):
                            res["fields"].add(f)
                        todo.append((pl["l"], tuple(place_fields(pl)) + tuple(rest)))
                    elif k == "aggr" and rest and rv.get("tuple") and rest[0].startswith(".") and rest[0][1:].isdigit() \
                            and int(rest[0][1:]) < len(rv["ops"]):
                        # `x = (a, b)` read as `x.1`: follow b only
                        o = rv["ops"][int(rest[0][1:])]
                        if o.get("k") == "const":
                            res["consts"].append(o)
                        elif op_place(o) is not None:
                            pl = op_place(o)
                            for f in place_fields(pl):
                                res["fields"].add(f)
                            todo.append((pl["l"], tuple(place_fields(pl)) + tuple(rest[1:])))
                    elif k == "aggr" and rest and rv.get("adt") and isinstance(rv.get("fields"), list) and \
                            rest[0].startswith(rv["adt"] + "::") and rest[0][len(rv["adt"]) + 2:] in rv["fields"] and \
                            len(rv["fields"]) == len(rv["ops"]):
                        # `x = S { a, b }` read as `x.b`: follow b only
                        o = rv["ops"][rv["fields"].index(rest[0][len(rv["adt"]) + 2:])]
                        if o.get("k") == "const":
                            res["consts"].append(o)
                        elif op_place(o) is not None:
                            pl = op_place(o)
                            for f in place_fields(pl):
                                res["fields"].add(f)
                            todo.append((pl["l"], tuple(place_fields(pl)) + tuple(rest[1:])))
                    elif k in ("use", "cast", "repeat"):
                        push_op(rv["op"])
                    elif k in ("ref", "rawptr", "discr"):
                        push_place(rv["place"])
                    elif k == "binop":
                        res["binops"].append(rv["op"])
                        push_op(rv["a"])
                        push_op(rv["b"])
                    elif k == "unop":
                        res["binops"].append(rv["op"])
                        push_op(rv["a"])
                    elif k == "aggr":
                        for o in rv["ops"]:
                            push_op(o)
                    elif k == "tlref":
                        res["statics"].add(rv["def"])
                else:
                    c = payload["callee"]
                    key = callee_key(c)
                    if (key, bb) not in seen_calls:
                        seen_calls.add((key, bb))
                        res["calls"].append((key, bb, payload))
                    if self.through_calls and key not in self.stop_calls:
                        for a in payload["args"]:
                            push_op(a)
        return res


def closure_capture_ops(parent, closure_key):
    """Operands captured by the closure aggregate(s) for `closure_key` in `parent`:
    list of (bb, [ops])."""
    out = []
    for b in parent.blocks:
        for s in b.stmts:
            if s["k"] == "assign" and s["rv"]["k"] == "aggr" and s["rv"].get("closure") and \
                    strip_generics(s["rv"]["closure"]) == closure_key:
                out.append((b.idx, s["rv"]["ops"]))
    return out


# ------------------------------------------------------------------ dominating switch guards
def switch_guards(body, target_bb, unwind=False, dom=None, _depth=3):
    """For every SwitchInt that dominates `target_bb`: which edge labels can lead to it.
    Returns list of dicts {bb, src, allowed (set of ints and/or 'otherwise'), listed (list of ints)}.
    Boolean merge temporaries (`matches!`, `&&`, `||`: a local assigned only constants, then
    switched on) are seen through: when exactly one constant definition is compatible with the
    allowed labels, the guards of that defining block are added (flagged via=...)."""
    dom = dom or body.dominators(unwind)
    out = []
    if target_bb not in dom:
        return out
    for S in sorted(dom[target_bb]):
        t = body.blocks[S].term
        if t["k"] != "switch" or S == target_bb:
            continue
        labels = defaultdict(set)
        for v, tgt in t["arms"]:
            labels[tgt].add(v)
        labels[t["otherwise"]].add("otherwise")
        allowed = set()
        for tgt, ls in labels.items():
            r = body.reachable([tgt], unwind, avoid=[S])
            if target_bb in r:
                allowed |= ls
        l = op_local(t["discr"])
        # a named boolean (`let changed = a != b; if changed {..}`) is the same test as the inline one: look through plain copies
        hops = 0
        while l is not None and hops < 4:
            d0 = body.unique_def(l)
            if d0 and d0[2] == "assign" and d0[3]["rv"]["k"] == "use" and op_local(d0[3]["rv"]["op"]) is not None and \
                    body.unique_def(op_local(d0[3]["rv"]["op"])) is not None:
                l = op_local(d0[3]["rv"]["op"])
                hops += 1
            else:
                break
        src = discr_source(body, l) if l is not None else {"kind": "place", "place": op_place(t["discr"])}
        listed = [a[0] for a in t["arms"]]
        out.append({"bb": S, "src": src, "allowed": allowed, "listed": listed, "discr_local": l})
        # see through constant-merge temporaries
        if l is not None and _depth > 0:
            root = l
            d = body.unique_def(l)
            if d and d[2] == "assign" and d[3]["rv"]["k"] == "use" and op_local(d[3]["rv"]["op"]) is not None:
                root = op_local(d[3]["rv"]["op"])
            defs = body.defs().get(root, [])
            consts_only = len(defs) >= 2 and all(k == "assign" and p["rv"]["k"] == "use" and p["rv"]["op"].get("k") == "const"
                                                 and "val" in p["rv"]["op"] for _b, _i, k, p in defs)
            if len(defs) >= 2 and not consts_only and all(k == "assign" for _b, _i, k, _p in defs):
                # `a && b && !c` style temporaries: some arms assign a constant, one arm assigns the last operand (or its negation)
                compat = []
                for dbb, _i, _k, p in defs:
                    rv = p["rv"]
                    if rv["k"] == "use" and rv["op"].get("k") == "const" and "val" in rv["op"]:
                        v = rv["op"]["val"]
                        lab = v if v in listed else "otherwise"
                        if lab in allowed:
                            compat.append((dbb, None, None))
                    elif rv["k"] == "unop" and rv["op"] == "Not" and op_local(rv["a"]) is not None:
                        compat.append((dbb, op_local(rv["a"]), True))
                    elif rv["k"] == "use" and op_local(rv["op"]) is not None:
                        compat.append((dbb, op_local(rv["op"]), False))
                    else:
                        compat.append((dbb, None, None))
                if len(compat) == 1:
                    dbb, yl, neg = compat[0]
                    for g in switch_guards(body, dbb, unwind, dom, _depth - 1):
                        g = dict(g)
                        g["via"] = S
                        out.append(g)
                    if yl is not None:
                        truthy = 0 not in allowed
                        falsy = allowed == {0}
                        if truthy or falsy:
                            want_true = truthy != neg
                            out.append({"bb": dbb, "src": discr_source(body, yl), "allowed": ({"otherwise"} if want_true else {0}),
                                        "listed": [0], "discr_local": yl, "via": S})
            if consts_only:
                compat = []
                for dbb, _i, _k, p in defs:
                    v = p["rv"]["op"]["val"]
                    lab = v if v in listed else "otherwise"
                    if lab in allowed:
                        compat.append(dbb)
                if len(compat) == 1:
                    for g in switch_guards(body, compat[0], unwind, dom, _depth - 1):
                        g = dict(g)
                        g["via"] = S
                        out.append(g)
    # several facts about the same switch hold conjunctively: intersect their label sets
    merged = {}
    order = []
    for g in out:
        if g["bb"] in merged:
            merged[g["bb"]]["allowed"] = merged[g["bb"]]["allowed"] & g["allowed"]
            if "via" in g:
                merged[g["bb"]]["via"] = g["via"]
        else:
            merged[g["bb"]] = dict(g)
            order.append(g["bb"])
    return [merged[b] for b in order]


def place_root_slice(body, place, **kw):
    return Slice(body, **kw).run({"k": "copy", "place": place})


def guard_src_place(src):
    """The place whose discriminant / value a guard source inspects, if any."""
    if src.get("kind") in ("discr", "place"):
        return src.get("place")
    return None


# ------------------------------------------------------------------ small query helpers
def field_assigns(body, suffix):
    """[(bb, idx, stmt)] assignments whose destination's last field name ends with `suffix`."""
    out = []
    for b in body.blocks:
        for i, s in enumerate(b.stmts):
            if s["k"] == "assign":
                fs = place_fields(s["place"])
                if fs and fs[-1].endswith(suffix) and isinstance(s["place"]["p"][-1], dict) and "f" in s["place"]["p"][-1]:
                    out.append((b.idx, i, s))
    return out


def calls_where(body, pred):
    return [(bb, t) for bb, t in body.calls() if pred(callee_key(t["callee"]), t)]


def calls_to(body, *suffixes):
    """Calls whose resolved-or-written generic-free path equals or ends with `::suffix`."""
    out = []
    for bb, t in body.calls():
        ks = callee_paths(t["callee"])
        if any(k == s or k.endswith("::" + s) for k in ks for s in suffixes):
            out.append((bb, t))
    return out


def who_calls(prog, *suffixes, crate=None):
    out = []
    for b in prog.bodies:
        if crate and b.crate != crate:
            continue
        for bb, t in calls_to(b, *suffixes):
            out.append((b, bb, t))
    return out


def stmt_blocks(items):
    """Blocks of (bb, idx, stmt) items plus whether any block has more than one."""
    bbs = [bb for bb, _, _ in items]
    return sorted(set(bbs)), len(bbs) != len(set(bbs))


def normal_exits(body):
    return body.exits(("return",))


def direct_field_copy(body, op, depth=6):
    """If `op` is (through plain copies/moves of single-definition locals) a read of a field
    place, return the field list of that place; else None."""
    while depth:
        depth -= 1
        pl = op_place(op)
        if pl is None:
            return None
        fs = place_fields(pl)
        if fs:
            return fs
        d = body.unique_def(pl["l"])
        if not d or d[2] != "assign" or d[3]["rv"]["k"] != "use":
            return None
        op = d[3]["rv"]["op"]
    return None


# ------------------------------------------------------------------ loops
def loop_blocks(body, bb, unwind=False):
    """Blocks of the cycle(s) through bb (normal edges): everything reachable from bb that reaches bb."""
    fwd = body.reachable(body.term_succ(bb, unwind), unwind=unwind)
    return {x for x in fwd if bb in body.reachable(body.term_succ(x, unwind), unwind=unwind)} | {bb}


def loop_exit_edges(body, bb):
    """Normal (non-cleanup) edges leaving the loop that contains bb."""
    lp = loop_blocks(body, bb)
    out = []
    for u in sorted(lp):
        if body.blocks[u].cleanup:
            continue
        for v in body.term_succ(u, False):
            if v not in lp and not body.blocks[v].cleanup and body.blocks[v].term["k"] != "unreachable":
                out.append((u, v))
    return out


ITER_SOURCE_OK = {"iter", "iter_mut", "into_iter", "next", "deref", "deref_mut", "values", "values_mut", "keys", "as_slice",
                  "as_mut_slice", "as_ref", "as_mut", "borrow", "enumerate", "zip", "copied", "cloned", "by_ref", "into_vec"}
ITER_TRUNCATING = {"map_while", "take_while", "take", "skip", "skip_while", "step_by", "find", "find_map", "position", "any", "all",
                   "filter", "filter_map", "nth", "last", "peekable", "fuse", "scan", "rev", "chain", "flat_map", "flatten"}


def iter_chain(body, op, depth=12):
    """Method names of the iterator-adaptor chain that produced the iterator operand `op` (innermost last): walks from
    the operand through single-definition temporaries; continues through a call only while the callee is an iterator
    adaptor/source taking the previous stage as its first argument."""
    out = []
    while depth:
        depth -= 1
        pl = op_place(op)
        if pl is None:
            break
        d = body.unique_def(pl["l"])
        if not d:
            break
        _bb, _i, kind, payload = d
        if kind == "assign":
            rv = payload["rv"]
            if rv["k"] in ("ref", "rawptr"):
                if rv["place"]["l"] == pl["l"]:
                    break
                op = {"k": "copy", "place": {"l": rv["place"]["l"], "p": []}}
                continue
            if rv["k"] in ("use", "cast"):
                op = rv["op"]
                continue
            break
        m = payload["callee"].get("method")
        k = callee_key(payload["callee"])
        if not payload["args"]:
            break
        if m in ITER_SOURCE_OK or m in ITER_TRUNCATING or "iter::" in k or "Iterator" in k or m in ("drain", "map", "inspect"):
            out.append(m)
            if m in ("iter", "iter_mut", "drain", "values", "values_mut", "keys"):
                break   # reached the collection
            op = payload["args"][0]
            continue
        break
    return out


def loop_visits_all(body, bb, cutters=None):
    """Does the loop containing the call at `bb` visit every element of its source? Conditions: every exit edge of the loop
    is the None arm of a switch on the discriminant of an `Iterator::next()` result of that loop, and the iterator's source
    chain contains no truncating/selecting adaptor. Returns (ok, detail)."""
    lp = loop_blocks(body, bb)
    nexts = [(b, t) for b, t in body.calls() if b in lp and t["callee"].get("method") == "next"]
    if not nexts:
        return False, "no Iterator::next in the loop"
    dests = {t["dest"]["l"] for _b, t in nexts}
    bad = []
    for u, v in loop_exit_edges(body, bb):
        t = body.blocks[u].term
        ok = False
        if t["k"] == "switch":
            src = discr_source(body, op_local(t["discr"]))
            pl = guard_src_place(src)
            labels = [lab for lab, tgt in t["arms"] if tgt == v] + (["otherwise"] if t["otherwise"] == v else [])
            ok = src.get("kind") == "discr" and pl is not None and pl["l"] in dests and 1 not in labels
        if not ok:
            bad.append(f"exit bb{u}->bb{v} is not the exhaustion of the iterator")
    adaptors = set()
    for _b, t in nexts:
        for m in iter_chain(body, t["args"][0]):
            if m in (ITER_TRUNCATING if cutters is None else cutters):
                adaptors.add(m)
    if adaptors:
        bad.append(f"source chain uses selecting/truncating adaptors {sorted(adaptors)}")
    return not bad, "; ".join(bad) or "loop runs to exhaustion of an untruncated iterator"


# ------------------------------------------------------------------ error discipline
def err_outcomes_diverge(body, call_bb):
    """For a call returning Result<_, E> at `call_bb`: does every Err outcome diverge (panic) or propagate as an Err
    return, i.e. is there NO normal path on which an Err value is dropped and the function carries on?
    Accepted consumers: expect / unwrap / expect_err-free unwrap_or_else(panic) on the moved result; `?` (a switch whose
    Err arm returns after constructing the return value from the error); a match whose Err arms all diverge.
    Returns (ok, detail)."""
    t = body.blocks[call_bb].term
    dest = t["dest"]["l"]
    # follow plain moves of the result
    cur = {dest}
    changed = True
    while changed:
        changed = False
        for blk in body.blocks:
            for st in blk.stmts:
                if st["k"] == "assign" and st["rv"]["k"] == "use" and op_local(st["rv"]["op"]) in cur and not st["place"]["p"] \
                        and st["place"]["l"] not in cur:
                    cur.add(st["place"]["l"])
                    changed = True
    consumers = []
    for bb, ct in body.calls():
        if ct["args"] and op_local(ct["args"][0]) in cur:
            consumers.append((bb, ct["callee"].get("method")))
    if consumers and all(m in ("expect", "unwrap") for _bb, m in consumers):
        return True, f"result consumed by {sorted({m for _bb, m in consumers})}"
    if consumers and any(m == "branch" for _bb, m in consumers):
        return True, "result propagated with `?`"
    # explicit match: every Err arm must not reach a normal return
    sw = []
    for blk in body.blocks:
        tt = blk.term
        if tt["k"] == "switch":
            src = discr_source(body, op_local(tt["discr"]))
            pl = guard_src_place(src)
            if src.get("kind") == "discr" and pl is not None and pl["l"] in cur:
                sw.append(blk.idx)
    if not sw:
        return False, f"result neither unwrapped, propagated nor matched (consumers: {consumers})"
    rets = set(body.exits(("return",)))
    for s in sw:
        tt = body.blocks[s].term
        err_targets = [tg for lab, tg in tt["arms"] if lab == 1]
        if tt["otherwise"] not in [tg for lab, tg in tt["arms"]] and not any(lab == 1 for lab, _ in tt["arms"]):
            err_targets.append(tt["otherwise"])
        r = body.reachable(err_targets, unwind=False)
        if r & rets:
            return False, "an Err arm of the match reaches a normal return (the error is tolerated)"
    return True, "every Err arm of the match diverges"


def skips_only_via(body, effect_bbs, edge_pred, start=0):
    """Every normal path from `start` to a return passes one of `effect_bbs`, except paths that take an edge (u, v, switch_src,
    label) accepted by `edge_pred`. Returns (ok, sanctioned_edges)."""
    edges = []
    for blk in body.blocks:
        t = blk.term
        if t["k"] != "switch" or blk.cleanup:
            continue
        src = discr_source(body, op_local(t["discr"]))
        for lab, tgt in t["arms"]:
            if edge_pred(blk.idx, tgt, src, lab):
                edges.append((blk.idx, tgt))
        if edge_pred(blk.idx, t["otherwise"], src, "otherwise"):
            edges.append((blk.idx, t["otherwise"]))
    rets = body.exits(("return",))
    r = body.reachable([start], unwind=False, avoid=list(effect_bbs), avoid_edges=edges)
    return not [x for x in rets if x in r], edges


# ------------------------------------------------------------------ check-then-act across two critical sections
class LockSections:
    """Interprocedural summary "this call enters (and leaves) a critical section of lock family L":
    a direct `is_lock(t)` call, or a call of a local function / closure argument whose body contains such a call.
    `check_then_act(body)` lists pairs (s1, s2) of section sites in one body where s2 is reachable from s1 and
    s2's execution is decided by a branch whose condition derives from s1's result - a decision taken in one
    critical section acted on in another (the state may change in between)."""

    def __init__(self, prog, is_lock):
        self.prog = prog
        self.is_lock = is_lock
        self._sum = {}

    def locks(self, body, stack=()):
        """True iff executing `body` may acquire the lock."""
        if body.key in self._sum:
            return self._sum[body.key]
        if body.key in stack:
            return False
        r = False
        for bb, t in body.calls():
            if self.site(body, t, stack + (body.key,)):
                r = True
                break
        self._sum[body.key] = r
        return r

    def site(self, body, t, stack=()):
        if self.is_lock(t):
            return True
        cb = self.prog.body_for_callee(t["callee"])
        if cb is not None and self.locks(cb, stack):
            return True
        for a in t["args"]:
            l = op_local(a)
            if l is None:
                continue
            for ck in body.local_ty(l).get("closures", []):
                cbs = self.prog.by_key.get(strip_generics(ck))
                if cbs and self.locks(cbs[0], stack):
                    return True
        return False

    def sites(self, body):
        return [(bb, t) for bb, t in body.calls() if not body.blocks[bb].cleanup and self.site(body, t, (body.key,))]

    def check_then_act(self, body):
        out = []
        ss = self.sites(body)
        if len(ss) < 2:
            return out, ss
        for bb1, t1 in ss:
            after = body.successors_reach(bb1, unwind=False)
            for bb2, t2 in ss:
                if bb2 == bb1 or bb2 not in after:
                    continue
                found = False
                for g in switch_guards(body, bb2):
                    if g["bb"] not in after and g["bb"] != bb1:
                        continue
                    t = body.blocks[g["bb"]].term
                    sl = Slice(body).run(t["discr"])
                    if any(ct is t1 for _k, _b, ct in sl["calls"]):
                        # both arms reach s2 -> not a decision
                        all_labels = set(g["listed"]) | {"otherwise"}
                        if set(g["allowed"]) >= all_labels:
                            continue
                        out.append((bb1, t1, bb2, t2, g["bb"]))
                        found = True
                        break
                if not found and not self.is_lock(t2) and self.prog.body_for_callee(t2["callee"]) is None and \
                        t2["callee"].get("method") in CONDITIONAL_ADAPTORS and t2["args"]:
                    # `looked_up.unwrap_or_else(|| { lock again; act })`: the library decides from s1's result whether the
                    # closure (the second critical section) runs
                    sl = Slice(body).run(t2["args"][0])
                    if any(ct is t1 for _k, _b, ct in sl["calls"]):
                        out.append((bb1, t1, bb2, t2, bb2))
        return out, ss


CONDITIONAL_ADAPTORS = {"unwrap_or_else", "or_else", "map_or_else", "ok_or_else", "and_then", "map", "map_or", "then", "get_or_insert_with",
                        "or_insert_with", "is_some_and", "is_none_or", "filter", "inspect", "map_err", "unwrap_or_default"}


# ------------------------------------------------------------------ "applied to every element" in loop or adaptor form
POSITIONAL_CUT = {"map_while", "take_while", "take", "skip", "skip_while", "step_by", "nth", "nth_back", "find", "find_map", "position",
                  "rposition", "any", "all", "last", "next_back", "scan", "try_for_each", "try_fold"}
TOTAL_CONSUMERS = {"for_each", "fold", "collect", "sum", "product", "count", "extend", "max", "min", "max_by_key", "min_by_key",
                   "collect_vec", "unzip", "for_each_concurrent", "rev"}
LAZY_ADAPTORS = {"map", "inspect", "filter_map", "filter", "flat_map", "enumerate", "zip", "cloned", "copied", "chain", "flatten", "rev",
                 "sorted", "sorted_unstable", "sorted_by_key", "unique", "dedup", "peekable", "by_ref", "into_iter", "iter", "iter_mut"}


def _closure_receiver_call(prog, parent, closure_body):
    """(bb, term) of the call in `parent` that receives `closure_body` as an argument, or None."""
    for bb, t in parent.calls():
        for a in t["args"]:
            l = op_local(a)
            if l is None:
                continue
            for ck in parent.local_ty(l).get("closures", []):
                if strip_generics(ck) == closure_body.key:
                    return bb, t
        for ta in t["callee"].get("targs", []):
            for ck in ta.get("closures", []) if isinstance(ta, dict) else []:
                if strip_generics(ck) == closure_body.key:
                    return bb, t
    return None


def _consumed_totally(parent, t, depth=6):
    """Does the iterator produced by adaptor call `t` end in a total consumer (possibly through more lazy adaptors) or a
    `for` loop that runs to exhaustion?"""
    cur = t
    while depth:
        depth -= 1
        m = cur["callee"].get("method")
        if m in TOTAL_CONSUMERS and m != "rev":
            return True, m
        if m in POSITIONAL_CUT:
            return False, m
        dl = cur["dest"]["l"]
        nxt = None
        for bb2, t2 in parent.calls():
            if t2 is cur or not t2["args"]:
                continue
            r = Slice(parent, through_calls=False).run(t2["args"][0])
            if dl in r["locals"] and t2["callee"].get("method") not in ("drop",):
                if t2["callee"].get("method") == "next":
                    ok, det = loop_visits_all(parent, bb2, cutters=POSITIONAL_CUT)
                    return ok, "for-loop: " + det
                nxt = t2
                break
        if nxt is None:
            return False, f"{m} result not consumed"
        cur = nxt
    return False, "chain too long"


def element_ops(prog, body, is_op):
    """Where `is_op(term)` is applied inside `body` (its loops, or closures handed to iterator adaptors) and whether that
    application reaches EVERY element of the iterated collection. Returns a list of dicts
    {form, ok, detail, where (body, bb), src (operand of the iterator source in the enclosing body, or None)}."""
    out = []
    for bb, t in body.calls():
        if body.blocks[bb].cleanup or not is_op(t) or not body.in_loop(bb):
            continue
        ok, det = loop_visits_all(body, bb, cutters=POSITIONAL_CUT)
        lp = loop_blocks(body, bb)
        nx = [tt for b2, tt in body.calls() if b2 in lp and tt["callee"].get("method") == "next"]
        out.append({"form": "loop", "ok": ok, "detail": det, "where": (body, bb), "src": nx[0]["args"][0] if nx else None, "in": body})
    for c in prog.closures_of(body):
        hits = [(bb, t) for bb, t in c.calls() if not c.blocks[bb].cleanup and is_op(t)]
        if not hits:
            continue
        # the closure may be nested: climb until a closure that `body` (or an intermediate closure) hands to an adaptor
        parent = None
        for cand in [body] + prog.closures_of(body):
            if cand is c:
                continue
            rc = _closure_receiver_call(prog, cand, c)
            if rc is not None:
                parent = (cand, rc)
                break
        if parent is None:
            for bb, t in hits:
                out.append({"form": "closure", "ok": False, "detail": "closure not handed to a recognised adaptor", "where": (c, bb), "src": None, "in": c})
            continue
        pb, (pbb, pt) = parent
        m = pt["callee"].get("method")
        chain = iter_chain(pb, pt["args"][0]) if pt["args"] else []
        cut = sorted(set(chain) & POSITIONAL_CUT)
        if m in LAZY_ADAPTORS or m in TOTAL_CONSUMERS:
            tot, how = _consumed_totally(pb, pt)
        else:
            tot, how = False, f"`{m}` is not an element-wise adaptor"
        ok = tot and not cut and not any(c.in_loop(bb) and False for bb, _t in hits)
        for bb, t in hits:
            out.append({"form": f"closure->{m}", "ok": ok, "detail": f"closure handed to `{m}` ({how}); source chain {chain[::-1]}; positional cuts {cut or 'none'}",
                        "where": (c, bb), "src": pt["args"][0] if pt["args"] else None, "in": pb})
    return out

"""Thorough tier = quick tier plus
 (a) a second pass of the same rules over facts generated with a release-like cfg
     (debug assertions and overflow checks off: cfg(debug_assertions) code compiled out), and
 (b) checker self-validation: every seeded change stored for this property is applied to a scratch
     worktree of /repo's current tree (outside /repo and /verif), facts are generated for it and the
     property's rules must fire on something that is not a listed known finding; every behaviour-preserving
     refactoring stored under /verif/benign for the property's crate group is applied the same way and the rules
     must stay quiet. The scratch worktree is removed immediately. Self-validation never changes the property
     verdict; it is reported in the evidence (selftest_fired/total, benign_quiet/total).
"""
import glob
import json
import os
import shutil
import subprocess

from . import facts as F
from .report import Ctx

SCRATCH_ROOT = "/tmp/folo_verif_scratch"
NODEBUG = {"C01", "C02", "C04", "C05", "C06", "C07", "C08", "C12", "C13", "C14", "C15", "C16", "C17", "C18", "C20"}


def _git(*args, cwd=None):
    return subprocess.run(["git"] + list(args), cwd=cwd, stdout=subprocess.PIPE, stderr=subprocess.STDOUT, text=True)


def run_thorough(ctx, mod):
    out = {"variants": [], "selftest_total": 0, "selftest_fired": 0, "selftest": []}
    repo = ctx.repo or F.REPO
    # ---- (a) release-like cfg pass
    if ctx.pid in NODEBUG:
        c2 = Ctx(ctx.pid, ctx.tier, ctx.seed, repo=ctx.repo, quiet=True, variant="nodebug")
        mod.run(c2)
        for rid, r in c2.rules.items():
            # floors are counted on the debug build; the release-like pass only has to keep every rule populated
            if r["n"] == 0 and ctx.rules.get(rid, {}).get("n", 0) > 0:
                c2.missing(rid, "no instance in the release-like cfg pass")
        for o in c2.obs:
            o = dict(o)
            o["where"] = (o["where"] + " [cfg: release-like]").strip()
            ctx.obs.append(o)
            if rid_ok(ctx, o):
                pass
        for v in c2.violations:
            v = dict(v)
            v["where"] = (v["where"] + " [cfg: release-like]").strip()
            ctx.violations.append(v)
        for rid, r in c2.rules.items():
            if rid in ctx.rules:
                ctx.rules[rid]["n"] += r["n"]
                ctx.rules[rid]["ok"] += r["ok"]
        out["variants"].append({"variant": "nodebug", "flags": F.VARIANTS["nodebug"].strip(), "obligations": len(c2.obs),
                                "violations": len(c2.violations)})
        ctx.log(f"release-like cfg pass: {len(c2.obs)} obligations, {len(c2.violations)} violations (incl. known)")
    # ---- (b) self-validation on seeded changes
    seeded = []
    for d in sorted(glob.glob(os.path.join(F.VERIF, "seeded", "C*_m*"))):
        try:
            meta = json.load(open(os.path.join(d, "meta.json")))
        except (OSError, ValueError):
            meta = {}
        # a change is used to self-validate every check that is expected to see it
        exp = meta["expected_checks"] if "expected_checks" in meta else [meta.get("property", os.path.basename(d)[:3])]
        if ctx.pid in exp:
            seeded.append(d)
    known, _ = ctx.known()
    # behaviour-preserving refactorings stored for this property's crate group: the rules must stay quiet on them
    BENIGN_TAGS = {"pool": ("C01", "C02", "C03", "C04"), "once": ("C05", "C06", "C07"), "events": ("C08",), "cpus": ("C09", "C10", "C11"),
                   "linked": ("C12",), "region": ("C13",), "vicinal": ("C14",), "deque": ("C15",), "nm": ("C16",), "bench": ("C17",),
                   "alloc": ("C18",), "cbh": ("C19", "C20")}
    benign = []
    for d in sorted(glob.glob(os.path.join(F.VERIF, "benign", "*", "b*"))):
        tag = os.path.basename(os.path.dirname(d)).rstrip("0123456789")
        if ctx.pid in BENIGN_TAGS.get(tag, ()) and os.path.exists(os.path.join(d, "patch.diff")):
            benign.append(d)
    out["benign_total"] = 0
    out["benign_quiet"] = 0
    out["benign"] = []
    # keep the tier bounded (each scratch evaluation regenerates the facts of the changed package): every stored seeded change,
    # then as many stored refactorings as fit into a total of 14 scratch evaluations
    benign = benign[:max(0, 14 - len(seeded))]
    for d in seeded + benign:
        is_benign = d in benign
        sid = os.path.basename(d) if not is_benign else os.path.basename(os.path.dirname(d)) + "-" + os.path.basename(d)
        patch = os.path.join(d, "patch.diff")
        # unique per property and process: thorough checks of properties that share a crate group may run in parallel
        scratch = os.path.join(SCRATCH_ROOT, f"{ctx.pid}-{os.getpid()}-{sid}")
        rec = {"id": sid, "status": "skipped", "fired": []}
        if is_benign:
            out["benign_total"] += 1
        else:
            out["selftest_total"] += 1
        try:
            os.makedirs(SCRATCH_ROOT, exist_ok=True)
            if os.path.exists(scratch):
                _git("-C", repo, "worktree", "remove", "--force", scratch)
                shutil.rmtree(scratch, ignore_errors=True)
            r = _git("-C", repo, "worktree", "add", "--detach", scratch)
            if r.returncode != 0:
                rec["status"] = "skipped: cannot create scratch worktree"
                continue
            # bring the scratch copy to /repo's CURRENT working tree (tracked changes), then add the seeded change
            diff = subprocess.run(["git", "-C", repo, "diff", "HEAD"], stdout=subprocess.PIPE, text=True).stdout
            if diff.strip():
                p = subprocess.run(["git", "-C", scratch, "apply"], input=diff, text=True, stdout=subprocess.PIPE, stderr=subprocess.STDOUT)
                if p.returncode != 0:
                    rec["status"] = "skipped: working-tree diff does not apply to scratch"
                    continue
            p = _git("-C", scratch, "apply", patch)
            if p.returncode != 0:
                rec["status"] = "skipped: seeded patch no longer applies to the current tree"
                continue
            c3 = Ctx(ctx.pid, ctx.tier, ctx.seed, repo=scratch, quiet=True)
            try:
                mod.run(c3)
                c3.check_floors()
            except SystemExit as e:
                rec["status"] = f"error: {e}"
                continue
            fired = sorted({v["key"] for v in c3.violations if v["key"] not in known})
            rec["fired"] = fired[:8]
            if is_benign:
                rec["status"] = "FALSE ALARM" if fired else "quiet"
                if not fired:
                    out["benign_quiet"] += 1
            else:
                rec["status"] = "fired" if fired else "MISSED"
                if fired:
                    out["selftest_fired"] += 1
        finally:
            _git("-C", repo, "worktree", "remove", "--force", scratch)
            shutil.rmtree(scratch, ignore_errors=True)
            _git("-C", repo, "worktree", "prune")
            (out["benign"] if is_benign else out["selftest"]).append(rec)
            ctx.log(f"self-validation {'(benign) ' if is_benign else ''}{sid}: {rec['status']} {rec['fired'][:2]}")
    return out


def rid_ok(ctx, o):
    return o["rule"] in ctx.rules

"""Vocabulary normalisation: make the rule modules insensitive to the refactorings a maintainer does all the time.

The rule modules name private functions, private fields and argument positions of the tree they were written against.
`baseline.json` (committed, regenerated with `python3 -m vf.normalize` whenever /repo's HEAD legitimately changes) records that
vocabulary: every function with its signature, every ADT with its fields. When the facts of the CURRENT tree are loaded, this
module maps them back to the baseline vocabulary where the mapping is unambiguous:

  (a) a function that vanished and a new function in the same impl/module with the same signature  -> renamed back;
  (b) a function whose parameters are a permutation of the baseline's (all parameter types distinct) -> arguments at every call
      site and the parameter locals of the body are permuted back;
  (c) an ADT whose fields have the same types in the same order under new names                      -> field names mapped back;
  (d) a NEW private function (not in the baseline, not explained by (a)) that is called from existing functions
      -> inlined into its callers (bounded depth) and dropped as a body of its own: `extract helper` leaves the callers' MIR
      as the rules knew it.

Nothing here looks at /repo's history: the analysed program is always the current tree; the baseline only says which names the
rules' tables are written in. An ambiguous case is left alone (the rule then fails closed on its anchor, as before)."""
import copy
import json
import os
import re
import sys

from .mir import strip_generics

HERE = os.path.dirname(os.path.abspath(__file__))
BASELINE = os.path.join(HERE, "baseline.json")
_cache = {}


def _load_baseline():
    if "b" not in _cache:
        try:
            with open(BASELINE) as f:
                _cache["b"] = json.load(f)
        except OSError:
            _cache["b"] = {}
    return _cache["b"]


def _sig_parts(sig):
    """`fn(A, B) -> C` -> ([A, B], C) with top-level comma splitting."""
    m = re.match(r"^(?:unsafe )?(?:extern \"[^\"]*\" )?fn\((.*)\)(?: -> (.*))?$", sig or "", re.S)
    if not m:
        return None, None
    inner, ret = m.group(1), m.group(2) or "()"
    parts, depth, cur = [], 0, ""
    for ch in inner:
        if ch in "(<[":
            depth += 1
        elif ch in ")>]":
            depth -= 1
        if ch == "," and depth == 0:
            parts.append(cur.strip())
            cur = ""
        else:
            cur += ch
    if cur.strip():
        parts.append(cur.strip())
    return parts, ret.strip()


def _fingerprint(b):
    """Shape of a body that survives renames: multiset of callee method names (last path segment) and terminator kinds."""
    calls = []
    kinds = {}
    for blk in b["blocks"]:
        t = blk["term"]
        kinds[t["k"]] = kinds.get(t["k"], 0) + 1
        if t["k"] in ("call", "tailcall"):
            c = t["callee"]
            calls.append(c.get("method") or strip_generics(c.get("path", "")).rsplit("::", 1)[-1])
    return [sorted(calls), sorted(kinds.items())]


def inventory(data):
    fns = {}
    for b in data["bodies"]:
        if b.get("def_kind") in ("Closure", "SyntheticCoroutineBody") or b.get("mir") == "promoted" and b.get("coroutine"):
            continue
        k = strip_generics(b["path"])
        if "{closure" in k:
            continue
        fns[k] = {"sig": b.get("sig", ""), "argc": b.get("arg_count", 0),
                  "argnames": [b["locals"][i].get("name") or "" for i in range(1, 1 + b.get("arg_count", 0)) if i < len(b["locals"])],
                  "callers": [], "fp": _fingerprint(b)}
    for b in data["bodies"]:
        kb = strip_generics(b["path"])
        root = kb.split("::{closure")[0]
        for blk in b["blocks"]:
            t = blk["term"]
            if t["k"] in ("call", "tailcall"):
                c = t["callee"]
                for cand in (c.get("resolved"), c.get("path")):
                    ck = strip_generics(cand) if cand else None
                    if ck in fns and ck != root and root not in fns[ck]["callers"]:
                        fns[ck]["callers"].append(root)
    keys = {strip_generics(b["path"]) for b in data["bodies"]}
    for b in data["bodies"]:
        root = strip_generics(b["path"]).split("::{closure")[0]
        if root not in fns:
            continue
        for blk in b["blocks"]:
            t = blk["term"]
            if t["k"] == "call" and t["callee"].get("method") in ("call", "call_mut", "call_once"):
                r = strip_generics(t["callee"].get("resolved") or "")
                if r in keys and "{closure" in r:
                    fns[root]["dcc"] = fns[root].get("dcc", 0) + 1
    adts = {}
    vnames = {}
    for a in data["adts"]:
        adts[a["path"]] = [[[f["name"], f["ty"]["s"]] for f in v["fields"]] for v in a.get("variants", [])]
        vnames[a["path"]] = [v.get("name") for v in a.get("variants", [])]
    return {"fns": fns, "adts": adts, "adt_variants": vnames}


# ---------------------------------------------------------------------------------------------- generic JSON walkers
def _walk_strings(x, fn):
    """Apply fn to every string value (in place)."""
    if isinstance(x, dict):
        for k, v in x.items():
            if isinstance(v, str):
                nv = fn(v)
                if nv is not v:
                    x[k] = nv
            else:
                _walk_strings(v, fn)
    elif isinstance(x, list):
        for i, v in enumerate(x):
            if isinstance(v, str):
                nv = fn(v)
                if nv is not v:
                    x[i] = nv
            else:
                _walk_strings(v, fn)


def _map_locals(x, f):
    """Apply f to every local index: places {l,p}, projection {idx}, storage statements {k: live/dead, l}."""
    if isinstance(x, dict):
        if "l" in x and ("p" in x or x.get("k") in ("live", "dead")):
            x["l"] = f(x["l"])
        if "idx" in x and isinstance(x["idx"], int):
            x["idx"] = f(x["idx"])
        for v in x.values():
            if isinstance(v, (dict, list)):
                _map_locals(v, f)
    elif isinstance(x, list):
        for v in x:
            if isinstance(v, (dict, list)):
                _map_locals(v, f)


def _map_blocks_in_term(t, f, unwind_to=None):
    k = t["k"]
    if "target" in t and isinstance(t["target"], int):
        t["target"] = f(t["target"])
    if isinstance(t.get("unwind"), int):
        t["unwind"] = f(t["unwind"])
    elif t.get("unwind") == "continue" and unwind_to is not None and k in ("call", "drop", "assert"):
        t["unwind"] = unwind_to
    if k == "switch":
        t["arms"] = [[v, f(tg)] for v, tg in t["arms"]]
        t["otherwise"] = f(t["otherwise"])
    if isinstance(t.get("drop"), int):
        t["drop"] = f(t["drop"])
    if "targets" in t:
        t["targets"] = [f(x) for x in t["targets"]]


# ---------------------------------------------------------------------------------------------- (a) renames, (b) permutations, (c) fields
def _rename_fn(data, new_key, old_key):
    new_name = new_key.rsplit("::", 1)[-1]
    old_name = old_key.rsplit("::", 1)[-1]
    pat = re.compile(r"::" + re.escape(new_name) + r"(?![A-Za-z0-9_])")

    same_prefix = new_key.rsplit("::", 1)[0] == old_key.rsplit("::", 1)[0]

    def fix(s):
        if new_name not in s:
            return s
        sg = strip_generics(s)
        if new_key in sg:
            if same_prefix:
                return pat.sub("::" + old_name, s)
            if new_key in s:
                return s.replace(new_key, old_key)   # moved: the whole path changes (only spelled without generics)
        return s

    for b in data["bodies"]:
        kb = strip_generics(b["path"])
        mine = kb == new_key or kb.startswith(new_key + "::")
        if mine and b.get("name") == new_name:
            b["name"] = old_name
        for fld in ("path", "root"):
            if isinstance(b.get(fld), str):
                b[fld] = fix(b[fld])
        _walk_strings(b["blocks"], fix)
        _walk_strings(b["locals"], fix)
        for blk in b["blocks"]:
            t = blk["term"]
            if t["k"] in ("call", "tailcall"):
                c = t["callee"]
                if c.get("method") == new_name and old_key in (strip_generics(c.get("path", "")), strip_generics(c.get("resolved") or "")):
                    c["method"] = old_name
                    if not same_prefix:
                        for fld in ("impl_self", "impl_adt", "self_ty"):
                            c.pop(fld, None)
        if mine and not same_prefix and strip_generics(b["path"]) == old_key:
            for fld in ("impl_self", "impl_adt"):
                b[fld] = None
    for f in data["fns"]:
        if strip_generics(f["path"]) == new_key:
            f["path"] = fix(f["path"])


def _permute_params(data, key, perm):
    """perm[i_new] = i_old for parameter positions (0-based). Rewrites the body's parameter locals and every call site."""
    n = len(perm)
    for b in data["bodies"]:
        kb = strip_generics(b["path"])
        if kb == key:
            # local (1 + i_new) must become local (1 + perm[i_new])
            m = {1 + i: 1 + perm[i] for i in range(n)}
            _map_locals(b["blocks"], lambda l: m.get(l, l))
            locs = b["locals"]
            newlocs = list(locs)
            for i in range(n):
                newlocs[1 + perm[i]] = locs[1 + i]
            b["locals"] = newlocs
        for blk in b["blocks"]:
            t = blk["term"]
            if t["k"] in ("call", "tailcall") and len(t.get("args", [])) == n:
                c = t["callee"]
                if key in (strip_generics(c.get("path", "")), strip_generics(c.get("resolved") or "")):
                    args = t["args"]
                    new = [None] * n
                    for i in range(n):
                        new[perm[i]] = args[i]
                    t["args"] = new


def _rename_fields(data, adt_path, mapping):
    """mapping: new field name -> old field name for ADT `adt_path` (names appear as `Adt::field` in projections)."""
    full = {f"{adt_path}::{n}": f"{adt_path}::{o}" for n, o in mapping.items()}

    def walk(x):
        if isinstance(x, dict):
            if "f" in x and isinstance(x["f"], str) and x["f"] in full:
                x["f"] = full[x["f"]]
            for v in x.values():
                if isinstance(v, (dict, list)):
                    walk(v)
        elif isinstance(x, list):
            for v in x:
                if isinstance(v, (dict, list)):
                    walk(v)

    for b in data["bodies"]:
        walk(b["blocks"])
    for a in data["adts"]:
        if a["path"] == adt_path:
            for v in a.get("variants", []):
                for f in v["fields"]:
                    if f["name"] in mapping:
                        f["name"] = mapping[f["name"]]


# ---------------------------------------------------------------------------------------------- (d) inlining of new helpers
def _inline_call(caller, bb, callee, arg_ops=None, ret_rv=None, ret_to=None):
    """Splice a copy of `callee` (body dict) in place of the call terminator at block `bb` of `caller` (body dict).
    arg_ops overrides the operands bound to the callee's parameters; ret_rv(op) builds the rvalue stored into the call's
    destination from the callee's return place (default: a plain move)."""
    blocks = caller["blocks"]
    caller.setdefault("orig_blocks", len(blocks))
    t = blocks[bb]["term"]
    loc_off = len(caller["locals"])
    blk_off = len(blocks)
    cal = copy.deepcopy(callee)
    caller["locals"].extend(cal["locals"])
    _map_locals(cal["blocks"], lambda l: l + loc_off)
    unwind_to = t["unwind"] if isinstance(t.get("unwind"), int) else None
    ret_target = ret_to if ret_to is not None else t.get("target")
    dest = t["dest"]
    span = t.get("span")
    for blk in cal["blocks"]:
        tt = blk["term"]
        _map_blocks_in_term(tt, lambda x: x + blk_off, unwind_to=unwind_to)
        if tt["k"] == "coroutine_drop":
            blk["term"] = {"k": "unreachable", "span": span, "text": "unreachable <coroutine_drop of inlined coroutine>"}
        if tt["k"] == "return":
            rop = {"k": "move", "place": {"l": loc_off, "p": []}}
            blk["stmts"].append({"k": "assign", "place": copy.deepcopy(dest),
                                 "rv": ret_rv(rop) if ret_rv else {"k": "use", "op": rop},
                                 "span": span, "text": f"<inlined return of {callee.get('name')}>"})
            if ret_target is None:
                blk["term"] = {"k": "unreachable", "span": span, "text": "unreachable"}
            else:
                blk["term"] = {"k": "goto", "target": ret_target, "span": span, "text": f"goto -> bb{ret_target}"}
        elif tt["k"] == "resume" and unwind_to is not None:
            blk["term"] = {"k": "goto", "target": unwind_to, "span": span, "text": f"goto -> bb{unwind_to}"}
    # parameters
    entry = cal["blocks"][0]
    pre = []
    for i, a in enumerate(arg_ops if arg_ops is not None else t["args"]):
        if a is None:
            continue
        pre.append({"k": "assign", "place": {"l": loc_off + 1 + i, "p": []}, "rv": {"k": "use", "op": copy.deepcopy(a)},
                    "span": span, "text": f"<inlined argument {i} of {callee.get('name')}>"})
    entry["stmts"] = pre + entry["stmts"]
    blocks.extend(cal["blocks"])
    blocks[bb]["term"] = {"k": "goto", "target": blk_off, "span": span, "text": f"goto -> bb{blk_off} <inlined {callee.get('name')}>"}
    caller.setdefault("inlined", []).append(strip_generics(callee["path"]))
    if callee.get("promoted"):
        # promoted constants are referenced by (body name, index): keep the callee's list reachable under its own name
        caller.setdefault("promoted_of", {})[strip_generics(callee["path"])] = callee["promoted"]


def _preds(blocks):
    pr = {}
    for i, blk in enumerate(blocks):
        t = blk["term"]
        tg = []
        if isinstance(t.get("target"), int):
            tg.append(t["target"])
        if t["k"] == "switch":
            tg += [x for _, x in t["arms"]] + [t["otherwise"]]
        tg += [x for x in t.get("targets", []) if isinstance(x, int)]
        for fld in ("unwind", "drop"):
            if isinstance(t.get(fld), int):
                tg.append(t[fld])
        for x in tg:
            pr.setdefault(x, set()).add(i)
    return pr


def _thread_jumps(b, first_new, bool_only=False):
    """Jump threading for values produced by an inlined helper: a helper that returned `bool` / a private enum and is matched
    on by its caller leaves, once spliced in, `x = Variant; goto join; join: switch discriminant(x)`. Every edge into such a
    join whose value is a constant assigned in the spliced code (block index >= first_new) is redirected - through clones of
    the side-effect-carrying blocks on the way - straight to the arm it takes. The caller's control flow then depends on the
    helper's own tests again, as before the helper existed. Pure CFG rewrite: no statement is added, dropped or reordered on
    any path."""
    blocks = b["blocks"]
    n_threaded = 0
    # locals that only ever hold literal booleans (the merge temporaries of `matches!`, `&&`, `||`)
    const_bools = set()
    if bool_only:
        defs_ = {}
        for blk in blocks:
            for st in blk["stmts"]:
                if st["k"] == "assign" and not st["place"]["p"]:
                    defs_.setdefault(st["place"]["l"], []).append(st["rv"])
            tt = blk["term"]
            if tt["k"] in ("call", "yield") and isinstance(tt.get("dest"), dict) and not tt["dest"]["p"]:
                defs_.setdefault(tt["dest"]["l"], []).append({"k": "call"})
        argc = b.get("arg_count", 0)
        for l, rvs in defs_.items():
            if l > argc and len(rvs) >= 2 and all(rv["k"] == "use" and rv["op"].get("k") == "const" and rv["op"].get("ty") == "bool" and "val" in rv["op"] for rv in rvs):
                const_bools.add(l)
        if not const_bools:
            return 0
    for _pass in range(6):
        preds = _preds(blocks)
        done = False
        for j, J in enumerate(blocks):
            t = J["term"]
            if t["k"] != "switch" or J.get("cleanup") or t["discr"].get("k") not in ("copy", "move") or t["discr"]["place"]["p"]:
                continue
            want0 = ("val", t["discr"]["place"]["l"])

            def scan(blk_idx, want, upto=None, is_entry=False):
                """Backward over the statements of one block. Returns ('const', v, from_new) | ('open', want) | None (unknown)."""
                blk = blocks[blk_idx]
                if is_entry:
                    tt = blk["term"]
                    if tt["k"] in ("call", "yield") and isinstance(tt.get("dest"), dict) and tt["dest"]["l"] == want[1]:
                        return None
                    if tt["k"] == "yield" and isinstance(tt.get("resume_arg"), dict) and tt["resume_arg"].get("l") == want[1]:
                        return None
                for st in reversed(blk["stmts"] if upto is None else blk["stmts"][:upto]):
                    k = st["k"]
                    if k == "setdiscr" and st.get("place", {}).get("l") == want[1]:
                        return None
                    if k == "intrinsic":
                        continue
                    if k != "assign" or st["place"]["l"] != want[1]:
                        continue
                    if st["place"]["p"]:
                        return None
                    rv = st["rv"]
                    if rv["k"] == "aggr" and "vidx" in rv and want[0] == "variant":
                        return None if bool_only else ("const", rv["vidx"], blk_idx >= first_new)
                    if rv["k"] == "use" and rv["op"].get("k") == "const" and "val" in rv["op"]:
                        if bool_only and (rv["op"].get("ty") != "bool" or st["place"]["l"] not in const_bools):
                            return None
                        v = rv["op"]["val"]
                        if len(want) > 2 and want[2]:
                            v = 0 if v else 1
                        return ("const", v, blk_idx >= first_new)
                    if rv["k"] == "unop" and rv.get("op") == "Not" and want[0] == "val" and rv["a"].get("k") in ("copy", "move") and not rv["a"]["place"]["p"] \
                            and "bool" == (b["locals"][rv["a"]["place"]["l"]].get("ty") or {}).get("s"):
                        want = ("val", rv["a"]["place"]["l"], not (len(want) > 2 and want[2]))
                        continue
                    if rv["k"] == "use" and rv["op"].get("k") in ("copy", "move") and not rv["op"]["place"]["p"]:
                        want = (want[0], rv["op"]["place"]["l"]) + tuple(want[2:])
                        continue
                    if rv["k"] == "discr" and not rv["place"]["p"] and want[0] == "val" and not (len(want) > 2 and want[2]):
                        want = ("variant", rv["place"]["l"])
                        continue
                    return None
                return ("open", want)

            r0 = scan(j, want0)
            if r0 is None or r0[0] != "open":
                continue
            # chains: (list of block indexes ending in j, want at the head's start)
            work = [([j], r0[1])]
            threads = []   # (pred, chain, value)
            while work:
                chain, want = work.pop()
                if len(chain) > 4:
                    continue
                for q in sorted(preds.get(chain[0], ())):
                    if q in chain or blocks[q].get("cleanup"):
                        continue
                    r = scan(q, want, is_entry=True)
                    if r is None:
                        continue
                    if r[0] == "const":
                        if r[2]:
                            threads.append((q, chain, r[1]))
                        continue
                    # still open at q's start: q joins the chain, if it only falls through
                    qt = blocks[q]["term"]
                    if qt["k"] == "goto" and qt["target"] == chain[0]:
                        work.append(([q] + chain, r[1]))
            for q, chain, val in threads:
                arms = dict((v, tg) for v, tg in t["arms"])
                dest = arms.get(val, t["otherwise"])
                # clone the chain, last block falls through to `dest`
                new_idx = []
                for c in chain:
                    nb = copy.deepcopy(blocks[c])
                    new_idx.append(len(blocks))
                    blocks.append(nb)
                for k2, ni in enumerate(new_idx):
                    nb = blocks[ni]
                    if k2 + 1 < len(new_idx):
                        nb["term"]["target"] = new_idx[k2 + 1]
                    else:
                        nb["term"] = {"k": "goto", "target": dest, "span": t.get("span"),
                                      "text": f"goto -> bb{dest} <threaded: switch value {val} known on this edge>"}
                head = chain[0]
                _map_blocks_in_term_edges(blocks[q]["term"], head, new_idx[0])
                n_threaded += 1
                done = True
            if done:
                break
        if not done:
            break
    if n_threaded:
        # blank what became unreachable (stale duplicates would otherwise be counted by whole-body scans)
        seen, st = {0}, [0]
        pr = None
        succ = {}
        for x, ys in _preds(blocks).items():
            for y in ys:
                succ.setdefault(y, set()).add(x)
        while st:
            x = st.pop()
            for y in succ.get(x, ()):
                if y not in seen:
                    seen.add(y)
                    st.append(y)
        for i, blk in enumerate(blocks):
            if i not in seen:
                blk["stmts"] = []
                blk["term"] = {"k": "unreachable", "span": blk["term"].get("span"), "text": "unreachable <threaded away>"}
        b["threaded"] = n_threaded
    return n_threaded


def _map_blocks_in_term_edges(t, old, new):
    """Retarget the non-unwind edges of terminator t that lead to block `old`."""
    if t.get("target") == old:
        t["target"] = new
    if t["k"] == "switch":
        t["arms"] = [[v, new if tg == old else tg] for v, tg in t["arms"]]
        if t["otherwise"] == old:
            t["otherwise"] = new
    if "targets" in t:
        t["targets"] = [new if x == old else x for x in t["targets"]]


def _future_local(b, op, depth=8):
    """The local that stores the future a `Pin<&mut F>` operand points at (through new_unchecked / &mut / reborrows)."""
    defs = {}
    for blk in b["blocks"]:
        for st in blk["stmts"]:
            if st["k"] == "assign" and not st["place"]["p"]:
                defs.setdefault(st["place"]["l"], []).append(("assign", st))
        t = blk["term"]
        if t["k"] == "call" and isinstance(t.get("dest"), dict) and not t["dest"]["p"]:
            defs.setdefault(t["dest"]["l"], []).append(("call", t))
    pl = op.get("place") if op.get("k") in ("copy", "move") else None
    l = pl["l"] if pl else None
    while l is not None and depth:
        depth -= 1
        ds = defs.get(l, [])
        if len(ds) != 1:
            return l
        kind, d = ds[0]
        if kind == "assign":
            rv = d["rv"]
            if rv["k"] in ("ref", "rawptr"):
                l = rv["place"]["l"]
            elif rv["k"] in ("use", "cast") and rv["op"].get("k") in ("copy", "move"):
                l = rv["op"]["place"]["l"]
            else:
                return l
        else:
            if d["callee"].get("method") in ("new_unchecked", "as_mut", "new", "into_future", "deref_mut") and d["args"] and d["args"][0].get("k") in ("copy", "move"):
                if d["callee"].get("method") == "into_future":
                    return l
                l = d["args"][0]["place"]["l"]
            else:
                return l
    return l


def _inline_direct_closure_calls(data, base):
    by_key = {}
    for b in data["bodies"]:
        by_key.setdefault(strip_generics(b["path"]), b)
    n = 0
    for b in data["bodies"]:
        kb = strip_generics(b["path"])
        root = kb.split("::{closure")[0]
        bf = base["fns"].get(root)
        if bf is None or bf.get("dcc", 0):
            continue
        i = 0
        while i < len(b["blocks"]) and len(b["blocks"]) < 4000:
            t = b["blocks"][i]["term"]
            if t["k"] == "call" and t["callee"].get("method") in ("call", "call_mut", "call_once") and len(t["args"]) == 2 \
                    and isinstance(t.get("dest"), dict):
                r = strip_generics(t["callee"].get("resolved") or "")
                cb = by_key.get(r)
                if cb is not None and "{closure" in r and r != kb and not cb.get("coroutine") and r.startswith(root + "::"):
                    nparams = cb.get("arg_count", 1) - 1
                    tup = t["args"][1]
                    ops = [t["args"][0]]
                    okargs = True
                    for j in range(nparams):
                        if tup.get("k") in ("copy", "move"):
                            ops.append({"k": tup["k"], "place": {"l": tup["place"]["l"], "p": list(tup["place"]["p"]) + [{"f": f".{j}", "i": j}]}})
                        else:
                            okargs = False
                    if okargs:
                        _inline_call(b, i, cb, arg_ops=ops)
                        n += 1
            i += 1
    return n


def _inline_new_helpers(data, new_keys, log=None):
    by_key = {}
    for b in data["bodies"]:
        by_key.setdefault(strip_generics(b["path"]), b)
    new_keys = {k for k in new_keys if k in by_key and "{closure" not in k}
    if not new_keys:
        return set()
    inlined_into = {k: 0 for k in new_keys}
    remaining_calls = {k: 0 for k in new_keys}
    for _round in range(3):
        progressed = False
        for b in data["bodies"]:
            kb = strip_generics(b["path"])
            i = 0
            while i < len(b["blocks"]):
                t = b["blocks"][i]["term"]
                if t["k"] == "call":
                    c = t["callee"]
                    tgt = None
                    for cand in (c.get("resolved"), c.get("path")):
                        if cand and strip_generics(cand) in new_keys:
                            tgt = strip_generics(cand)
                            break
                    if tgt is not None and tgt != kb and len(b["blocks"]) < 4000 and isinstance(t.get("dest"), dict) \
                            and len(t["args"]) == by_key[tgt].get("arg_count", -1):
                        _inline_call(b, i, by_key[tgt])
                        inlined_into[tgt] += 1
                        progressed = True
                i += 1
        if not progressed:
            break
    # `async fn` helpers: the shell (inlined above) only builds the coroutine; its code runs at the `.await`, i.e. at the
    # `Future::poll` call that resolves to the helper's coroutine body. Splice that body in at the poll.
    co_keys = {k + "::{closure#0}": k for k in new_keys if (k + "::{closure#0}") in by_key and by_key[k + "::{closure#0}"].get("coroutine")}
    co_inlined = set()
    if co_keys:
        for b in data["bodies"]:
            kb = strip_generics(b["path"])
            i = 0
            while i < len(b["blocks"]) and len(b["blocks"]) < 4000:
                t = b["blocks"][i]["term"]
                if t["k"] == "call" and t["callee"].get("method") == "poll" and len(t["args"]) == 2:
                    rk = strip_generics(t["callee"].get("resolved") or "")
                    if rk in co_keys and rk != kb and not kb.startswith(co_keys[rk] + "::"):
                        fut = _future_local(b, t["args"][0])
                        if fut is not None:
                            args = [{"k": "move", "place": {"l": fut, "p": []}},
                                    {"k": "copy", "place": {"l": 2, "p": []}} if b.get("coroutine") and b.get("arg_count") == 2 else None]
                            # the spliced body returns only when the future is Ready: continue on that arm of the caller's
                            # `match poll(..)`, not in its Pending/yield loop
                            ready_to = None
                            tgt = t.get("target")
                            if isinstance(tgt, int):
                                sw = b["blocks"][tgt]["term"]
                                if sw["k"] == "switch":
                                    for v, tg in sw["arms"]:
                                        if v == 0:
                                            ready_to = tg
                            _inline_call(b, i, by_key[rk], arg_ops=args, ret_to=ready_to,
                                         ret_rv=lambda rop: {"k": "aggr", "adt": "std::task::Poll", "variant": "Ready", "vidx": 0, "fields": ["0"], "ops": [rop]})
                            co_inlined.add(rk)
                i += 1
    for b in data["bodies"]:
        for blk in b["blocks"]:
            t = blk["term"]
            if t["k"] in ("call", "tailcall"):
                c = t["callee"]
                for cand in (c.get("resolved"), c.get("path")):
                    if cand and strip_generics(cand) in new_keys:
                        remaining_calls[strip_generics(cand)] += 1
                        break
                if t["callee"].get("method") == "poll" and strip_generics(c.get("resolved") or "") in co_keys:
                    remaining_calls[co_keys[strip_generics(c.get("resolved") or "")]] += 1
    dropped = {k for k in new_keys if inlined_into[k] > 0 and remaining_calls[k] == 0}
    # closures nested in a dropped helper that went into exactly one caller of the same impl/module: re-home them under the caller
    for k in sorted(dropped):
        callers = [b for b in data["bodies"] if k in b.get("inlined", []) and "{closure" not in strip_generics(b["path"])]
        if len(callers) != 1:
            continue
        ck = strip_generics(callers[0]["path"])
        if ck.rsplit("::", 1)[0] != k.rsplit("::", 1)[0]:
            continue
        hn, cn = k.rsplit("::", 1)[-1], ck.rsplit("::", 1)[-1]
        pat = re.compile(r"::" + re.escape(hn) + r"::\{closure#")

        def fix(s, _k=k, _pat=pat, _cn=cn):
            if "{closure#" in s and _k + "::{closure#" in strip_generics(s):
                return _pat.sub("::" + _cn + "::{closure#9", s)
            return s
        for b in data["bodies"]:
            for fld in ("path", "root"):
                if isinstance(b.get(fld), str):
                    b[fld] = fix(b[fld])
            _walk_strings(b["blocks"], fix)
            _walk_strings(b["locals"], fix)
    # calls that remain only inside other dropped helpers do not count
    co_drop = {ck for ck, k in co_keys.items() if k in dropped and ck in co_inlined}
    # an async helper whose coroutine could not be spliced in stays (shell and body), otherwise its code would vanish from view
    for ck, k in co_keys.items():
        if k in dropped and ck not in co_inlined:
            dropped.discard(k)
    if dropped:
        data["bodies"] = [b for b in data["bodies"] if strip_generics(b["path"]) not in dropped and strip_generics(b["path"]) not in co_drop]
        data["fns"] = [f for f in data["fns"] if strip_generics(f["path"]) not in dropped]
    if log and inlined_into:
        for k, n in inlined_into.items():
            if n:
                log(f"normalize: new helper {k} inlined into {n} call site(s){'' if k in dropped else ' (kept: other uses remain)'}")
    return dropped


# ---------------------------------------------------------------------------------------------- driver
def normalize(pkg, data, log=None):
    base = _load_baseline().get(pkg)
    if not base:
        return data
    cur = inventory(data)
    notes = []
    # ---- (c0) renamed private types: a vanished ADT and a new one in the same module with the same field types
    gone_adts = [a for a in base["adts"] if a not in cur["adts"]]
    new_adts = [a for a in cur["adts"] if a not in base["adts"]]
    for ga in gone_adts:
        gp = ga.rsplit("::", 1)[0]
        shape = [[t for _n, t in v] for v in base["adts"][ga]]
        gname = ga.rsplit("::", 1)[-1]

        def same_shape(na, _shape=shape, _ga=ga):
            nshape = [[t.replace(na, _ga) for _n, t in v] for v in cur["adts"][na]]
            return nshape == _shape
        cands = [na for na in new_adts if na.rsplit("::", 1)[0] == gp and same_shape(na)]
        rivals = [g2 for g2 in gone_adts if g2 != ga and g2.rsplit("::", 1)[0] == gp and [[t for _n, t in v] for v in base["adts"][g2]] == shape]
        if len(cands) == 1 and not rivals:
            na = cands[0]
            pat = re.compile(re.escape(na) + r"(?![A-Za-z0-9_])")

            def fixt(x, _pat=pat, _ga=ga, _na=na):
                return _pat.sub(_ga, x) if _na in x else x
            for b in data["bodies"]:
                for fld in ("path", "root", "impl_self", "impl_adt", "sig"):
                    if isinstance(b.get(fld), str):
                        b[fld] = fixt(b[fld])
                _walk_strings(b["blocks"], fixt)
                _walk_strings(b["locals"], fixt)
            _walk_strings(data["adts"], fixt)
            _walk_strings(data["impls"], fixt)
            _walk_strings(data["fns"], fixt)
            _walk_strings(data.get("statics", []), fixt)
            notes.append(f"type {na} -> {ga}")
    if gone_adts and new_adts:
        cur = inventory(data)
    # ---- (c) field renames
    for path, bvars in base["adts"].items():
        cvars = cur["adts"].get(path)
        if cvars is None or len(cvars) != len(bvars):
            continue
        mapping = {}
        ok = True
        for bv, cv in zip(bvars, cvars):
            if len(bv) != len(cv) or [t for _n, t in bv] != [t for _n, t in cv]:
                ok = False
                break
            bn = [n for n, _t in bv]
            cn = [n for n, _t in cv]
            if sorted(bn) == sorted(cn):
                continue  # same names (possibly reordered)
            for (bname, _), (cname, _) in zip(bv, cv):
                if bname != cname:
                    if cname in bn or bname in cn:
                        ok = False
                    mapping[cname] = bname
        if ok and mapping:
            _rename_fields(data, path, mapping)
            notes.append(f"fields of {path}: {mapping}")
    # ---- (c1) grouped fields: a baseline struct lost fields f1..fk and gained ONE field whose type is a new private struct holding
    # exactly those (same names and types): reach them through the group as if they were still fields of the outer struct
    for path, bvars in base["adts"].items():
        cvars = cur["adts"].get(path)
        if cvars is None or len(bvars) != 1 or len(cvars) != 1:
            continue
        bf, cf = bvars[0], cvars[0]
        bnames, cnames = [n for n, _t in bf], [n for n, _t in cf]
        missing = [n for n in bnames if n not in cnames]
        extra = [(n, t) for n, t in cf if n not in bnames]
        if not missing or len(extra) != 1:
            continue
        gname, gty = extra[0]
        q = strip_generics(gty)
        if q in base["adts"] or q not in cur["adts"] or len(cur["adts"][q]) != 1:
            continue
        inner = dict((n, t) for n, t in cur["adts"][q][0])
        btypes = dict(bf)
        if not all(m in inner for m in missing):
            continue
        # same types modulo the outer generic spelling
        if not all(strip_generics(inner[m]) == strip_generics(btypes[m]) or inner[m] == btypes[m] for m in missing):
            continue
        gfull = f"{path}::{gname}"
        bidx = {n: i for i, n in enumerate(bnames)}

        def flat(x, _g=gfull, _q=q, _path=path, _missing=set(missing), _bidx=bidx):
            if isinstance(x, dict):
                pr = x.get("p")
                if isinstance(pr, list) and pr:
                    out, i = [], 0
                    while i < len(pr):
                        e = pr[i]
                        if isinstance(e, dict) and e.get("f") == _g and i + 1 < len(pr) and isinstance(pr[i + 1], dict) and \
                                str(pr[i + 1].get("f", "")).startswith(_q + "::") and pr[i + 1]["f"][len(_q) + 2:] in _missing:
                            nm = pr[i + 1]["f"][len(_q) + 2:]
                            out.append({"f": f"{_path}::{nm}", "i": _bidx[nm]})
                            i += 2
                            continue
                        out.append(e)
                        i += 1
                    x["p"] = out
                for v in x.values():
                    if isinstance(v, (dict, list)):
                        flat(v)
            elif isinstance(x, list):
                for v in x:
                    if isinstance(v, (dict, list)):
                        flat(v)
        for b in data["bodies"]:
            flat(b["blocks"])
            flat(b.get("upvars", []))
        for a in data["adts"]:
            if a["path"] == path:
                v = a["variants"][0]
                byname = {f["name"]: f for f in v["fields"]}
                qa = next((a2 for a2 in data["adts"] if a2["path"] == q), None)
                if qa:
                    for f in qa["variants"][0]["fields"]:
                        byname.setdefault(f["name"], f)
                v["fields"] = [byname[n] for n in bnames if n in byname] + [f for f in v["fields"] if f["name"] not in bnames]
        notes.append(f"fields {missing} of {path} reached through the new group `{gname}: {q.rsplit('::', 1)[-1]}`")
    if any(n.startswith("fields [") for n in notes):
        cur = inventory(data)
    # ---- (c2) renamed enum variants (same enum - possibly renamed above -, same number of variants, same field types each)
    for path, bnames in base.get("adt_variants", {}).items():
        cnames = cur.get("adt_variants", {}).get(path)
        bvars, cvars = base["adts"].get(path), cur["adts"].get(path)
        if not cnames or cnames == bnames or len(cnames) != len(bnames) or len(bnames) < 2 or sorted(cnames) == sorted(bnames):
            continue
        if [[t for _n, t in v] for v in bvars] != [[t for _n, t in v] for v in cvars]:
            continue
        vmap = {c: b_ for c, b_ in zip(cnames, bnames) if c != b_}
        if any(c in bnames for c in vmap):
            continue
        # a downcast element carries only the variant name: rename it there only if no other type of the crate uses the name
        elsewhere = {v.get("name") for a in data["adts"] if a["path"] != path for v in a.get("variants", [])} | \
                    {"Some", "None", "Ok", "Err", "Ready", "Pending", "Break", "Continue", "Less", "Equal", "Greater"}
        dc_ok = {c for c in vmap if c not in elsewhere}

        def walk(x, _vmap=vmap, _path=path, _dc=dc_ok):
            if isinstance(x, dict):
                if x.get("k") == "aggr" and x.get("adt") == _path and x.get("variant") in _vmap:
                    x["variant"] = _vmap[x["variant"]]
                if x.get("k") == "const" and x.get("variant") in _vmap and _path in (x.get("ty") or ""):
                    x["variant"] = _vmap[x["variant"]]
                if "v" in x and "i" in x and x["v"] in _dc and len(x) == 2:
                    x["v"] = _vmap[x["v"]]
                for v in x.values():
                    if isinstance(v, (dict, list)):
                        walk(v)
            elif isinstance(x, list):
                for v in x:
                    if isinstance(v, (dict, list)):
                        walk(v)
        for b in data["bodies"]:
            walk(b["blocks"])
        for a in data["adts"]:
            if a["path"] == path:
                for v in a.get("variants", []):
                    if v.get("name") in vmap:
                        v["name"] = vmap[v["name"]]
        notes.append(f"variants of {path}: {vmap}")
    # ---- (a) function renames
    gone = [k for k in base["fns"] if k not in cur["fns"]]
    new = [k for k in cur["fns"] if k not in base["fns"]]
    renamed = {}

    def _fp_eq(a, b):
        return a is not None and b is not None and json.dumps(a) == json.dumps(b)
    for g in gone:
        gp = g.rsplit("::", 1)[0]
        gs = base["fns"][g]["sig"]
        cands = [n for n in new if n.rsplit("::", 1)[0] == gp and cur["fns"][n]["sig"] == gs and n not in renamed]
        others = [g2 for g2 in gone if g2 != g and g2.rsplit("::", 1)[0] == gp and base["fns"][g2]["sig"] == gs]
        if len(cands) == 1 and not others:
            renamed[cands[0]] = g
        elif cands and (len(cands) > 1 or others):
            # several same-signature functions were renamed together (e.g. the entries of a vtable): tell them apart by body shape
            gfp = base["fns"][g].get("fp")
            hit = [n for n in cands if _fp_eq(cur["fns"][n].get("fp"), gfp)]
            rivals = [g2 for g2 in others if _fp_eq(base["fns"][g2].get("fp"), gfp)]
            if len(hit) == 1 and not rivals:
                renamed[hit[0]] = g
    # moved functions: same name and signature under a different path (free fn -> method, other module/file)
    for g in gone:
        if g in renamed.values():
            continue
        gname = g.rsplit("::", 1)[-1]
        gs = base["fns"][g]["sig"]
        cands = [n for n in new if n not in renamed and n.rsplit("::", 1)[-1] == gname and cur["fns"][n]["sig"] == gs]
        rivals = [g2 for g2 in gone if g2 != g and g2 not in renamed.values() and g2.rsplit("::", 1)[-1] == gname and base["fns"][g2]["sig"] == gs]
        if len(cands) == 1 and not rivals:
            renamed[cands[0]] = g
    for n, g in renamed.items():
        _rename_fn(data, n, g)
        notes.append(f"fn {n} -> {g}")
    if renamed:
        cur = inventory(data)
        new = [k for k in cur["fns"] if k not in base["fns"]]
        # second pass: what was ambiguous may have become unique (or its body shape recognisable) once its siblings are back
        gone2 = [k for k in base["fns"] if k not in cur["fns"]]
        for g in gone2:
            gp = g.rsplit("::", 1)[0]
            gs = base["fns"][g]["sig"]
            cands = [n for n in new if n.rsplit("::", 1)[0] == gp and cur["fns"][n]["sig"] == gs]
            others = [g2 for g2 in gone2 if g2 != g and g2.rsplit("::", 1)[0] == gp and base["fns"][g2]["sig"] == gs]
            pick = None
            if len(cands) == 1 and not others:
                pick = cands[0]
            elif cands:
                hit = [n for n in cands if _fp_eq(cur["fns"][n].get("fp"), base["fns"][g].get("fp"))]
                if len(hit) == 1 and not [g2 for g2 in others if _fp_eq(base["fns"][g2].get("fp"), base["fns"][g].get("fp"))]:
                    pick = hit[0]
            if pick:
                _rename_fn(data, pick, g)
                notes.append(f"fn {pick} -> {g}")
                new.remove(pick)
                renamed[pick] = g
        cur = inventory(data)
        new = [k for k in cur["fns"] if k not in base["fns"]]
    # ---- (b) parameter permutations
    for k, bf in base["fns"].items():
        cf = cur["fns"].get(k)
        if cf is None or cf["sig"] == bf["sig"]:
            continue
        bp, br = _sig_parts(bf["sig"])
        cp, cr = _sig_parts(cf["sig"])
        if bp is None or cp is None or br != cr or len(bp) != len(cp) or sorted(bp) != sorted(cp):
            continue
        if len(set(bp)) == len(bp):
            perm = [bp.index(ty) for ty in cp]
        else:
            bn, cn = bf.get("argnames") or [], cf.get("argnames") or []
            if len(bn) != len(bp) or sorted(bn) != sorted(cn) or len(set(bn)) != len(bn) or "" in bn:
                continue
            perm = [bn.index(nm) for nm in cn]
            if [bp[j] for j in perm] != cp:
                continue
        _permute_params(data, k, perm)
        notes.append(f"parameters of {k} permuted back: {perm}")
    # ---- (e) a baseline function that vanished without a successor and had exactly one caller: its code now lives there
    folded = {}
    for g in base["fns"]:
        if g in cur["fns"] or g in renamed.values():
            continue
        callers = [c for c in base["fns"][g].get("callers", []) if c in cur["fns"]]
        if len(callers) == 1:
            folded[g] = callers[0]
    if folded:
        data["_folded"] = folded
        notes.append(f"functions folded into their only caller: {folded}")
    # ---- (f) a local closure that is called directly (`let next = || ..; while let Some(x) = next() {..}`) in a function that
    # had no such call in the baseline: splice the closure body in at the call
    n_cl = _inline_direct_closure_calls(data, base)
    if n_cl:
        notes.append(f"directly called local closures inlined: {n_cl}")
    # ---- (d) new helpers
    dropped = _inline_new_helpers(data, set(new), log=log)
    if dropped:
        notes.append(f"inlined new helpers: {sorted(dropped)}")
    # ---- (g) values returned by spliced-in helpers and matched on by the caller: thread the jumps
    n_thr = 0
    for b in data["bodies"]:
        if b.get("inlined") and "orig_blocks" in b:
            n_thr += _thread_jumps(b, b["orig_blocks"])
    if n_thr:
        notes.append(f"jump threads through inlined helper results: {n_thr}")
    # ---- (h) functions whose shape differs from the baseline: see through literal-boolean merge temporaries (`matches!`, `&&`, `||`
    # feeding an `if`) by threading them as well, so that a rewritten condition guards the same blocks as the spelled-out match
    n_b = 0
    for b in data["bodies"]:
        kb = strip_generics(b["path"])
        root = kb.split("::{closure")[0]
        bf = base["fns"].get(root)
        changed = bf is None or b.get("inlined") or ("{closure" not in kb and json.dumps(_fingerprint(b)) != json.dumps(bf.get("fp")))
        if "{closure" in kb and bf is not None and not changed:
            rb = next((x for x in data["bodies"] if strip_generics(x["path"]) == root), None)
            changed = rb is not None and json.dumps(_fingerprint(rb)) != json.dumps(bf.get("fp"))
        if changed and len(b["blocks"]) < 3000:
            n_b += _thread_jumps(b, 0, bool_only=True)
    if n_b:
        notes.append(f"literal-boolean merges threaded in changed functions: {n_b}")
    if notes:
        data["_normalized"] = notes
        if log:
            for n in notes:
                log(f"normalize[{pkg}]: {n}")
    return data


def main():
    from . import facts as F
    from .crates import ALL_CRATES
    out = {}
    for p in ALL_CRATES:
        d = F.load(p)
        out[p] = inventory(d)
        print(p, len(out[p]["fns"]), "fns", len(out[p]["adts"]), "adts")
    with open(BASELINE, "w") as f:
        json.dump(out, f, indent=0, sort_keys=True)
    print("wrote", BASELINE)


if __name__ == "__main__":
    sys.exit(main())

"""Fact generation (E1 front end) and loading.

Facts are produced by /verif/factgen (a rustc_private driver) injected as
RUSTC_WORKSPACE_WRAPPER under `cargo +nightly check --offline --lib -p <pkg>` in /repo.
They are cached under /verif/.cache/facts keyed by a content hash of the package's
sources, the sources of its transitive workspace dependencies, the workspace manifest,
the lock file, the driver binary and the flags - so any edit under /repo that can change
the analysed MIR forces regeneration, and an unchanged tree reuses the cache.
"""
import fcntl
import glob
import hashlib
import json
import os
import re
import shutil
import subprocess
import sys
import time

VERIF = os.path.dirname(os.path.dirname(os.path.abspath(__file__)))
REPO = os.environ.get("VERIF_REPO", "/repo")
CACHE = os.path.join(VERIF, ".cache")
TARGET = os.path.join(CACHE, "target")
FACTS = os.path.join(CACHE, "facts")
DRIVER = os.path.join(VERIF, "factgen", "target", "debug", "factgen")
RUSTFLAGS = "-Zmir-opt-level=0 -Awarnings"

_meta_cache = None


def _run(cmd, **kw):
    return subprocess.run(cmd, stdout=subprocess.PIPE, stderr=subprocess.STDOUT, text=True, **kw)


def nightly_sysroot():
    r = subprocess.run(["rustc", "+nightly", "--print", "sysroot"], stdout=subprocess.PIPE, text=True, cwd=VERIF)
    return r.stdout.strip()


def base_env():
    env = dict(os.environ)
    env["CARGO_NET_OFFLINE"] = "true"
    env["LD_LIBRARY_PATH"] = nightly_sysroot() + "/lib:" + env.get("LD_LIBRARY_PATH", "")
    env["RUSTFLAGS"] = RUSTFLAGS
    env["CARGO_INCREMENTAL"] = "0"  # incremental would skip mir_promoted for green bodies
    env.pop("RUSTC_WRAPPER", None)
    return env


def ensure_driver():
    """Build the driver if its sources are newer than the binary (or it is missing)."""
    src = [os.path.join(VERIF, "factgen", "src", f) for f in os.listdir(os.path.join(VERIF, "factgen", "src"))]
    src.append(os.path.join(VERIF, "factgen", "Cargo.toml"))
    need = not os.path.exists(DRIVER) or any(os.path.getmtime(s) > os.path.getmtime(DRIVER) for s in src)
    if need:
        env = dict(os.environ)
        env["CARGO_NET_OFFLINE"] = "true"
        r = _run(["cargo", "build", "--offline"], cwd=os.path.join(VERIF, "factgen"), env=env)
        if r.returncode != 0 or not os.path.exists(DRIVER):
            sys.stderr.write(r.stdout)
            raise SystemExit("factgen driver failed to build")
        os.utime(DRIVER, None)


def metadata(repo=None):
    global _meta_cache
    repo = repo or REPO
    if _meta_cache is not None and _meta_cache[0] == repo:
        return _meta_cache[1]
    env = dict(os.environ)
    env["CARGO_NET_OFFLINE"] = "true"
    r = subprocess.run(
        ["cargo", "metadata", "--offline", "--format-version", "1", "--no-deps"],
        cwd=repo, stdout=subprocess.PIPE, stderr=subprocess.PIPE, text=True, env=env,
    )
    if r.returncode != 0:
        sys.stderr.write(r.stderr)
        raise SystemExit("cargo metadata failed")
    m = json.loads(r.stdout)
    pk = {}
    for p in m["packages"]:
        libname = None
        for t in p["targets"]:
            if "lib" in t["kind"] or "rlib" in t["kind"] or "proc-macro" in t["kind"]:
                libname = t["name"].replace("-", "_")
        deps = [d["name"] for d in p["dependencies"] if d.get("path") and d.get("kind") in (None, "build")]
        pk[p["name"]] = {
            "dir": os.path.dirname(p["manifest_path"]),
            "lib": libname,
            "deps": deps,
        }
    _meta_cache = (repo, pk)
    return pk


def _closure(pkg, meta):
    seen = []
    todo = [pkg]
    while todo:
        p = todo.pop()
        if p in seen or p not in meta:
            continue
        seen.append(p)
        todo.extend(meta[p]["deps"])
    return sorted(seen)


def _hash_file(h, path):
    h.update(path.encode())
    try:
        with open(path, "rb") as f:
            h.update(f.read())
    except OSError:
        h.update(b"<missing>")


# cargo features switched on for the analysed build of a package (additive ones that only ADD code the properties talk about:
# many_cpus_impl's `test-util` compiles the fake platform, which C10 quantifies over: "for all fake topologies")
PKG_FEATURES = {"many_cpus_impl": ["test-util"]}

VARIANTS = {
    "": "",
    # release-like cfg: debug assertions (and with them cfg(debug_assertions) code such as the
    # events' backtrace mutex and the slab's debug pointer checks) compiled out
    "nodebug": " -C debug-assertions=off -C overflow-checks=off",
}


def source_hash(pkg, repo=None, variant=""):
    repo = repo or REPO
    meta = metadata(repo)
    h = hashlib.sha256()
    h.update((RUSTFLAGS + VARIANTS[variant] + ",".join(PKG_FEATURES.get(pkg, []))).encode())
    h.update(os.path.abspath(repo).encode() if os.path.abspath(repo) != "/repo" else b"")
    _hash_file(h, DRIVER)
    _hash_file(h, os.path.join(repo, "Cargo.toml"))
    _hash_file(h, os.path.join(repo, "Cargo.lock"))
    for p in _closure(pkg, meta):
        d = meta[p]["dir"]
        files = [os.path.join(d, "Cargo.toml"), os.path.join(d, "build.rs")]
        for root, _dirs, fs in os.walk(os.path.join(d, "src")):
            for f in fs:
                files.append(os.path.join(root, f))
        for f in sorted(files):
            if os.path.exists(f):
                rel = os.path.relpath(f, repo)
                h.update(rel.encode())
                with open(f, "rb") as fh:
                    h.update(fh.read())
    return h.hexdigest()[:24]


class Lock:
    def __init__(self, path):
        self.path = path

    def __enter__(self):
        os.makedirs(os.path.dirname(self.path), exist_ok=True)
        self.f = open(self.path, "w")
        fcntl.flock(self.f, fcntl.LOCK_EX)
        return self

    def __exit__(self, *a):
        fcntl.flock(self.f, fcntl.LOCK_UN)
        self.f.close()


def generate(pkg, repo=None, target=None, facts_dir=None, log=None, variant=""):
    """Run the driver for one package; returns path of the fact file."""
    repo = repo or REPO
    target = target or (TARGET if os.path.abspath(repo) == "/repo" else os.path.join(CACHE, "target_scratch"))
    facts_dir = facts_dir or FACTS
    meta = metadata(repo)
    if pkg not in meta:
        raise SystemExit(f"package {pkg} not in workspace at {repo}")
    lib = meta[pkg]["lib"]
    os.makedirs(facts_dir, exist_ok=True)
    os.makedirs(target, exist_ok=True)
    raw_dir = os.path.join(facts_dir, "raw")
    os.makedirs(raw_dir, exist_ok=True)
    raw = os.path.join(raw_dir, lib + ".json")
    if os.path.exists(raw):
        os.remove(raw)
    # force the wrapper to run for this package
    for d in glob.glob(os.path.join(target, "debug", ".fingerprint", pkg + "-*")):
        shutil.rmtree(d, ignore_errors=True)
    env = base_env()
    env["RUSTFLAGS"] = RUSTFLAGS + VARIANTS[variant]
    env["RUSTC_WORKSPACE_WRAPPER"] = DRIVER
    env["CARGO_TARGET_DIR"] = target
    env["FACTGEN_OUT"] = raw_dir
    env["FACTGEN_CRATES"] = lib
    t0 = time.time()
    feats = ["--features", ",".join(PKG_FEATURES[pkg])] if PKG_FEATURES.get(pkg) else []
    r = _run(["cargo", "+nightly", "check", "--offline", "--lib", "-p", pkg] + feats, cwd=repo, env=env)
    if log:
        log(f"factgen {pkg}: cargo check exit {r.returncode} in {time.time()-t0:.1f}s")
    if r.returncode != 0:
        sys.stderr.write(r.stdout[-6000:])
        raise SystemExit(f"cargo check failed for {pkg} (the tree must compile)")
    if not os.path.exists(raw):
        sys.stderr.write(r.stdout[-3000:])
        raise SystemExit(f"driver produced no facts for {pkg} (fail closed)")
    return raw


def fact_file(pkg, repo=None, log=None, variant=""):
    """Return the path of an up-to-date fact file for pkg, generating if needed."""
    repo = repo or REPO
    ensure_driver()
    h = source_hash(pkg, repo, variant)
    os.makedirs(FACTS, exist_ok=True)
    out = os.path.join(FACTS, f"{pkg}.{h}.json")
    if os.path.exists(out):
        return out, False
    with Lock(os.path.join(CACHE, "lock")):
        if os.path.exists(out):
            return out, False
        raw = generate(pkg, repo, log=log, variant=variant)
        # keep a few recent fact files of this package (content-addressed; a reverted edit is a cache hit)
        olds = sorted(glob.glob(os.path.join(FACTS, f"{pkg}.*.json")), key=os.path.getmtime, reverse=True)
        for old in olds[8:]:
            os.remove(old)
        os.replace(raw, out)
    return out, True


_crate_re = re.compile(r"\bcrate::")


def load(pkg, repo=None, log=None, variant=""):
    path, fresh = fact_file(pkg, repo, log, variant)
    with open(path, "r") as f:
        text = f.read()
    name = metadata(repo)[pkg]["lib"]
    text = _crate_re.sub(name + "::", text)
    data = json.loads(text)
    data["_fresh"] = fresh
    data["_file"] = path
    data["_pkg"] = pkg
    return data


PROBES = os.path.join(VERIF, "probes")
PROBE_TARGET = os.path.join(CACHE, "probe_target")


def probe_facts(name, dep_pkgs, repo=None, log=None):
    """Compile /verif/probes/<name> (a user-style crate path-depending on /repo) through the
    driver and return its facts (incl. the trait matrix). Cached by a hash of the probe source
    and of the probed packages' sources."""
    repo = repo or REPO
    ensure_driver()
    pdir = os.path.join(PROBES, name)
    h = hashlib.sha256()
    for root, _d, fs in os.walk(os.path.join(pdir, "src")):
        for f in sorted(fs):
            _hash_file(h, os.path.join(root, f))
    _hash_file(h, os.path.join(pdir, "Cargo.toml"))
    for p in dep_pkgs:
        h.update(source_hash(p, repo).encode())
    key = h.hexdigest()[:24]
    os.makedirs(FACTS, exist_ok=True)
    out = os.path.join(FACTS, f"{name}.{key}.json")
    if not os.path.exists(out):
        with Lock(os.path.join(CACHE, "lock")):
            if not os.path.exists(out):
                raw_dir = os.path.join(FACTS, "raw")
                os.makedirs(raw_dir, exist_ok=True)
                raw = os.path.join(raw_dir, name + ".json")
                if os.path.exists(raw):
                    os.remove(raw)
                shutil.copy(os.path.join(repo, "Cargo.lock"), os.path.join(pdir, "Cargo.lock"))
                for d in glob.glob(os.path.join(PROBE_TARGET, "debug", ".fingerprint", name + "-*")):
                    shutil.rmtree(d, ignore_errors=True)
                env = base_env()
                env["RUSTC_WORKSPACE_WRAPPER"] = DRIVER
                env["CARGO_TARGET_DIR"] = PROBE_TARGET
                env["FACTGEN_OUT"] = raw_dir
                env["FACTGEN_CRATES"] = name
                t0 = time.time()
                # the probe's path dependency must point at the repo under analysis
                r = _run(["cargo", "+nightly", "check", "--offline", "--lib"] +
                         (["--config", f"patch.crates-io.__none__.path='{repo}'"] if False else []), cwd=pdir, env=env)
                if log:
                    log(f"probe {name}: cargo check exit {r.returncode} in {time.time()-t0:.1f}s")
                if r.returncode != 0 or not os.path.exists(raw):
                    sys.stderr.write(r.stdout[-5000:])
                    raise SystemExit(f"probe crate {name} failed to compile (fail closed)")
                olds = sorted(glob.glob(os.path.join(FACTS, f"{name}.*.json")), key=os.path.getmtime, reverse=True)
                for old in olds[3:]:
                    os.remove(old)
                os.replace(raw, out)
    with open(out) as f:
        return json.load(f)

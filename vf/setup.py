"""Warm the fact cache for every anchored crate (deps compiled once with the analysis flags)."""
import sys
import time

from . import facts as F
from .crates import ALL_CRATES


def main():
    F.ensure_driver()
    t0 = time.time()
    for p in ALL_CRATES:
        t = time.time()
        path, fresh = F.fact_file(p, log=print)
        print(f"facts {p}: {'generated' if fresh else 'cached'} {path} ({time.time()-t:.1f}s)", flush=True)
    print(f"setup done in {time.time()-t0:.1f}s")


if __name__ == "__main__":
    sys.exit(main())

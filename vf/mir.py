"""In-memory view of the fact files: Program -> Body -> blocks, with CFG primitives."""
from collections import defaultdict, deque

from . import facts as F


def strip_generics(s):
    """`a::B::<T>::c` / `a::B<T>::c` -> `a::B::c` (balanced angle removal)."""
    out = []
    depth = 0
    i = 0
    while i < len(s):
        c = s[i]
        if c == "<":
            # keep leading `<T as Trait>::m` style (qualified path at start or after space)
            if depth == 0 and (i == 0 or s[i - 1] in " (,&"):
                out.append(c)
                depth_q = 1
                i += 1
                while i < len(s) and depth_q:
                    if s[i] == "<":
                        depth_q += 1
                    elif s[i] == ">" and s[i - 1] != "-":
                        depth_q -= 1
                    out.append(s[i])
                    i += 1
                continue
            depth += 1
        elif c == ">" and depth and s[i - 1] != "-":
            depth -= 1
            if depth == 0 and out[-2:] == [":", ":"] :
                # `::<T>` turbofish: drop the trailing `::` we already emitted
                out = out[:-2]
        elif depth == 0:
            out.append(c)
        i += 1
    return "".join(out)


class Block:
    __slots__ = ("idx", "cleanup", "stmts", "term")

    def __init__(self, idx, d):
        self.idx = idx
        self.cleanup = d["cleanup"]
        self.stmts = d["stmts"]
        self.term = d["term"]


class Body:
    def __init__(self, d, crate):
        self.d = d
        self.crate = crate
        self.path = d["path"]
        self.key = strip_generics(d["path"])
        self.name = d.get("name", "")
        self.root = d.get("root", d["path"])
        self.mir = d["mir"]
        self.span = d["span"]
        self.file = d["span"]["file"]
        self.line = d["span"]["line"]
        self.locals = d["locals"]
        self.arg_count = d["arg_count"]
        self.blocks = [Block(i, b) for i, b in enumerate(d["blocks"])]
        self.impl_self = d.get("impl_self")
        self.impl_adt = d.get("impl_adt")
        self.impl_trait = d.get("impl_trait")
        self.preds = d.get("preds", [])
        self.is_closure = d.get("def_kind") in ("Closure", "SyntheticCoroutineBody")
        self.coroutine = d.get("coroutine", False)
        self._succ = None
        self._pred = None
        self._defs = None

    def __repr__(self):
        return f"<Body {self.path}>"

    def loc(self, span=None):
        s = span or self.span
        return f"{s['file']}:{s['line']}"

    # ---------------------------------------------------------------- CFG
    def term_succ(self, bb, unwind=True):
        t = self.blocks[bb].term
        k = t["k"]
        out = []
        if k == "goto":
            out.append(t["target"])
        elif k == "switch":
            out.extend(a[1] for a in t["arms"])
            out.append(t["otherwise"])
        elif k in ("call", "drop", "assert"):
            if t.get("target") is not None:
                out.append(t["target"])
            if unwind and isinstance(t.get("unwind"), int):
                out.append(t["unwind"])
        elif k == "yield":
            out.append(t["target"])
            if unwind and t.get("drop") is not None:
                out.append(t["drop"])
        elif k == "asm":
            out.extend(t.get("targets", []))
        seen = []
        for o in out:
            if o not in seen:
                seen.append(o)
        return seen

    def succ(self, unwind=True):
        if unwind:
            if self._succ is None:
                self._succ = [self.term_succ(i, True) for i in range(len(self.blocks))]
            return self._succ
        return [self.term_succ(i, False) for i in range(len(self.blocks))]

    def preds_of(self, unwind=True):
        s = self.succ(unwind)
        p = [[] for _ in self.blocks]
        for i, outs in enumerate(s):
            for o in outs:
                p[o].append(i)
        return p

    def reachable(self, starts, unwind=True, avoid=(), avoid_edges=()):
        """Blocks reachable from `starts` (inclusive) not entering blocks in `avoid`
        and not using edges in `avoid_edges` ((from,to) pairs)."""
        s = self.succ(unwind)
        avoid = set(avoid)
        avoid_edges = set(avoid_edges)
        seen = set()
        dq = deque(b for b in starts if b not in avoid)
        seen.update(dq)
        while dq:
            b = dq.popleft()
            for o in s[b]:
                if o in seen or o in avoid or (b, o) in avoid_edges:
                    continue
                seen.add(o)
                dq.append(o)
        return seen

    def successors_reach(self, bb, unwind=True, avoid=()):
        """Blocks reachable strictly after bb's terminator."""
        return self.reachable(self.term_succ(bb, unwind), unwind, avoid)

    def exits(self, kinds=("return",)):
        return [b.idx for b in self.blocks if b.term["k"] in kinds]

    def dominators(self, unwind=True):
        """Returns dom[b] = set of blocks dominating b (iterative; bodies are small)."""
        n = len(self.blocks)
        s = self.succ(unwind)
        preds = [[] for _ in range(n)]
        for i, outs in enumerate(s):
            for o in outs:
                preds[o].append(i)
        reach = self.reachable([0], unwind)
        full = set(reach)
        dom = {b: set(full) for b in reach}
        dom[0] = {0}
        changed = True
        order = sorted(reach)
        while changed:
            changed = False
            for b in order:
                if b == 0:
                    continue
                ps = [p for p in preds[b] if p in reach]
                if not ps:
                    continue
                new = set.intersection(*(dom[p] for p in ps)) | {b}
                if new != dom[b]:
                    dom[b] = new
                    changed = True
        return dom

    def must_pass(self, start_blocks, through, exits, unwind=False):
        """True iff every path from any start block to any exit block enters a block of
        `through`. Returns (ok, offending_exit)."""
        r = self.reachable(start_blocks, unwind, avoid=through)
        for e in exits:
            if e in r:
                return False, e
        return True, None

    def in_loop(self, bb, unwind=False):
        return bb in self.successors_reach(bb, unwind)

    # ---------------------------------------------------------------- defs / uses
    def defs(self):
        """local -> list of (bb, idx, kind, payload). idx = len(stmts) for terminators."""
        if self._defs is None:
            d = defaultdict(list)
            for b in self.blocks:
                for i, s in enumerate(b.stmts):
                    if s["k"] == "assign" and not s["place"]["p"]:
                        d[s["place"]["l"]].append((b.idx, i, "assign", s))
                t = b.term
                if t["k"] == "call" and not t["dest"]["p"]:
                    d[t["dest"]["l"]].append((b.idx, len(b.stmts), "call", t))
            self._defs = d
        return self._defs

    def unique_def(self, local):
        ds = self.defs().get(local, [])
        if len(ds) == 1:
            return ds[0]
        return None

    def calls(self):
        for b in self.blocks:
            if b.term["k"] in ("call", "tailcall"):
                yield b.idx, b.term

    def local_ty(self, l):
        return self.locals[l]["ty"]

    def local_name(self, l):
        return self.locals[l].get("name")


def callee_key(c):
    """Generic-free path of the *resolved* callee when resolution selected an item,
    else of the callee as written."""
    p = c.get("resolved") if c.get("rkind") == "item" and c.get("resolved") else c.get("path")
    return strip_generics(p or "")


def callee_paths(c):
    out = {strip_generics(c.get("path", ""))}
    if c.get("resolved"):
        out.add(strip_generics(c["resolved"]))
    return out


class Program:
    """A set of crates loaded together; bodies indexed by generic-free path."""

    def __init__(self, pkgs, log=None, repo=None, variant="", raw=False):
        self.crates = {}
        self.bodies = []
        self.by_key = defaultdict(list)
        self.by_path = {}
        self.adts = {}
        self.impls = []
        self.statics = {}
        self.fns = {}
        self.fresh = {}
        self._tail_index = None
        self._crate_names = set()
        self.folded = {}        # baseline function that no longer exists -> the only caller its code was inlined into
        for p in pkgs:
            data = F.load(p, repo=repo, log=log, variant=variant)
            from .normalize import normalize
            if not raw:
                data = normalize(p, data, log=log)
            self.folded.update(data.get("_folded", {}))
            self.crates[p] = data
            self._crate_names.add(data.get("crate", p))
            if data.get("missing"):
                raise SystemExit(f"facts for {p} lack MIR for {data['missing'][:5]} (fail closed)")
            self.fresh[p] = data["_fresh"]
            for bd in data["bodies"]:
                b = Body(bd, p)
                self.bodies.append(b)
                self.by_key[b.key].append(b)
                self.by_path[b.path] = b
            for a in data["adts"]:
                self.adts[a["path"]] = a
            for i in data["impls"]:
                i["_crate"] = p
                self.impls.append(i)
            for s in data["statics"]:
                self.statics[s["path"]] = s
            for f in data["fns"]:
                self.fns[strip_generics(f["path"])] = f
        self.finalize()

    def finalize(self):
        # closures inherit predicates (where-clauses) of their typeck root
        for b in self.bodies:
            if b.is_closure and not b.preds:
                r = self.by_key.get(strip_generics(b.root))
                if r:
                    b.preds = r[0].preds

    def find(self, suffix, crate=None):
        """Bodies whose generic-free path ends with `suffix` (on a `::` boundary)."""
        out = []
        for b in self.bodies:
            if crate and b.crate != crate:
                continue
            if b.key == suffix or b.key.endswith("::" + suffix):
                out.append(b)
        return out

    def one(self, suffix, crate=None):
        bs = self.find(suffix, crate)
        if len(bs) == 1:
            return bs[0]
        if not bs:
            # the anchor was inlined into its only caller by a refactoring: analyse it where its code lives now
            hits = [c for g, c in self.folded.items() if g == suffix or g.endswith("::" + suffix)]
            if len(hits) == 1:
                cb = self.by_key.get(hits[0])
                if cb:
                    return cb[0]
        return None

    def inlined_body(self, body, pred=None, depth=2, max_blocks=1500):
        """A copy of `body` in which calls of local, non-closure functions accepted by `pred(callee_body)` (default: all of
        the same crate) are replaced by the callee's MIR (bounded depth). Rules written against this view do not care
        whether a step lives in a private helper or in the caller."""
        import copy
        from .normalize import _inline_call
        d = copy.deepcopy(body.d)
        for _ in range(depth):
            progressed = False
            i = 0
            while i < len(d["blocks"]) and len(d["blocks"]) < max_blocks:
                t = d["blocks"][i]["term"]
                if t["k"] == "call" and isinstance(t.get("dest"), dict):
                    cb = self.body_for_callee(t["callee"])
                    if cb is not None and not cb.is_closure and not cb.coroutine and cb.crate == body.crate and cb.key != body.key \
                            and len(t["args"]) == cb.arg_count and (pred is None or pred(cb)):
                        _inline_call(d, i, cb.d)
                        progressed = True
                i += 1
            if not progressed:
                break
        nb = Body(d, body.crate)
        nb.preds = body.preds
        return nb

    def folded_into(self, fn_key):
        """Key of the body that now contains the code of baseline function `fn_key` (itself when it still exists)."""
        return self.folded.get(fn_key, fn_key)

    def closures_of(self, body):
        """Closure bodies lexically nested (directly or not) in `body`."""
        pre = body.key + "::{closure"
        return [b for b in self.bodies if b.key.startswith(pre) and b.crate == body.crate]

    def body_for_callee(self, c):
        """Local body a call resolves to, if any. Cross-crate callees are printed through their
        visible (re-exported) path, e.g. `awaiter_set::AwaiterSet::register` for
        `awaiter_set::set::AwaiterSet::register`: fall back to crate + last two segments when unique."""
        for k in (c.get("resolved"), c.get("path")):
            if not k:
                continue
            key = strip_generics(k)
            bs = self.by_key.get(key)
            if bs:
                return bs[0]
            parts = key.split("::")
            if len(parts) >= 3 and not key.startswith("<") and parts[0] in self._crate_names:
                if self._tail_index is None:
                    self._tail_index = defaultdict(list)
                    for b in self.bodies:
                        p = b.key.split("::")
                        if len(p) >= 3 and not b.key.startswith("<"):
                            self._tail_index[(p[0], p[-2], p[-1])].append(b)
                cand = self._tail_index.get((parts[0], parts[-2], parts[-1]), [])
                if len(cand) == 1:
                    return cand[0]
        return None


# ---------------------------------------------------------------- operand helpers

def op_local(op):
    """Local index if operand is copy/move of a bare local, else None."""
    if op and op.get("k") in ("copy", "move") and not op["place"]["p"]:
        return op["place"]["l"]
    return None


def op_place(op):
    if op and op.get("k") in ("copy", "move"):
        return op["place"]
    return None


def place_fields(place):
    """List of field names (`Adt::field`) in the projection, in order."""
    return [e["f"] for e in place["p"] if isinstance(e, dict) and "f" in e]


def place_str(body, place):
    s = f"_{place['l']}"
    n = body.local_name(place["l"])
    if n:
        s = n
    for e in place["p"]:
        if e == "*":
            s = f"(*{s})"
        elif isinstance(e, dict) and "f" in e:
            s += "." + e["f"].split("::")[-1]
        elif isinstance(e, dict) and "v" in e:
            s += f" as {e['v']}"
        else:
            s += "[..]"
    return s


def resolve_const(body, op, depth=6):
    """Try to evaluate an operand to a constant description:
    returns dict with optional 'val', 'fval', 'variant', 'name', 'text' or None."""
    if op is None or depth == 0:
        return None
    if op.get("k") == "const":
        return op
    l = op_local(op)
    if l is None:
        return None
    d = body.unique_def(l)
    if not d:
        return None
    _bb, _i, kind, payload = d
    if kind != "assign":
        return None
    rv = payload["rv"]
    if rv["k"] == "use":
        return resolve_const(body, rv["op"], depth - 1)
    if rv["k"] == "ref" and rv["place"]["p"] == ["*"]:
        return resolve_const(body, {"k": "copy", "place": {"l": rv["place"]["l"], "p": []}}, depth - 1)
    if rv["k"] == "aggr" and "adt" in rv and not rv["ops"]:
        return {"k": "const", "variant": rv["variant"], "adt": rv["adt"], "val": rv["vidx"], "text": rv["variant"]}
    if rv["k"] == "cast":
        return resolve_const(body, rv["op"], depth - 1)
    if rv["k"] == "unop" and rv["op"] == "Not":
        c = resolve_const(body, rv["a"], depth - 1)
        if c and "val" in c:
            # width from type string
            ty = c.get("ty", "u8")
            bits = {"u8": 8, "u16": 16, "u32": 32, "u64": 64, "usize": 64, "bool": 1}.get(ty, 8)
            return {"k": "const", "val": (~c["val"]) & ((1 << bits) - 1), "ty": ty, "text": "!" + c.get("text", "")}
    return None


TRANSPARENT = {
    "deref", "deref_mut", "as_ref", "as_mut", "borrow", "borrow_mut", "get", "as_ptr", "as_mut_ptr",
    "get_mut", "get_ref", "as_pin_mut", "as_pin_ref", "get_unchecked_mut", "get_unchecked", "clone",
    "cast", "as_non_null_ptr", "new_unchecked", "from", "into", "as_uninit_mut", "as_uninit_ref",
}


def access_path(body, place, depth=12):
    """(root_local, [Adt::field, ...]) for a place, chasing single-definition temporaries
    through borrows, copies, casts and transparent accessor calls."""
    fs = place_fields(place)
    root = place["l"]
    if depth == 0 or 1 <= root <= body.arg_count:
        return root, fs
    d = body.unique_def(root)
    if not d:
        return root, fs
    _bb, _i, kind, payload = d
    if kind == "assign":
        rv = payload["rv"]
        if rv["k"] in ("ref", "rawptr", "discr"):
            r, f2 = access_path(body, rv["place"], depth - 1)
            return r, f2 + fs
        if rv["k"] in ("use", "cast"):
            pl = op_place(rv["op"])
            if pl is not None:
                r, f2 = access_path(body, pl, depth - 1)
                return r, f2 + fs
        return root, fs
    c = payload["callee"]
    if c.get("method") in TRANSPARENT and payload["args"]:
        pl = op_place(payload["args"][0])
        if pl is not None:
            r, f2 = access_path(body, pl, depth - 1)
            return r, f2 + fs
    return root, fs


def op_access_path(body, op):
    pl = op_place(op)
    if pl is None:
        return None, []
    return access_path(body, pl)

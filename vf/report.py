"""Check context: collects obligations, violations, known findings, writes evidence."""
import json
import os
import sys
import time

from . import facts as F
from .mir import Program

VERIF = F.VERIF
KNOWN = os.path.join(VERIF, "known_findings.jsonl")
EVID = os.path.join(VERIF, "evidence")


class Ctx:
    def __init__(self, pid, tier="quick", seed=0, repo=None, quiet=False, variant=""):
        self.pid = pid
        self.variant = variant
        self.tier = tier
        self.seed = seed
        self.repo = repo
        self.quiet = quiet
        self.t0 = time.time()
        self.rules = {}          # rule id -> {"text":..., "n":0, "ok":0, "floor":None}
        self.obs = []            # dicts
        self.violations = []     # dicts (subset of obs that failed + floors/anchors)
        self.samples = []
        self.notes = []
        self.progs = {}
        self.functions = set()
        self.explanation = ""
        self.not_decided = ""
        self.assumptions = []
        self.extra = {}
        self.crates_used = []
        self.fresh = {}

    # -------------------------------------------------------------- plumbing
    def log(self, msg):
        if not self.quiet:
            print(f"[{self.pid}] {msg}", flush=True)

    def prog(self, *pkgs):
        key = tuple(pkgs)
        if key not in self.progs:
            p = Program(pkgs, log=self.log, repo=self.repo, variant=self.variant)
            self.progs[key] = p
            for k in pkgs:
                if k not in self.crates_used:
                    self.crates_used.append(k)
            self.fresh.update(p.fresh)
        return self.progs[key]

    def raw_prog(self, *pkgs):
        """The same crates WITHOUT vocabulary normalisation (helpers not spliced into their callers): for rules about function
        boundaries themselves (what a function's parameters keep alive while its body runs). Such rules must not name
        functions - names in this view are whatever the analysed tree uses."""
        key = ("raw",) + tuple(pkgs)
        if key not in self.progs:
            self.progs[key] = Program(pkgs, log=lambda *_a, **_k: None, repo=self.repo, variant=self.variant, raw=True)
        return self.progs[key]

    def rule(self, rid, text, floor=None, shape_dependent=False):
        self.rules[rid] = {"text": text, "n": 0, "ok": 0, "floor": floor, "shape_dependent": shape_dependent}

    def fn(self, body):
        self.functions.add(body.key if hasattr(body, "key") else str(body))

    def ob(self, rid, instance, ok, where="", detail="", sample=False):
        """Record one evaluated obligation. `instance` is the stable key part (no line numbers)."""
        r = self.rules[rid]
        r["n"] += 1
        rec = {"rule": rid, "instance": instance, "ok": bool(ok), "where": where, "detail": detail,
               "key": f"{self.pid}|{rid}|{instance}"}
        self.obs.append(rec)
        if ok:
            r["ok"] += 1
            if sample or len([s for s in self.samples if s["rule"] == rid]) < 2:
                self.samples.append({"rule": rid, "instance": instance, "where": where, "established": detail})
        else:
            self.violations.append(rec)
        return ok

    def inconclusive(self, rid, instance, where="", detail=""):
        """An obligation whose shape could not be re-derived after a recognised behaviour-preserving restructuring (e.g. the
        anchored helper was inlined into its caller). Recorded, counted for the floor, reported in the evidence - not an alarm:
        the rule has no positive evidence of a violation."""
        self.extra.setdefault("inconclusive", []).append({"rule": rid, "instance": instance, "where": where, "detail": detail})
        return self.ob(rid, instance, True, where, "NOT RE-DERIVED: " + detail)

    def missing(self, rid, what):
        """Fail closed: an anchor the rule needs was not found."""
        if rid not in self.rules:
            self.rule(rid, "(anchor)")
        rec = {"rule": rid, "instance": f"missing-anchor:{what}", "ok": False, "where": "",
               "detail": f"anchor not found: {what} (rule cannot be evaluated; fail closed)",
               "key": f"{self.pid}|{rid}|missing-anchor:{what}"}
        self.rules[rid]["n"] += 1
        self.obs.append(rec)
        self.violations.append(rec)

    def import_rules(self, pid, rules):
        """Evaluate property `pid`'s rule module on the same facts and adopt the obligations of the listed rules
        (rules: {rule id -> why it is also a necessary condition of THIS property}). Adopted obligations get the rule id
        `<pid>:<rule>` and a key under this property; floors and missing anchors of the adopted rules come along.
        Used where several properties anchor in the same functions: a change that breaks one of them usually breaks
        the siblings too, and each check must see it."""
        import importlib
        if getattr(self, "is_sub", False):
            return  # a module evaluated for its own rules only: imports are not transitive
        cache = getattr(Ctx, "_import_cache", None)
        if cache is None:
            cache = Ctx._import_cache = {}
        ck = (pid, self.repo, self.variant)
        sub = cache.get(ck)
        if sub is None:
            sub = Ctx(pid, self.tier, self.seed, repo=self.repo, quiet=True, variant=self.variant)
            sub.progs = self.progs
            sub.is_sub = True
            importlib.import_module(f"vf.props.{pid.lower()}").run(sub)
            sub.check_floors()
            cache[ck] = sub
        for k in sub.crates_used:
            if k not in self.crates_used:
                self.crates_used.append(k)
        self.functions |= sub.functions
        for rid, why in rules.items():
            r = sub.rules.get(rid)
            nid = f"{pid}:{rid}"
            if r is None:
                self.missing(nid, f"rule {rid} of {pid}")
                continue
            self.rule(nid, r["text"] + f" [shared with {pid}; necessary here because {why}]", floor=None, shape_dependent=r["shape_dependent"])
            for o in sub.obs:
                if o["rule"] != rid:
                    continue
                rec = dict(o)
                rec["rule"] = nid
                rec["key"] = f"{self.pid}|{nid}|{o['instance']}"
                self.rules[nid]["n"] += 1
                self.obs.append(rec)
                if o["ok"]:
                    self.rules[nid]["ok"] += 1
                else:
                    self.violations.append(rec)
            for v in sub.violations:
                if v["rule"] == rid and v["instance"] == "floor":
                    rec = dict(v)
                    rec["rule"] = nid
                    rec["key"] = f"{self.pid}|{nid}|floor"
                    self.violations.append(rec)

    def check_floors(self):
        for rid, r in self.rules.items():
            if r["floor"] is not None and r["n"] < r["floor"]:
                rec = {"rule": rid, "instance": "floor", "ok": False, "where": "",
                       "detail": f"rule matched {r['n']} instances, fewer than the {r['floor']} confirmed by hand "
                                 f"on the pinned tree (fail closed: a rule that matches nothing proves nothing)",
                       "key": f"{self.pid}|{rid}|floor"}
                self.violations.append(rec)

    # -------------------------------------------------------------- finish
    def known(self):
        out = {}
        fixed = []
        if os.path.exists(KNOWN):
            with open(KNOWN) as f:
                for line in f:
                    line = line.strip()
                    if not line or line.startswith("#"):
                        continue
                    if line.startswith("fixed:"):
                        fixed.append(line)
                        continue
                    rec = json.loads(line)
                    if rec.get("property") != self.pid:
                        continue
                    if rec.get("status") == "open":
                        out[rec["key"]] = rec
        return out, fixed

    def finish(self, selftest=None):
        self.check_floors()
        known, _fixed = self.known()
        real = []
        kf = []
        seen_keys = set()
        for v in self.violations:
            if v["key"] in seen_keys:
                continue
            seen_keys.add(v["key"])
            if v["key"] in known:
                kf.append((v, known[v["key"]]))
            else:
                real.append(v)
        os.makedirs(EVID, exist_ok=True)
        n_obs = len(self.obs)
        n_ok = sum(1 for o in self.obs if o["ok"])
        distinct = len({o["key"] for o in self.obs})
        rules_txt = "; ".join(f"{rid}: {r['text']}" for rid, r in self.rules.items())
        cov = {
            "explanation": self.explanation,
            "not_decided": self.not_decided,
            "evaluations": n_obs,
            "distinct_nontrivial": distinct,
            "rule": "An evaluation is one rule instance (a call site, access site, path obligation or "
                    "trait obligation found in the MIR/type facts of the current /repo tree). It is counted "
                    "as distinct+non-trivial when its (rule, function, site-role) key is unique, i.e. the rule "
                    "had a concrete construct to decide there. Rules: " + rules_txt,
            "obligations": n_obs,
            "discharged": n_ok,
            "open_known_findings": len(kf),
            "samples": self.samples[:40],
            "checker_cmd": f"./check {self.pid} --tier {self.tier}",
            "trusted_base": [
                "rustc nightly MIR construction, drop elaboration and trait solver",
                "factgen fact extraction (/verif/factgen)",
                "the rule tables in /verif/vf/props and DESIGN.md",
            ],
            "per_rule": {rid: {"instances": r["n"], "held": r["ok"], "floor": r["floor"],
                               "shape_dependent": r["shape_dependent"]} for rid, r in self.rules.items()},
            "functions_analysed": len(self.functions),
            "crates": self.crates_used,
            "facts_regenerated": [k for k, v in self.fresh.items() if v],
            "exhaustive": False,
        }
        cov.update(self.extra)
        if selftest is not None:
            cov["selftest"] = selftest
        ev = {
            "property_id": self.pid,
            "tier": self.tier,
            "seed": self.seed,
            "level": "other",
            "coverage": cov,
            "assumptions": self.assumptions + [
                "only the lib target, non-test cfg, dev profile of the anchored crates is analysed",
                "necessary conditions only: the behaviour over all histories/schedules is not decided",
            ],
            "wall_s": round(time.time() - self.t0, 3),
            "violations": len(real),
            "known_findings": [{"key": v["key"], "where": v["where"], "what": k.get("what", "")} for v, k in kf],
        }
        path = os.path.join(EVID, f"{self.pid}.json")
        tmp = path + ".tmp"
        with open(tmp, "w") as f:
            json.dump(ev, f, indent=1)
        os.replace(tmp, path)
        for rid, r in self.rules.items():
            self.log(f"rule {rid}: {r['ok']}/{r['n']} held" + (f" (floor {r['floor']})" if r["floor"] else ""))
        for v, k in kf:
            print(f"KNOWN-FINDING: property={self.pid} {v['key']} {k.get('what','')} [{v['where']}]", flush=True)
        # known findings that no longer reproduce are reported (informational)
        present = {v["key"] for v, _ in kf}
        for key in known:
            if key not in present:
                self.log(f"note: listed finding no longer present: {key}")
        if real:
            rp = os.path.join(EVID, f"{self.pid}.violations.json")
            with open(rp, "w") as f:
                json.dump(real, f, indent=1)
            for v in real:
                print(f"  violation {v['key']}\n    at {v['where']}\n    {v['detail']}", flush=True)
            print(f"VIOLATION property={self.pid} replay={rp}", flush=True)
            return 1
        self.log(f"ok: {n_ok}/{n_obs} obligations held, {len(kf)} known findings, {ev['wall_s']}s")
        return 0

"""C11 - Linux hardware inventory equals what the kernel's text interfaces describe (many_cpus_impl + cpulist) - narrow.

Only the joins, fall-backs and codec pairings that are visible in the MIR are decided; see EXPL / NOT."""
import re

from ..analysis import Slice, switch_guards, calls_to, closure_capture_ops
from ..mir import callee_key, op_local, op_place, place_fields, resolve_const, strip_generics

EXPL = ("Decides structural necessary conditions of C11 on MIR of many_cpus_impl::pal::linux::{platform,cpu_mask} and cpulist: "
        "(R1) the reported processors are the cpuinfo records that pass a membership test against the process's allowed list, "
        "with id = the record's index; (R2) is_active comes from the per-processor online file of the same index with an "
        "absent file meaning online, and the public list filters on is_active; (R3) the memory region is the key of the node "
        "whose member list contains the same index, with a non-panicking default; (R4) the maxima are maxima (not counts) of the "
        "possible -> online -> enumerated fall-back chain, and the node table and the region maximum read the same source; "
        "(R5) the processor-time quota is min(processor count, quota/period), v2 before v1, quota and period not swapped; "
        "(R6) no optional kernel file's absence reaches a panicking extractor; (R7) cpuinfo keys are compared after lower-casing "
        "against lower-case constants, an unreadable bogomips is None, a record without index is skipped; (R8) the id-list codec: "
        "parse splits on the separators emit writes, sorts and de-duplicates; emit groups a sorted, de-duplicated sequence, "
        "consumes exactly the grouped elements, and never computes an intermediate larger than the range end it renders "
        "(symbolic linear forms over group start/len); (R9) the affinity mask: bit position and processor id are inverse "
        "over one word-width constant, insert never narrows, equality pads the narrower mask.")
NOT = ("Not decided: equality between any concrete parsed text and the reported inventory, number parsing, float arithmetic "
       "of the quota, anything about inputs the rules' slices do not reach.")

PLAT = "many_cpus_impl::pal::linux::platform::BuildTargetPlatform"
PANICKING = ("Option::expect", "Option::unwrap", "Result::expect", "Result::unwrap", "Option::unwrap_unchecked", "Result::unwrap_unchecked",
             "Result::expect_err", "Result::unwrap_err")
OPTIONAL_FILES = ("get_possible_cpus_contents", "get_online_cpus_contents", "get_numa_node_possible_contents",
                  "get_numa_node_cpulist_contents", "get_cpu_online_contents", "get_proc_self_cgroup",
                  "get_v2_cgroup_cpu_quota_and_period", "get_v1_cgroup_cpu_quota", "get_v1_cgroup_cpu_period")


def last(k, n=1):
    return "::".join(strip_generics(k).split("::")[-n:])


def closure_bodies_of_call(prog, body, t):
    """Closure bodies passed as arguments of call terminator t."""
    out = []
    for a in t["args"]:
        l = op_local(a)
        if l is None:
            continue
        for ck in body.local_ty(l).get("closures", []):
            cb = prog.by_key.get(strip_generics(ck))
            if cb:
                out.append(cb[0])
    return out


def nested(prog, body):
    return [body] + prog.closures_of(body)


def calls_named(body, *methods):
    return [(bb, t) for bb, t in body.calls() if t["callee"].get("method") in methods]


def slice_calls(body, op):
    sl = Slice(body).run(op)
    return sl, {last(k) for k, _b, _t in sl["calls"]}


def reads_field_of_arg(body, op, field_suffix):
    """Does `op` derive from a place mentioning a field whose name ends with field_suffix?"""
    sl = Slice(body).run(op)
    return any(f.endswith(field_suffix) for f in sl["fields"])


# ------------------------------------------------------------------------------------------------ platform rules
def platform_rules(ctx, prog):
    lap = prog.one("platform::BuildTargetPlatform::load_all_processors")
    if lap is None:
        ctx.missing("R1.allowed-filter", "BuildTargetPlatform::load_all_processors")
        return
    ctx.fn(lap)
    # ---------------- R1: allowed filter
    maps = [(bb, t) for bb, t in lap.calls() if t["callee"].get("method") == "map" and "ProcessorImpl" in t["callee"].get("full", "")]
    if len(maps) != 1:
        ctx.missing("R1.allowed-filter", f"exactly one NonEmpty::map producing ProcessorImpl in load_all_processors (found {len(maps)})")
        return
    mbb, mt = maps[0]
    sl = Slice(lap).run(mt["args"][0])
    filt = [(k, bb, t) for k, bb, t in sl["calls"] if t["callee"].get("method") in ("filter", "retain", "filter_map")]
    srcs = {last(k) for k, _b, _t in sl["calls"]}
    ok = len(filt) == 1 and "get_cpuinfo" in srcs
    det = [f"records mapped to ProcessorImpl derive from get_cpuinfo: {'get_cpuinfo' in srcs}; filter calls in that derivation: {len(filt)}"]
    if ok:
        _k, fbb, ft = filt[0]
        cbs = closure_bodies_of_call(prog, lap, ft)
        ok = len(cbs) == 1
        if ok:
            c = cbs[0]
            ctx.fn(c)
            cont = calls_named(c, "contains")
            ok = len(cont) == 1 and len(list(c.calls())) == 1
            if ok:
                ct = cont[0][1]
                s0 = Slice(c).run(ct["args"][0])
                s1 = Slice(c).run(ct["args"][1])
                # receiver: a captured upvar; element: the record's index
                caps = closure_capture_ops(lap, c.key)
                cap_src = set()
                for _bb, ops in caps:
                    for o in ops:
                        cap_src |= slice_calls(lap, o)[1]
                elem_index = any(f.endswith("CpuInfo::index") for f in s1["fields"]) and 2 in s1["args"]
                ok = bool(s0["upvars"]) and "get_processors_allowed_for_current_process" in cap_src and elem_index
                # result is returned unnegated
                ret_direct = ct["dest"]["l"] == 0 and not ct["dest"]["p"]
                ok = ok and ret_direct
                det.append(f"filter closure = allowed.contains(&info.index) returned as is: receiver captured from get_processors_allowed_for_current_process "
                           f"{'get_processors_allowed_for_current_process' in cap_src}, element is CpuInfo::index {elem_index}, unnegated {ret_direct}")
            else:
                det.append(f"filter closure has {len(list(c.calls()))} calls, {len(cont)} contains")
    ctx.ob("R1.allowed-filter", "load_all_processors", ok, lap.loc(), "; ".join(det))

    # the map closure
    mcs = closure_bodies_of_call(prog, lap, mt)
    if len(mcs) != 1:
        ctx.missing("R2.online-join", "the closure building ProcessorImpl")
        return
    mc = mcs[0]
    ctx.fn(mc)
    aggr = None
    for blk in mc.blocks:
        for s in blk.stmts:
            if s["k"] == "assign" and s["rv"]["k"] == "aggr" and (s["rv"].get("adt") or "").endswith("ProcessorImpl"):
                aggr = (blk.idx, s)
    if aggr is None:
        ctx.missing("R2.online-join", "ProcessorImpl aggregate in the map closure")
        return
    adt = prog.adts.get(aggr[1]["rv"]["adt"]) or next((a for p, a in prog.adts.items() if p.endswith("processor::ProcessorImpl")), None)
    fnames = [f["name"] for f in (adt["variants"][0]["fields"] if adt and "variants" in adt else (adt or {}).get("fields", []))] if adt else []
    ops = aggr[1]["rv"]["ops"]
    fld = dict(zip(fnames, ops)) if len(fnames) == len(ops) else {}
    if not fld:
        ctx.missing("R2.online-join", f"field names of ProcessorImpl ({len(fnames)} names for {len(ops)} operands)")
        return

    def from_index(op):
        s = Slice(mc).run(op)
        return any(f.endswith("CpuInfo::index") for f in s["fields"]) and 2 in s["args"]

    # ---------------- R1b id provenance
    sid = Slice(mc).run(fld["id"])
    ok = any(f.endswith("CpuInfo::index") for f in sid["fields"]) and not sid["calls"] and not sid["binops"]
    ctx.ob("R1.allowed-filter", "ProcessorImpl.id=info.index", ok, mc.loc(aggr[1]["span"]), "the reported id is the cpuinfo record's index, copied unchanged")

    # ---------------- R2 online
    so, names = slice_calls(mc, fld["is_active"])
    oc = [(k, bb, t) for k, bb, t in so["calls"] if last(k) == "get_cpu_online_contents"]
    ok = len(oc) == 1
    det = [f"is_active derives from get_cpu_online_contents: {ok}"]
    if ok:
        ot = oc[0][2]
        ok = from_index(ot["args"][1])
        det.append(f"queried with the record's own index: {ok}")
        comb = [(k, bb, t) for k, bb, t in so["calls"] if t["callee"].get("method") in ("is_none_or", "map_or", "is_some_and", "is_none", "is_some", "unwrap_or", "map_or_else", "unwrap_or_default", "unwrap_or_else")]
        absent_online = False
        cmp_one = False
        for k, bb, t in comb:
            m = t["callee"].get("method")
            if m == "is_none_or":
                absent_online = True
            elif m == "map_or":
                c = resolve_const(mc, t["args"][1])
                absent_online = bool(c and c.get("val") == 1)
            for cb in closure_bodies_of_call(prog, mc, t):
                ctx.fn(cb)
                eqs = [(b2, t2) for b2, t2 in cb.calls() if t2["callee"].get("method") in ("eq", "ne")]
                trims = calls_named(cb, "trim", "trim_end", "trim_ascii", "trim_ascii_end")
                if len(eqs) == 1 and eqs[0][1]["callee"].get("method") == "eq":
                    txt = _const_strs(cb, eqs[0][1])
                    cmp_one = txt == ["1"] and bool(trims) and eqs[0][1]["dest"]["l"] == 0
                    det.append(f"online test closure compares the trimmed contents with {txt}")
        ok = ok and absent_online and cmp_one
        det.append(f"absent file means online: {absent_online}")
    ctx.ob("R2.online-join", "ProcessorImpl.is_active", ok, mc.loc(aggr[1]["span"]), "; ".join(det))

    gap = prog.one("platform::BuildTargetPlatform::get_active_processors")
    gall = [b for b in prog.find("get_all_processors") if b.impl_trait and "Platform" in b.impl_trait and "BuildTargetPlatform" in (b.impl_self or "")]
    if gap is None or len(gall) != 1:
        ctx.missing("R2.online-join", "get_active_processors / Platform::get_all_processors for BuildTargetPlatform")
    else:
        okf = False
        det = []
        for c in prog.closures_of(gap):
            ctx.fn(c)
            fl = [(bb, t) for bb, t in c.calls() if t["callee"].get("method") == "filter"]
            for bb, t in fl:
                s2, n2 = slice_calls(c, t["args"][0])
                fcs = closure_bodies_of_call(prog, c, t)
                if "get_all_processors_impl" in n2 and len(fcs) == 1:
                    f = fcs[0]
                    # the predicate returns the is_active field unnegated
                    r = Slice(f).run({"k": "copy", "place": {"l": 0, "p": []}})
                    okf = any(x.endswith("ProcessorImpl::is_active") for x in r["fields"]) and not r["binops"] and not list(f.calls())
                    det.append(f"get_active_processors filters get_all_processors_impl() on is_active (unnegated): {okf}")
        ga = gall[0]
        ctx.fn(ga)
        s3, n3 = slice_calls(ga, {"k": "copy", "place": {"l": 0, "p": []}})
        okg = "get_active_processors" in n3 and "get_all_processors_impl" not in n3 and "load_all_processors" not in n3
        det.append(f"Platform::get_all_processors returns get_active_processors(): {okg}")
        ctx.ob("R2.online-join", "public-list-is-the-active-list", okf and okg, gap.loc(), "; ".join(det))

    # ---------------- R3 region join
    sr, rn = slice_calls(mc, fld["memory_region_id"])
    fm = [(k, bb, t) for k, bb, t in sr["calls"] if t["callee"].get("method") in ("find_map", "find", "position")]
    dfl = [(k, bb, t) for k, bb, t in sr["calls"] if t["callee"].get("method") in ("unwrap_or", "unwrap_or_default", "map_or", "unwrap_or_else")]
    pan = [last(k, 2) for k, bb, t in sr["calls"] if last(k, 2) in PANICKING]
    ok = len(fm) == 1 and len(dfl) == 1 and not pan
    det = [f"find_map sites {len(fm)}, defaulting extractor {[t['callee'].get('method') for _k, _b, t in dfl]}, panicking extractors {pan or 'none'}"]
    if ok:
        c0 = resolve_const(mc, dfl[0][2]["args"][1]) if len(dfl[0][2]["args"]) > 1 else None
        okd = bool(c0 and ("SINGLE_MEMORY_REGION_ID" in c0.get("text", "") or c0.get("val") == 0))
        fcs = closure_bodies_of_call(prog, mc, fm[0][2])
        okc = False
        if len(fcs) == 1:
            f = fcs[0]
            ctx.fn(f)
            cont = calls_named(f, "contains")
            if len(cont) == 1:
                ct = cont[0][1]
                a0 = Slice(f).run(ct["args"][0])
                a1 = Slice(f).run(ct["args"][1])
                # receiver: the node's member list (.1 of the visited pair), element: captured &info.index
                recv_members = 2 in a0["args"] and not a0["upvars"]
                caps = closure_capture_ops(mc, f.key)
                cap_index = any(from_index(o) for _bb, ops_ in caps for o in ops_)
                elem_cap = bool(a1["upvars"]) and cap_index
                # the Some(..) result carries the node key (.0 of the pair), only on the `true` arm
                some_ok = False
                for blk in f.blocks:
                    for s in blk.stmts:
                        if s["k"] == "assign" and s["rv"]["k"] == "aggr" and s["rv"].get("variant") == "Some":
                            sk = Slice(f).run(s["rv"]["ops"][0])
                            key_side = 2 in sk["args"] and not sk["upvars"] and not sk["calls"]
                            gs = switch_guards(f, blk.idx)
                            on_true = any(g["discr_local"] is not None and g["allowed"] and 0 not in g["allowed"] for g in gs)
                            some_ok = key_side and on_true and _tuple_side(f, s["rv"]["ops"][0]) == 0 and _tuple_side(f, ct["args"][0]) == 1
                okc = recv_members and elem_cap and some_ok
                det.append(f"closure: members.contains(&info.index) {recv_members and elem_cap}; yields the node key on the true arm {some_ok}")
        ok = okd and okc
        det.append(f"default is SINGLE_MEMORY_REGION_ID {okd}")
    ctx.ob("R3.region-join", "ProcessorImpl.memory_region_id", ok, mc.loc(aggr[1]["span"]), "; ".join(det))

    # ---------------- R4 maxima
    gmp = prog.one("platform::BuildTargetPlatform::get_max_processor_id")
    gmr = prog.one("platform::BuildTargetPlatform::get_max_memory_region_id")
    gnn = prog.one("platform::BuildTargetPlatform::get_numa_nodes")
    if gmp is None or gmr is None or gnn is None:
        ctx.missing("R4.maxima", "get_max_processor_id / get_max_memory_region_id / get_numa_nodes")
    else:
        bodies = nested(prog, gmp)
        chain = []
        for b in bodies:
            ctx.fn(b)
            for bb, t in sorted(b.calls(), key=lambda x: x[1]["span"]["line"]):
                m = t["callee"].get("method")
                if m in ("get_possible_processor_ids", "get_online_processor_ids", "get_all_processors_impl", "get_active_processors"):
                    chain.append(m)
        ok = chain == ["get_possible_processor_ids", "get_online_processor_ids", "get_all_processors_impl"]
        det = [f"fall-back chain {chain}"]
        # every value returned from the initialiser is a maximum of the corresponding source
        n_max = 0
        bad = []
        for b in bodies:
            for bb, t in b.calls():
                m = t["callee"].get("method")
                if m in ("get_possible_processor_ids", "get_online_processor_ids", "get_all_processors_impl"):
                    # find consumers of this source: the calls whose arg slices contain this call
                    cons = set()
                    for bb2, t2 in b.calls():
                        if t2 is t:
                            continue
                        for a in t2["args"]:
                            sl2 = Slice(b).run(a)
                            if any(ct is t for _k, _b, ct in sl2["calls"]):
                                cons.add(t2["callee"].get("method"))
                    if cons & {"maximum", "max"}:
                        n_max += 1
                    if cons & {"len", "minimum", "min", "first", "last", "count", "head"}:
                        bad.append((m, sorted(cons)))
        ok = ok and n_max == 3 and not bad
        det.append(f"sources reduced with a maximum: {n_max}/3; other reductions {bad or 'none'}")
        ctx.ob("R4.maxima", "max_processor_id", ok, gmp.loc(), "; ".join(det))

        bodies = nested(prog, gmr)
        src = [t["callee"].get("method") for b in bodies for _bb, t in b.calls() if (t["callee"].get("method") or "").startswith("get_") and t["callee"].get("method") != "get_or_init"]
        red = [t for b in bodies for _bb, t in b.calls() if t["callee"].get("method") in ("map_or", "map_or_else", "map")]
        okr = src == ["get_possible_memory_region_ids"] and len(red) == 1
        det = [f"sources {src}"]
        if okr:
            rb = [b for b in bodies if any(t is red[0] for _bb, t in b.calls())][0]
            c0 = resolve_const(rb, red[0]["args"][1])
            okd = bool(c0 and ("SINGLE_MEMORY_REGION_ID" in c0.get("text", "") or c0.get("val") == 0))
            fcs = closure_bodies_of_call(prog, rb, red[0])
            okm = len(fcs) == 1 and [t["callee"].get("method") for _b, t in fcs[0].calls()] == ["maximum"]
            okr = okd and okm
            det.append(f"default SINGLE_MEMORY_REGION_ID {okd}; reduction is maximum {okm}")
        nn_src = [t["callee"].get("method") for _bb, t in gnn.calls() if (t["callee"].get("method") or "").startswith("get_")]
        oks = nn_src == ["get_possible_memory_region_ids"]
        det.append(f"node table enumerates the same source: {nn_src}")
        ctx.ob("R4.maxima", "max_memory_region_id", okr and oks, gmr.loc(), "; ".join(det))
        # node key = the node whose list was read
        okk = False
        for c in prog.closures_of(gnn):
            ctx.fn(c)
            rd = calls_named(c, "get_numa_node_cpulist_contents")
            if len(rd) != 1:
                continue
            sarg = Slice(c).run(rd[0][1]["args"][1])
            for blk in c.blocks:
                for s in blk.stmts:
                    if s["k"] == "assign" and s["rv"]["k"] == "aggr" and s["rv"].get("tuple") and len(s["rv"]["ops"]) == 2:
                        sk = Slice(c).run(s["rv"]["ops"][0])
                        sv, nv = slice_calls(c, s["rv"]["ops"][1])
                        if 2 in sk["args"] and 2 in sarg["args"] and not sk["calls"] and "get_numa_node_cpulist_contents" in nv and "parse" in nv:
                            okk = True
        ctx.ob("R4.maxima", "node-table-keyed-by-the-node-read", okk, gnn.loc(), "each (node, members) entry pairs the node id with the parsed member list of that same node's cpulist file")

    # ---------------- R5 quota
    mpt = [b for b in prog.find("max_processor_time") if "BuildTargetPlatform" in (b.impl_self or "")]
    cg = prog.one("platform::BuildTargetPlatform::cgroups_max_processor_time")
    gq = prog.one("platform::BuildTargetPlatform::get_cgroup_cpu_quota_and_period_us")
    if len(mpt) != 1 or cg is None or gq is None:
        ctx.missing("R5.quota", "max_processor_time / cgroups_max_processor_time / get_cgroup_cpu_quota_and_period_us")
    else:
        m = mpt[0]
        ctx.fn(m)
        mins = calls_named(m, "min")
        ok = len(mins) == 1
        det = [f"min sites {len(mins)}"]
        if ok:
            a, na = slice_calls(m, mins[0][1]["args"][0])
            b_, nb = slice_calls(m, mins[0][1]["args"][1])
            both = (("len" in na and "get_all_processors" in na and "cgroups_max_processor_time" in nb) or
                    ("len" in nb and "get_all_processors" in nb and "cgroups_max_processor_time" in na))
            # the unconstrained return is the count
            rets = Slice(m).run({"k": "copy", "place": {"l": 0, "p": []}})
            others = {last(k) for k, _b, _t in rets["calls"]}
            ok = both and not ({"max", "clamp"} & others)
            det.append(f"min(count of get_all_processors(), cgroup limit): {both}")
        ctx.ob("R5.quota", "max_processor_time=min(count,cgroup)", ok, m.loc(), "; ".join(det))
        okd = False
        for c in prog.closures_of(cg) + _fn_items_used(prog, cg):
            ctx.fn(c)
            for blk in c.blocks:
                for s in blk.stmts:
                    if s["k"] == "assign" and s["rv"]["k"] == "binop" and s["rv"]["op"] == "Div":
                        okd = _tuple_side(c, s["rv"]["a"]) == 0 and _tuple_side(c, s["rv"]["b"]) == 1
        ctx.ob("R5.quota", "limit=quota/period", okd, cg.loc(), "the cgroup limit divides the first component (quota) by the second (period)")
        ctx.fn(gq)
        oe = calls_named(gq, "or_else", "or")
        ok = len(oe) == 1
        if ok:
            s0, n0 = slice_calls(gq, oe[0][1]["args"][0])
            inner = {t["callee"].get("method") for cb in closure_bodies_of_call(prog, gq, oe[0][1]) for _b, t in cb.calls()}
            ok = "get_v2_cgroup_cpu_quota_and_period_us" in n0 and inner == {"get_v1_cgroup_cpu_quota_and_period_us"}
        ctx.ob("R5.quota", "v2-before-v1", ok, gq.loc(), "the v2 reading is preferred; v1 is only the fall-back")
        for name, spec in (("parse_v2_cgroup_cpu_quota_and_period_us", "v2"), ("parse_v1_cgroup_cpu_quota_and_period_us", "v1")):
            b = prog.one("platform::" + name)
            if b is None:
                ctx.missing("R5.quota", name)
                continue
            ctx.fn(b)
            okp = False
            det = ""
            for blk in b.blocks:
                for s in blk.stmts:
                    if s["k"] == "assign" and s["rv"]["k"] == "aggr" and s["rv"].get("tuple") and len(s["rv"]["ops"]) == 2:
                        q = Slice(b).run(s["rv"]["ops"][0])
                        p = Slice(b).run(s["rv"]["ops"][1])
                        if not any(last(k) == "parse" for k, _b, _t in q["calls"]):
                            continue
                        if spec == "v1":
                            okp = q["args"] == {1} and p["args"] == {2}
                            det = f"(quota, period) parsed from parameters {sorted(q['args'])}, {sorted(p['args'])}"
                        else:
                            sp = [t for k, _b, t in q["calls"] if last(k) == "split_once"]
                            okp = bool(sp) and _split_side(b, s["rv"]["ops"][0]) == 0 and _split_side(b, s["rv"]["ops"][1]) == 1
                            det = f"(quota, period) parsed from sides {_split_side(b, s['rv']['ops'][0])}, {_split_side(b, s['rv']['ops'][1])} of split_once"
            ctx.ob("R5.quota", f"{spec}-field-order", okp, b.loc(), det or "no (quota, period) pair found")

    # ---------------- R6 absence tolerated
    seen_files = set()
    for b in prog.bodies:
        if "pal::linux::platform" not in b.key or b.file.endswith("/tests.rs"):
            continue
        for bb, t in b.calls():
            m = t["callee"].get("method")
            if m not in OPTIONAL_FILES or "Filesystem" not in (callee_key(t["callee"]) + str(t["callee"].get("trait", "")) + t["callee"].get("full", "")):
                continue
            seen_files.add(m)
            ctx.fn(b)
            # forward: every call consuming the Option (transitively through moves) must not be a panicking extractor
            bad = _forward_panicking(prog, b, t["dest"]["l"])
            ctx.ob("R6.absence-tolerated", f"{last(b.key, 2)}:{m}", not bad, b.loc(t["span"]),
                   f"the Option read from the optional kernel file never reaches expect/unwrap: {bad or 'ok'}")
    for m in OPTIONAL_FILES:
        if m not in seen_files:
            ctx.missing("R6.absence-tolerated", f"call of Filesystem::{m} in platform.rs")
    pk = prog.one("platform::parse_kernel_id_list")
    if pk is None:
        ctx.missing("R6.absence-tolerated", "parse_kernel_id_list")
    else:
        ctx.fn(pk)
        pan = [last(callee_key(t["callee"]), 2) for _bb, t in pk.calls() if last(callee_key(t["callee"]), 2) in PANICKING]
        ctx.ob("R6.absence-tolerated", "parse_kernel_id_list", not pan, pk.loc(), f"an absent, unreadable or empty id mask yields None, never a panic: panicking extractors {pan or 'none'}")

    # ---------------- R7 cpuinfo keys
    gci = prog.one("platform::BuildTargetPlatform::get_cpuinfo")
    if gci is None:
        ctx.missing("R7.cpuinfo-keys", "get_cpuinfo")
        return
    keyc = None
    for c in prog.closures_of(gci):
        if calls_named(c, "to_ascii_lowercase", "to_lowercase"):
            keyc = c
    if keyc is None:
        ctx.missing("R7.cpuinfo-keys", "the record closure that lower-cases keys")
        return
    ctx.fn(keyc)
    eqs = [(bb, t) for bb, t in keyc.calls() if t["callee"].get("method") == "eq" and "str" in t["callee"].get("full", "")]
    consts = []
    ok_low = True
    for bb, t in eqs:
        strs = _const_strs(keyc, t)
        consts += strs
        other = [a for a in t["args"] if not _const_strs(keyc, {"args": [a], "callee": t["callee"]})]
        for a in other:
            _s, n = slice_calls(keyc, a)
            if not ({"to_ascii_lowercase", "to_lowercase"} & n):
                ok_low = False
    okc = bool(consts) and all(s == s.lower() for s in consts)
    ctx.ob("R7.cpuinfo-keys", "lowercase-compare", ok_low and okc and len(eqs) >= 5, keyc.loc(),
           f"{len(eqs)} key comparisons, every compared key derives from to_ascii_lowercase: {ok_low}; constants {consts} all lower-case: {okc}")
    # bogomips: parse failure is None
    bog = None
    idx_assign_pan = []
    for bb, t in keyc.calls():
        if t["callee"].get("method") == "parse" and "f32" in t["callee"].get("full", "") + str(t["callee"].get("targs")):
            bog = (bb, t)
    if bog is None:
        ctx.missing("R7.cpuinfo-keys", "bogomips parse::<f32>")
    else:
        bad = _forward_panicking(prog, keyc, bog[1]["dest"]["l"])
        ctx.ob("R7.cpuinfo-keys", "bogomips-unreadable-is-none", not bad, keyc.loc(bog[1]["span"]), f"the bogomips parse result never reaches expect/unwrap: {bad or 'ok'}")
    # a record without index is skipped: the discriminant test on `index` leads to a None return, and no panicking extractor consumes it
    idx_locals = [i for i, l in enumerate(keyc.locals) if l.get("name") == "index" and l["ty"]["s"].startswith("std::option::Option<u32")]
    ok_skip = False
    bad = []
    for il in idx_locals:
        bad += _forward_panicking(prog, keyc, il)
        for blk in keyc.blocks:
            for s in blk.stmts:
                if s["k"] == "assign" and s["rv"]["k"] == "discr" and s["rv"]["place"]["l"] == il:
                    ok_skip = True
            t = blk.term
            if t["k"] == "call" and t["callee"].get("method") == "branch" and t["args"] and _root_local(keyc, t["args"][0]) == il:
                ok_skip = True
    ctx.ob("R7.cpuinfo-keys", "record-without-index-skipped", bool(idx_locals) and ok_skip and not bad, keyc.loc(),
           f"`index` is tested (not unwrapped) before the record is built: tested {ok_skip}, panicking extractors on it {bad or 'none'}")


def _fn_items_used(prog, body):
    """Local functions that `body` hands to an adaptor by name (`.map(convert)`) - the fn-item spelling of a closure."""
    out = []
    seen = set()
    for l in body.locals:
        for fd in l["ty"].get("fndefs", []):
            k = strip_generics(fd)
            cb = prog.by_key.get(k)
            if cb and k not in seen and cb[0].crate == body.crate and cb[0].key != body.key:
                seen.add(k)
                out.append(cb[0])
    for bb, t in body.calls():
        for ta in t["callee"].get("targs", []):
            for fd in (ta.get("fndefs", []) if isinstance(ta, dict) else []):
                k = strip_generics(fd)
                cb = prog.by_key.get(k)
                if cb and k not in seen and cb[0].crate == body.crate and cb[0].key != body.key:
                    seen.add(k)
                    out.append(cb[0])
    return out


def _tuple_side(body, op, depth=8):
    """0 / 1 when the operand is (a copy of) the first / second component of a 2-tuple-like place, else None."""
    pl = op_place(op)
    while pl is not None and depth:
        depth -= 1
        idxs = [e["i"] for e in pl["p"] if isinstance(e, dict) and "i" in e]
        if idxs:
            return idxs[-1]
        d = body.unique_def(pl["l"])
        if not d or d[2] != "assign":
            # `as f64` of a call result etc.
            if d and d[2] == "call" and d[3]["callee"].get("method") in ("deref", "clone", "borrow", "as_ref") and d[3]["args"]:
                pl = op_place(d[3]["args"][0])
                continue
            return None
        rv = d[3]["rv"]
        if rv["k"] in ("use", "cast"):
            pl = op_place(rv["op"])
        elif rv["k"] in ("ref",):
            pl = rv["place"]
        else:
            return None
    return None


def _split_side(body, op):
    """Which side (0/1) of a `split_once` pair a parsed value comes from: follows the value back through parse/ok/?-plumbing."""
    seen = set()
    todo = [op]
    sides = set()
    while todo:
        o = todo.pop()
        pl = op_place(o)
        if pl is None:
            continue
        idxs = [e["i"] for e in pl["p"] if isinstance(e, dict) and "i" in e and e.get("f", "").startswith("(")] if False else None
        key = (pl["l"], str(pl["p"]))
        if key in seen:
            continue
        seen.add(key)
        ty = body.local_ty(pl["l"])["s"]
        if ty.startswith("(&str, &str)") or ty.startswith("(&'") or re.match(r"^\(&.*str, &.*str\)$", ty):
            ii = [e["i"] for e in pl["p"] if isinstance(e, dict) and "i" in e]
            if ii:
                sides.add(ii[0])
                continue
        for kind, bb, payload, dfs in Slice(body).alldefs().get(pl["l"], []):
            if kind == "assign":
                rv = payload["rv"]
                if rv["k"] in ("use", "cast"):
                    todo.append(rv["op"])
                elif rv["k"] in ("ref", "discr"):
                    todo.append({"k": "copy", "place": rv["place"]})
                elif rv["k"] == "aggr":
                    todo.extend(rv["ops"])
            else:
                todo.extend(payload["args"][:1])
    return sides.pop() if len(sides) == 1 else None


def _const_strs(body, t):
    """String constants among the arguments of call t (literals, and literals inside promoted constants)."""
    out = []
    proms = {p["idx"]: p["consts"] for p in body.d.get("promoted", [])}
    for a in t["args"]:
        c = resolve_const(body, a)
        if not c:
            continue
        srcs = [c.get("text", "")]
        if "promoted" in c:
            srcs = [pc.get("disp", "") for pc in proms.get(c["promoted"], [])]
        for src in srcs:
            out += re.findall(r'"((?:[^"\\]|\\.)*)"', src)
    return list(dict.fromkeys(out))


def _forward_panicking(prog, body, local, depth=0):
    """Panicking extractors reached by the value in `local` through moves, copies, refs, `?`-style matches and
    adaptor calls that keep the absence (map, and_then, as_ref, as_deref, ok, trim ...)."""
    bad = []
    seen = set()
    todo = [local]
    KEEP = {"map", "and_then", "as_ref", "as_deref", "as_mut", "ok", "filter", "cloned", "copied", "branch", "zip", "take", "inspect"}
    while todo:
        l = todo.pop()
        if l in seen:
            continue
        seen.add(l)
        for blk in body.blocks:
            for s in blk.stmts:
                if s["k"] != "assign":
                    continue
                rv = s["rv"]
                src = None
                if rv["k"] in ("use", "cast"):
                    src = op_place(rv["op"])
                elif rv["k"] in ("ref",):
                    src = rv["place"]
                if src is not None and src["l"] == l and not any(isinstance(e, dict) and "v" in e for e in src["p"]):
                    todo.append(s["place"]["l"])
            t = blk.term
            if t["k"] != "call" or not t["args"]:
                continue
            a0 = op_place(t["args"][0])
            if a0 is None or a0["l"] != l or a0["p"]:
                continue
            k2 = last(callee_key(t["callee"]), 2)
            if k2 in PANICKING:
                bad.append(f"{k2}@{body.loc(t['span'])}")
            elif t["callee"].get("method") in KEEP:
                todo.append(t["dest"]["l"])
    return bad


# ------------------------------------------------------------------------------------------------ codec rules
def _template_literals(text):
    """Literal pieces of a `fmt::Arguments::new` byte template as printed by rustc (`const b"\\xc0\\x01,\\xc0\\x00"`).
    Grammar on this toolchain: 0xC0 = next argument, 0x00 = end, n (1..0x7f) = literal of n bytes. Returns None if unknown."""
    m = re.search(r'b"((?:[^"\\]|\\.)*)"', text)
    if not m:
        return None
    raw = m.group(1)
    bs = []
    i = 0
    while i < len(raw):
        if raw[i] == "\\":
            if raw[i + 1] == "x":
                bs.append(int(raw[i + 2:i + 4], 16))
                i += 4
            else:
                bs.append({"n": 10, "t": 9, "\\": 92, '"': 34, "'": 39, "0": 0, "r": 13}.get(raw[i + 1], ord(raw[i + 1])))
                i += 2
        else:
            bs.append(ord(raw[i]))
            i += 1
    out = []
    i = 0
    while i < len(bs):
        b = bs[i]
        if b == 0xC0:
            out.append(None)
            i += 1
        elif b == 0:
            i += 1
            if i != len(bs):
                return None
        elif b < 0x80:
            out.append(bytes(bs[i + 1:i + 1 + b]).decode("latin1"))
            i += 1 + b
        else:
            return None
    return out


class Lin:
    """Symbolic value a*S + b*L + c over the group start S and the group length L (L >= 1)."""

    def __init__(self, s=0, l=0, c=0):
        self.s, self.l, self.c = s, l, c

    def __add__(self, o):
        return Lin(self.s + o.s, self.l + o.l, self.c + o.c)

    def __sub__(self, o):
        return Lin(self.s - o.s, self.l - o.l, self.c - o.c)

    def __repr__(self):
        parts = []
        if self.s:
            parts.append(("" if self.s == 1 else str(self.s) + "*") + "start")
        if self.l:
            parts.append(("" if self.l == 1 else str(self.l) + "*") + "len")
        if self.c or not parts:
            parts.append(str(self.c))
        return " + ".join(parts).replace("+ -", "- ")


def lin_eval(body, op, atoms, depth=12):
    """Evaluate an operand to a Lin; atoms maps local -> Lin for the roots. None when unknown."""
    if op is None or depth == 0:
        return None
    if op.get("k") == "const":
        return Lin(0, 0, op["val"]) if isinstance(op.get("val"), int) else None
    pl = op_place(op)
    if pl is None:
        return None
    if not pl["p"] and pl["l"] in atoms:
        return atoms[pl["l"]]
    if pl["p"]:
        key = (pl["l"], tuple(e["i"] for e in pl["p"] if isinstance(e, dict) and "i" in e))
        return atoms.get(key)
    d = body.unique_def(pl["l"])
    if not d:
        return None
    _bb, _i, kind, payload = d
    if kind == "assign":
        rv = payload["rv"]
        if rv["k"] in ("use", "cast"):
            return lin_eval(body, rv["op"], atoms, depth - 1)
        if rv["k"] == "binop" and rv["op"] in ("Add", "Sub", "AddUnchecked", "SubUnchecked", "AddWithOverflow", "SubWithOverflow"):
            a = lin_eval(body, rv["a"], atoms, depth - 1)
            b = lin_eval(body, rv["b"], atoms, depth - 1)
            if a is None or b is None:
                return None
            return a + b if rv["op"].startswith("Add") else a - b
        return None
    m = payload["callee"].get("method")
    args = payload["args"]
    if m in ("expect", "unwrap", "get") and args:
        return lin_eval(body, args[0], atoms, depth - 1)
    if m in ("checked_add", "checked_sub", "wrapping_add", "wrapping_sub", "saturating_add", "saturating_sub") and len(args) == 2:
        a = lin_eval(body, args[0], atoms, depth - 1)
        b = lin_eval(body, args[1], atoms, depth - 1)
        if a is None or b is None:
            return None
        return a + b if m.endswith("add") else a - b
    return None


def facade_agreement_rule(ctx, prog):
    """FilesystemFacade / BindingsFacade have one forwarding method per operation with a Real arm and a Mock arm: both arms of
    method m must call m (a copy-paste slip that makes the Real arm of the *period* reader open the *quota* file passes every
    mock-based test and reports every finite cgroup-v1 limit as exactly 1.0 processors)."""
    n = 0
    for b in prog.bodies:
        if "::tests" in b.key or b.is_closure or not ("Facade::" in b.key or "Facade as " in b.key) or "pal::linux" not in b.key:
            continue
        m = b.name
        fw = [(bb, t) for bb, t in b.calls() if not b.blocks[bb].cleanup and (t["callee"].get("trait") or "").split("::")[-1] in
              ("Filesystem", "Bindings") or (not b.blocks[bb].cleanup and t["callee"].get("method") and ("MockFilesystem" in callee_key(t["callee"]) or "MockBindings" in callee_key(t["callee"])
               or "BuildTargetFilesystem" in callee_key(t["callee"]) or "BuildTargetBindings" in callee_key(t["callee"])))]
        if not fw:
            continue
        n += 1
        other = sorted({t["callee"].get("method") for _bb, t in fw if t["callee"].get("method") != m})
        ctx.ob("R5.quota", f"facade.{m}.arms-forward-to-the-same-operation", not other, b.loc(),
               f"{len(fw)} forwarding call(s); operations other than `{m}`: {other or 'none'}")
    if n == 0:
        ctx.missing("R5.quota", "forwarding methods of the pal::linux facades")


def cgroup_path_rule(ctx, prog):
    """`/proc/self/cgroup` lines are `hierarchy:controllers:path` and the PATH may itself contain colons (containerd with the
    systemd cgroup driver: `...slice:cri-containerd:<id>`): the path is everything after the second colon. A parser that cuts the
    line at EVERY colon truncates such paths - the quota files are then looked up in a directory that does not exist and the
    quota silently reads as 'unlimited'."""
    bs = prog.find("parse_cgroup_name")
    bs = [b for b in bs if "::tests" not in b.key and not b.is_closure]
    if not bs:
        ctx.missing("R5.quota", "parse_cgroup_name")
        return
    b = bs[0]
    ctx.fn(b)
    bad = []
    for bd in [b] + prog.closures_of(b):
        for bb, t in bd.calls():
            m = t["callee"].get("method")
            if m in ("split", "rsplit", "split_terminator", "rsplit_terminator", "split_inclusive") and "str" in callee_key(t["callee"]) and len(t["args"]) >= 2:
                c = resolve_const(bd, t["args"][1])
                txt = (c or {}).get("text", "") if c else ""
                val = (c or {}).get("val")
                if val == 58 or "':'" in txt or '":"' in txt:
                    bad.append(f"{m}(':') at {bd.loc(t['span'])}")
    ctx.ob("R5.quota", "cgroup-path-keeps-its-colons", not bad, b.loc(),
           f"unbounded splits of the cgroup line at ':': {bad or 'none'} (splitn(3, ':') / split_once / a fixed prefix are the forms that keep the path whole)")


def codec_rules(ctx, prog):
    emit = prog.one("emit::emit")
    parse = prog.one("parse::parse")
    part = prog.one("parse::parse_part")
    rng = prog.one("parse::parse_range")
    if emit is None or parse is None or part is None or rng is None:
        ctx.missing("R8.codec", "cpulist::emit::emit / parse::parse / parse_part / parse_range")
        return
    for b in (emit, parse, part, rng):
        ctx.fn(b)
    # ---- separators
    emitted = []
    unknown = False
    for bb, t in emit.calls():
        k = callee_key(t["callee"])
        if k.endswith("String::push") and len(t["args"]) == 2:
            c = resolve_const(emit, t["args"][1])
            if c and isinstance(c.get("val"), int):
                emitted.append(chr(c["val"]))
            else:
                unknown = True
        elif k.endswith("String::push_str") and len(t["args"]) == 2:
            c = resolve_const(emit, t["args"][1])
            if c:
                emitted += re.findall(r'"((?:[^"\\]|\\.)*)"', c.get("text", ""))
        elif "fmt::Arguments" in k and t["callee"].get("method") in ("new", "new_const", "new_v1", "from_str"):
            c = resolve_const(emit, t["args"][0])
            lit = _template_literals(c.get("text", "")) if c else None
            if lit is None:
                unknown = True
            else:
                emitted += [x for x in lit if x is not None]
    top = [resolve_const(parse, t["args"][1]) for _bb, t in calls_named(parse, "split")]
    inner = [resolve_const(part, t["args"][1]) for _bb, t in calls_named(part, "split_once")]
    topc = [chr(c["val"]) for c in top if c and isinstance(c.get("val"), int)]
    innerc = [chr(c["val"]) for c in inner if c and isinstance(c.get("val"), int)]
    ok = not unknown and set(emitted) == {",", "-"} and topc == [","] and innerc == ["-"]
    ctx.ob("R8.codec", "separator-agreement", ok, emit.loc(),
           f"emit writes the literals {sorted(set(emitted))}{' (and something unrecognised)' if unknown else ''}; parse splits the list on {topc} and a part on {innerc}")
    # ---- parse: sorted + dedup after flatten
    chain = []
    for c in [parse] + prog.closures_of(parse):
        for bb, t in sorted(c.calls(), key=lambda x: x[0]):
            if t["callee"].get("method") in ("flatten", "sorted", "sorted_unstable", "dedup", "unique", "collect", "flat_map"):
                chain.append(t["callee"].get("method"))
    has_sort = any(m.startswith("sorted") for m in chain)
    has_dd = "dedup" in chain or "unique" in chain
    order_ok = (not ("dedup" in chain and "unique" not in chain)) or (has_sort and chain.index("dedup") > min(i for i, m in enumerate(chain) if m.startswith("sorted")))
    ctx.ob("R8.codec", "parse-sorts-and-dedups", has_sort and has_dd and order_ok, parse.loc(),
           f"adaptor chain of the parsed ids: {chain} (dedup only removes adjacent duplicates, so it must follow the sort)")
    # ---- parse_range: inclusive range of (start, end), refused when start > end
    ri = [(bb, t) for bb, t in rng.calls() if callee_key(t["callee"]).endswith("RangeInclusive::new")]
    ok = len(ri) == 1
    if ok:
        a0 = _which_param(rng, ri[0][1]["args"][0])
        a1 = _which_param(rng, ri[0][1]["args"][1])
        ok = a0 == {1} and a1 == {2}
    ctx.ob("R8.codec", "range-is-start..=end", ok, rng.loc(), "a range part expands to RangeInclusive::new(parsed start, parsed end)")
    # ---- emit pipeline: unique + sorted before grouping
    rem_def = None
    for bb, t in emit.calls():
        if t["callee"].get("method") == "collect" and "VecDeque" in t["callee"].get("full", ""):
            rem_def = t
    if rem_def is None:
        ctx.missing("R8.codec", "the VecDeque the grouping loop consumes")
        return
    _s, n = slice_calls(emit, rem_def["args"][0])
    ok = ("unique" in n or "dedup" in n) and any(x.startswith("sorted") for x in n)
    if "dedup" in n and "unique" not in n:
        ok = False  # would need the order argument; only the unique-then-sort idiom is accepted
    ctx.ob("R8.codec", "emit-groups-a-strictly-ascending-sequence", ok, emit.loc(rem_def["span"]),
           f"the sequence that is grouped went through {sorted(n & {'unique', 'dedup', 'sorted', 'sorted_unstable'})}: strictly ascending ids are what bounds "
           f"start+len by the next element in the grouping closure")
    # ---- consumption: pops per group == group len
    pops = [(bb, t) for bb, t in emit.calls() if t["callee"].get("method") in ("pop_front", "drain", "truncate_front", "advance_by")]
    pushes = [(bb, t) for bb, t in emit.calls() if t["callee"].get("method") == "push" and "Vec" in callee_key(t["callee"])]
    ok = len(pops) == 1 and len(pushes) == 1 and pops[0][1]["callee"].get("method") == "pop_front"
    det = f"pop sites {len(pops)}, group pushes {len(pushes)}"
    if ok:
        pbb = pops[0][0]
        # the loop around the pop is driven by a Range whose end is NonZero::get of the pushed group's len component
        nx = [(bb, t) for bb, t in emit.calls() if t["callee"].get("method") == "next" and pbb in emit.successors_reach(bb, False) and bb in emit.successors_reach(pbb, False)]
        ok = len(nx) == 1
        if ok:
            sl = Slice(emit).run(nx[0][1]["args"][0])
            rng_aggr = None
            for blk in emit.blocks:
                for s in blk.stmts:
                    if s["k"] == "assign" and s["rv"]["k"] == "aggr" and (s["rv"].get("adt") or "").endswith("ops::Range") and s["place"]["l"] in sl["locals"]:
                        rng_aggr = s
            ok = rng_aggr is not None
            if ok:
                c0 = resolve_const(emit, rng_aggr["rv"]["ops"][0])
                pushed = pushes[0][1]["args"][1]
                pd = emit.unique_def(op_local(pushed)) if op_local(pushed) is not None else None
                len_src = None
                cons_atoms = {}
                if pd and pd[2] == "assign" and pd[3]["rv"]["k"] == "aggr" and len(pd[3]["rv"]["ops"]) == 2:
                    len_src = _root_local(emit, pd[3]["rv"]["ops"][1])
                    cons_atoms = {len_src: Lin(0, 1, 0)} if len_src is not None else {}
                else:
                    # the group is pushed as one value (a private struct): its count component is what must drive the pops
                    groot = _root_local(emit, pushed)
                    if groot is not None:
                        cons_atoms, _g = _group_atoms(emit, lambda pl, _r=groot: pl["p"] if pl["l"] == _r else None)
                end_l = lin_eval(emit, rng_aggr["rv"]["ops"][1], cons_atoms)
                ok = bool(c0 and c0.get("val") == 0) and end_l is not None and (end_l.s, end_l.l, end_l.c) == (0, 1, 0)
                det += f"; pops per group = 0..{end_l}"
    ctx.ob("R8.codec", "emit-consumes-exactly-the-group", ok, emit.loc(), det)
    # ---- linear forms: no intermediate above the range end
    n_forms = 0
    # rendering loop: atoms are the two components of the group tuple read from the iterator item
    atoms, _g = _group_atoms(emit, _some_payload_seed(None))
    n_forms += _check_forms(ctx, emit, atoms, bound="last", where="render")
    for c in prog.closures_of(emit):
        ctx.fn(c)
        atoms, _g = _group_atoms(c, _some_payload_seed({2}))
        if atoms:
            n_forms += _check_forms(ctx, c, atoms, bound="next", where="group")
    if n_forms < 3:
        ctx.missing("R8.range-arithmetic", f"at least 3 panicking checked additions over (start, len) in emit (found {n_forms})")


def _group_atoms(body, seed):
    """Locals holding the start id / the length of a group. A group is a two-component value (tuple or private struct) of an id
    and a NonZero count; `seed(place)` returns the projections that remain after a place known to hold a whole group
    (None when the place is not rooted in one). Components are told apart by their type, whole groups are followed through
    copies (also the argument copies of spliced-in helper methods)."""
    G = set()
    atoms = {}

    def rest_of(pl):
        if pl["l"] in G:
            return pl["p"]
        return seed(pl)

    changed = True
    while changed:
        changed = False
        for blk in body.blocks:
            for s in blk.stmts:
                if s["k"] != "assign" or s["rv"]["k"] != "use" or s["place"]["p"]:
                    continue
                pl = op_place(s["rv"]["op"])
                dst = s["place"]["l"]
                if pl is None or dst in G or dst in atoms:
                    continue
                rest = rest_of(pl)
                if rest is None:
                    continue
                rest = [e for e in rest if isinstance(e, dict) and "i" in e and "v" not in e]
                ty = body.local_ty(dst)["s"]
                if not rest:
                    if ty not in ("u32",) and "NonZero" not in ty.split("<")[0]:
                        G.add(dst)
                        changed = True
                elif len(rest) == 1:
                    if ty == "u32":
                        atoms[dst] = Lin(1, 0, 0)
                        changed = True
                    elif "NonZero" in ty:
                        atoms[dst] = Lin(0, 1, 0)
                        changed = True
    return atoms, G


def _some_payload_seed(root_locals):
    """seed for _group_atoms: `(<root> as Some).0` holds a whole group."""
    def seed(pl):
        if root_locals is not None and pl["l"] not in root_locals:
            return None
        for k, e in enumerate(pl["p"]):
            if isinstance(e, dict) and e.get("v") == "Some":
                nxt = pl["p"][k + 1:]
                if nxt and isinstance(nxt[0], dict) and nxt[0].get("i") == 0:
                    return nxt[1:]
                return None
        return None
    return seed


def _root_local(body, op, depth=6):
    l = op_local(op)
    while l is not None and depth:
        depth -= 1
        d = body.unique_def(l)
        if d and d[2] == "assign" and d[3]["rv"]["k"] == "use" and op_local(d[3]["rv"]["op"]) is not None:
            l = op_local(d[3]["rv"]["op"])
        else:
            break
    return l


def _which_param(body, op):
    return Slice(body).run(op)["args"]


def _check_forms(ctx, body, atoms, bound, where):
    """Every panicking checked_add/checked_mul over the atoms: the value it must represent is compared with the largest value
    known to be representable there - the group's last id start+len-1 (`last`), or the next element, which is >= start+len
    in a strictly ascending sequence (`next`). len == k facts come from the dominating comparisons."""
    # propagate atoms through copies
    changed = True
    while changed:
        changed = False
        for blk in body.blocks:
            for s in blk.stmts:
                if s["k"] == "assign" and s["rv"]["k"] == "use" and not s["place"]["p"]:
                    l = op_local(s["rv"]["op"])
                    if l in atoms and s["place"]["l"] not in atoms and body.unique_def(s["place"]["l"]):
                        atoms[s["place"]["l"]] = atoms[l]
                        changed = True
            t = blk.term
            if t["k"] == "call" and t["callee"].get("method") == "get" and "NonZero" in callee_key(t["callee"]) and not t["dest"]["p"]:
                l = op_local(t["args"][0])
                if l in atoms and t["dest"]["l"] not in atoms:
                    atoms[t["dest"]["l"]] = atoms[l]
                    changed = True
    n = 0
    for bb, t in body.calls():
        if t["callee"].get("method") != "checked_add" or "num" not in callee_key(t["callee"]):
            continue
        # is the Option consumed by a panicking extractor?
        consumers = [t2 for _b2, t2 in body.calls() if t2["args"] and op_local(t2["args"][0]) == t["dest"]["l"]]
        if not any(last(callee_key(t2["callee"]), 2) in PANICKING for t2 in consumers):
            continue
        a = lin_eval(body, t["args"][0], atoms)
        b = lin_eval(body, t["args"][1], atoms)
        if a is None or b is None:
            continue
        f = a + b
        if f.s == 0:
            # len + 1: overflows only for a run of 2^32 ids, which NonZero<u32> cannot count anyway (documented limit)
            ctx.ob("R8.range-arithmetic", f"{where}:{f}", True, body.loc(t["span"]), f"`{f}` involves no id; it overflows only for a run of 2^32 elements")
            n += 1
            continue
        # len == k facts
        lfix = None
        for g in switch_guards(body, bb):
            dl = g.get("discr_local")
            d = body.unique_def(dl) if dl is not None else None
            if d and d[2] == "assign" and d[3]["rv"]["k"] == "binop" and d[3]["rv"]["op"] == "Eq":
                x = lin_eval(body, d[3]["rv"]["a"], atoms)
                y = lin_eval(body, d[3]["rv"]["b"], atoms)
                if x is not None and y is not None and (x.s, x.l, x.c) == (0, 1, 0) and (y.s, y.l) == (0, 0) and g["allowed"] and 0 not in g["allowed"]:
                    lfix = y.c
        ref = Lin(1, 1, -1) if bound == "last" else Lin(1, 1, 0)
        diff = f - ref
        if lfix is not None:
            worst = diff.l * lfix + diff.c
            ok = diff.s == 0 and worst <= 0
        else:
            # for all len >= 1
            ok = diff.s == 0 and diff.l <= 0 and diff.l * 1 + diff.c <= 0
        ctx.ob("R8.range-arithmetic", f"{where}:{f}" + (f"|len={lfix}" if lfix is not None else ""), ok, body.loc(t["span"]),
               f"panicking checked_add computes `{f}`; the largest value known representable here is `{ref}` "
               f"({'the last id of the group, which is an input id' if bound == 'last' else 'bounded by the next element of the strictly ascending sequence'})"
               + ("" if ok else f": for a group ending at the largest id the intermediate `{f}` overflows although every rendered value fits"))
        n += 1
    return n


# ------------------------------------------------------------------------------------------------ mask rules
def mask_rules(ctx, prog):
    of = prog.one("cpu_mask::BitPosition::of")
    pid = prog.one("cpu_mask::BitPosition::processor_id")
    ins = prog.one("cpu_mask::CpuMask::insert")
    eqs = [b for b in prog.find("eq") if (b.impl_self or "").endswith("CpuMask")]
    word = prog.one("cpu_mask::CpuMask::word")
    if of is None or pid is None or ins is None or len(eqs) != 1 or word is None:
        ctx.missing("R9.mask", "BitPosition::of / processor_id / CpuMask::insert / eq / word")
        return
    for b in (of, pid, ins, eqs[0], word):
        ctx.fn(b)

    def const_of(body, t, i):
        c = resolve_const(body, t["args"][i])
        return (c.get("text") or "").split("::")[-1] if c else None

    dv = calls_named(of, "checked_div", "div_euclid", "checked_div_euclid")
    rm = calls_named(of, "checked_rem", "rem_euclid", "checked_rem_euclid")
    ml = [(bb, t, b) for b in nested(prog, pid) for bb, t in calls_named(b, "checked_mul")]
    ad = calls_named(pid, "checked_add")
    ok = len(dv) == 1 and len(rm) == 1 and len(ml) == 1 and len(ad) == 1
    det = ""
    if ok:
        mlb = ml[0][2]
        cs = {const_of(of, dv[0][1], 1), const_of(of, rm[0][1], 1), const_of(mlb, ml[0][1], 1)}
        same = len(cs) == 1 and None not in cs
        # of: word <- div, offset <- rem, both of parameter 1
        aggr = [s for blk in of.blocks for s in blk.stmts if s["k"] == "assign" and s["rv"]["k"] == "aggr" and (s["rv"].get("adt") or "").endswith("BitPosition")]
        shape = False
        if len(aggr) == 1:
            w, n_w = slice_calls(of, aggr[0]["rv"]["ops"][0])
            o, n_o = slice_calls(of, aggr[0]["rv"]["ops"][1])
            shape = bool({"checked_div", "div_euclid", "checked_div_euclid"} & n_w) and not ({"checked_rem", "rem_euclid"} & n_w) and \
                bool({"checked_rem", "rem_euclid", "checked_rem_euclid"} & n_o) and not ({"checked_div", "div_euclid"} & n_o) and w["args"] == {1} and o["args"] == {1}
        # processor_id: word * BITS + offset
        a1 = Slice(pid).run(ad[0][1]["args"][1])
        a0, n_a0 = slice_calls(pid, ad[0][1]["args"][0])
        # the multiplied value is the word index: either directly in processor_id or via try_from(self.word).and_then(|w| w.checked_mul(W))
        if mlb is pid:
            m0 = Slice(pid).run(ml[0][1]["args"][0])
            word_mul = any(f.endswith("BitPosition::word") for f in m0["fields"]) and "checked_mul" in n_a0
        else:
            m0 = Slice(mlb).run(ml[0][1]["args"][0])
            word_mul = 2 in m0["args"] and any(f.endswith("BitPosition::word") for f in a0["fields"]) and bool({"and_then", "map"} & n_a0)
        inv = word_mul and any(f.endswith("BitPosition::offset") for f in a1["fields"])
        ok = same and shape and inv
        det = f"one word-width constant {sorted(str(c) for c in cs)}: {same}; of = (id / W, id % W): {shape}; processor_id = word * W + offset: {inv}"
    ctx.ob("R9.mask", "bit-position-inverse", ok, of.loc(), det or f"div {len(dv)} rem {len(rm)} mul {len(ml)} add {len(ad)}")
    # insert never narrows: resize(max(len, required))
    rs = calls_named(ins, "resize")
    ok = len(rs) == 1
    if ok:
        s, n = slice_calls(ins, rs[0][1]["args"][1])
        ok = "max" in n and "len" in n and "checked_add" in n and "min" not in n
    ctx.ob("R9.mask", "insert-never-narrows", ok, ins.loc(), "insert resizes to max(current width, word index + 1)")
    # eq: all words up to the wider width, missing words read as empty
    e = eqs[0]
    rngs = [s for blk in e.blocks for s in blk.stmts if s["k"] == "assign" and s["rv"]["k"] == "aggr" and (s["rv"].get("adt") or "").endswith("ops::Range")]
    ok = len(rngs) == 1
    if ok:
        s, n = slice_calls(e, rngs[0]["rv"]["ops"][1])
        alls = calls_named(e, "all")
        ok = "max" in n and "min" not in n and len(alls) == 1
        if ok:
            cbs = closure_bodies_of_call(prog, e, alls[0][1])
            ok = len(cbs) == 1 and [t["callee"].get("method") for _b, t in cbs[0].calls()].count("word") == 2
    if ok:
        # ... and nothing else decides the answer: every value that reaches the return place is that `all(..)` (no width-dependent
        # shortcut such as comparing the word vectors wholesale, which makes a 1-word and a 2-word mask of the same set differ)
        others = []
        for blk in e.blocks:
            if blk.cleanup:
                continue
            for st in blk.stmts:
                if st["k"] == "assign" and st["place"]["l"] == 0 and not st["place"]["p"]:
                    sl0 = Slice(e, through_calls=False).run(st["rv"]["op"]) if st["rv"]["k"] == "use" else None
                    if sl0 is None or not any(ct is alls[0][1] for _k, _b, ct in sl0["calls"]):
                        others.append(e.loc(st["span"]))
            t = blk.term
            if t["k"] == "call" and isinstance(t.get("dest"), dict) and t["dest"]["l"] == 0 and not t["dest"]["p"] and t is not alls[0][1]:
                others.append(f"{callee_key(t['callee']).split('::')[-1]}@{e.loc(t['span'])}")
        ok = not others
        if others:
            ctx.ob("R9.mask", "equality-has-no-width-dependent-shortcut", False, e.loc(), f"eq also returns values not produced by the padded word-by-word comparison: {others}")
    uw = calls_named(word, "unwrap_or", "unwrap_or_default")
    okw = len(uw) == 1 and not [1 for _b, t in word.calls() if last(callee_key(t["callee"]), 2) in PANICKING]
    ctx.ob("R9.mask", "equality-pads-the-narrower-mask", ok and okw, e.loc(), "eq compares word(i) for i in 0..max(widths); word(i) beyond the width reads as empty")


TRUNCATING = {"map_while", "take_while", "take", "skip", "skip_while", "step_by", "nth", "last", "scan", "fuse", "nth_back", "truncate", "pop", "split_off"}
SANCTIONED_TRUNCATION = {
    ("get_processors_allowed_for_current_process", "take"): "the first Cpus_allowed_list line is the only one",
    ("parse_cgroup_name", "skip"): "skips the `0::` prefix of the one matching line",
    ("parse_range", "step_by"): "the stride of an a-b:s range",
}
INVENTORY_FNS = ("load_all_processors", "get_cpuinfo", "get_numa_nodes", "get_processors_allowed_for_current_process", "get_active_processors",
                 "parse_kernel_id_list", "parse_cgroup_name", "parse::parse", "parse::parse_part", "parse::parse_range", "emit::emit",
                 "CpuMask::processor_ids", "get_max_processor_id", "get_max_memory_region_id", "get_active_processor_count")


def enumeration_rules(ctx, prog):
    """Every kernel-listed item is looked at: no truncating adaptor and no early loop exit in the functions that enumerate
    records, nodes, ids or mask bits, except the sanctioned ones."""
    from ..analysis import loop_visits_all
    n = 0
    for suffix in INVENTORY_FNS:
        roots = prog.find(suffix)
        if not roots:
            ctx.missing("R10.enumerations-not-truncated", suffix)
            continue
        for root in roots:
            if root.is_closure:
                continue
            for b in nested(prog, root):
                ctx.fn(b)
                used = sorted({t["callee"].get("method") for _bb, t in b.calls() if t["callee"].get("method") in TRUNCATING and
                               ("iter" in callee_key(t["callee"]).lower() or "Iterator" in t["callee"].get("full", "") or "Vec" in callee_key(t["callee"]) or "slice" in callee_key(t["callee"]))})
                bad = [m for m in used if (root.name, m) not in SANCTIONED_TRUNCATION]
                n += 1
                ctx.ob("R10.enumerations-not-truncated", f"{last(root.key, 2)}{'/closure#' + b.key.rsplit('#', 1)[-1].rstrip('}') if b is not root else ''}:adaptors", not bad, b.loc(),
                       f"truncating adaptors used: {used or 'none'}; not sanctioned here: {bad or 'none'}" + (" - items after the cut are never looked at" if bad else ""))
                k = 0
                for bb, t in sorted(b.calls(), key=lambda x: (x[1]["span"]["line"], x[0])):
                    if t["callee"].get("method") == "next" and b.in_loop(bb) and not b.blocks[bb].cleanup:
                        if "ops::Range" in t["callee"].get("full", ""):
                            continue  # a counting loop, not an enumeration of kernel-listed items
                        k += 1
                        ok, det = loop_visits_all(b, bb)
                        # adaptors in the source chain are judged above; only the exits matter here
                        ok = ok or "exit" not in det
                        ctx.ob("R10.enumerations-not-truncated", f"{last(root.key, 2)}{'/closure#' + b.key.rsplit('#', 1)[-1].rstrip('}') if b is not root else ''}:loop#{k}", ok, b.loc(t["span"]), det)
    return n


def run(ctx):
    ctx.explanation = EXPL
    ctx.not_decided = NOT
    ctx.rule("R1.allowed-filter", "reported processors = cpuinfo records whose index is in the allowed list; id = index", floor=2)
    ctx.rule("R2.online-join", "is_active from the same index's online file (absent = online); the public list is the active list", floor=2)
    ctx.rule("R3.region-join", "memory region = key of the node whose members contain the index; non-panicking default", floor=1)
    ctx.rule("R4.maxima", "maxima are maxima of possible -> online -> enumerated; node table and region maximum share one source", floor=3)
    ctx.rule("R5.quota", "quota = min(count, quota/period); v2 before v1; field order", floor=5)
    ctx.rule("R6.absence-tolerated", "an optional kernel file's absence never reaches a panicking extractor", floor=10)
    ctx.rule("R7.cpuinfo-keys", "keys compared lower-cased against lower-case constants; unreadable bogomips is None; record without index skipped", floor=3)
    ctx.rule("R8.codec", "separator agreement, parse sorts+dedups, inclusive ranges, emit groups an ascending sequence and consumes exactly the group", floor=5)
    ctx.rule("R8.range-arithmetic", "no panicking intermediate above the largest value known representable (symbolic linear forms)", floor=3)
    ctx.rule("R10.enumerations-not-truncated", "the functions that enumerate cpuinfo records, NUMA nodes, id lists and mask bits use no truncating adaptor (map_while, take_while, take, skip, step_by ...) outside three sanctioned sites, and their loops leave only on exhaustion", floor=20)
    ctx.rule("R9.mask", "bit position <-> id inverse over one constant, insert never narrows, equality pads", floor=3)
    prog = ctx.prog("many_cpus_impl", "cpulist")
    platform_rules(ctx, prog)
    cgroup_path_rule(ctx, prog)
    facade_agreement_rule(ctx, prog)
    codec_rules(ctx, prog)
    mask_rules(ctx, prog)
    enumeration_rules(ctx, prog)

"""C10 - pinning takes effect in the OS and the library's view of it stays truthful (many_cpus_impl, linux) - narrow."""
from ..analysis import (path_count, Slice, switch_guards, UserCode, calls_to, who_calls, field_assigns)
from ..mir import callee_key, callee_paths, op_local, op_place, strip_generics, op_access_path, place_fields, resolve_const

EXPL = ("The operating-system effect is NOT decided. Decided on MIR of many_cpus_impl are structural necessary conditions: "
        "(R1) FFI buffer agreement: in both affinity bindings the length argument comes from len_bytes() of the very mask "
        "whose pointer is passed, and len_bytes = words.len() * size_of::<c_ulong>(); (R2) single door: libc::"
        "sched_setaffinity is called only by the bindings' setter, which is called only by the Linux platform's pin "
        "function, which is called only (through the facade) by ProcessorSet::pin_current_thread_to; (R3) bookkeeping on "
        "every path: after the platform pin call exactly one update_pin_status runs on every path - Some(processor) only "
        "when the set has one processor, (None, Some(region)) only when all processors share one region, (None, None) "
        "otherwise; (R4) per-thread, per-hardware keyed state: PIN_STATES is a thread_local, every access goes through "
        "the instance's hardware_id, spawn_threads pins inside the spawned closure before the entry point runs, one spawn "
        "per processor; (R5) the affinity mask handed to the kernel is a fresh CpuMask built in that call from exactly "
        "the processors given (no state carried between pins).")
NOT = "Not decided: that the kernel applies the mask; sched_getcpu/current_* answers over re-pinning histories."

LINUX = "many_cpus_impl::pal::linux::"


def short(k):
    return k.replace("many_cpus_impl::", "")


def run(ctx):
    ctx.explanation = EXPL
    ctx.not_decided = NOT
    prog = ctx.prog("many_cpus_impl")
    uc = UserCode(prog)
    ctx.rule("R1.ffi-buffer-agreement", "length argument = len_bytes() of the mask whose pointer is passed; len_bytes = words.len() * size_of::<c_ulong>()", floor=3)
    ctx.rule("R2.single-door", "sched_setaffinity <- bindings setter <- platform pin <- ProcessorSet::pin_current_thread_to only", floor=3)
    ctx.rule("R3.bookkeeping-every-path", "exactly one update_pin_status after the platform pin on every path, form decided by set size / region uniformity", floor=4)
    ctx.rule("R4.per-thread-per-hardware", "PIN_STATES thread_local keyed by hardware_id; spawn_threads pins inside the spawned closure before the entry point; one spawn per processor", floor=5)
    ctx.rule("R6.kernel-error-not-swallowed", "a failing sched_setaffinity is never tolerated: the binding turns every non-zero return into Err, and the platform pin diverges on every Err (otherwise the bookkeeping would record a pin the kernel refused)", floor=2)
    ctx.rule("R7.view-from-full-inventory", "SystemHardware::thread_processors answers from the pin state and the FULL processor inventory (get_processor / all_processors_slice), never from the quota-limited default set or a builder", floor=2)
    ctx.rule("R9.table-filled-by-id", "SystemHardware's by-id processor table (what get_processor / current-processor lookups index) is filled at the index given by each processor's own id, never by enumeration position: processor ids are not positions", floor=1)
    ctx.rule("R8.pin-state-lookups-complete", "the per-thread pin-state table is looked up by hardware id over ALL entries (entry order is arbitrary: first-pin order, swap_remove) - no positional cut in PinStateMap::{get,set,remove}; the fake platform's pin overwrites the thread's previous affinity on every call", floor=4)
    ctx.rule("R5.fresh-mask", "the mask passed to the kernel is a CpuMask::new() local of that call, filled by insert() over the given processors", floor=2)

    # ---------------- R1
    real = [b for b in prog.bodies if b.key.startswith("<" + LINUX + "bindings::real::BuildTargetBindings as") and not b.is_closure]
    ffi = {"sched_setaffinity_current": ("libc::sched_setaffinity", "as_ptr"), "sched_getaffinity_current": ("libc::sched_getaffinity", "as_mut_ptr")}
    for b in real:
        if b.name not in ffi:
            continue
        ctx.fn(b)
        fn_, ptrm = ffi[b.name]
        cs = [(bb, t) for bb, t in b.calls() if callee_key(t["callee"]).endswith(fn_.split("::")[-1]) and "libc" in callee_key(t["callee"])]
        ok = len(cs) == 1
        det = f"{fn_} sites {len(cs)}"
        if ok:
            t = cs[0][1]
            sl_len = Slice(b).run(t["args"][1])
            sl_ptr = Slice(b).run(t["args"][2])
            lb = [ct for k, _, ct in sl_len["calls"] if k.endswith("CpuMask::len_bytes")]
            pp = [ct for k, _, ct in sl_ptr["calls"] if k.endswith("CpuMask::" + ptrm)]
            same = False
            if len(lb) == 1 and len(pp) == 1:
                r1, f1 = op_access_path(b, lb[0]["args"][0])
                r2, f2 = op_access_path(b, pp[0]["args"][0])
                same = r1 == r2 and r1 is not None
                # no mutation of the mask between len_bytes and the syscall
                muts = [bb for bb, t2 in b.calls() if t2["callee"].get("method") in ("insert", "remove", "resize", "clear") and "CpuMask" in callee_key(t2["callee"])]
                same = same and not muts
            pid0 = resolve_const(b, t["args"][0])
            ok = same and bool(pid0) and pid0.get("val") == 0 and not sl_len["binops"]
            det += f"; length from len_bytes() and pointer from {ptrm}() of the same mask, unmodified in between: {same}; pid argument 0 (calling thread): {bool(pid0) and pid0.get('val') == 0}"
        ctx.ob("R1.ffi-buffer-agreement", b.name, ok, b.loc(), det)
    lbn = prog.one("cpu_mask::CpuMask::len_bytes")
    if lbn is None:
        ctx.missing("R1.ffi-buffer-agreement", "CpuMask::len_bytes")
    else:
        ctx.fn(lbn)
        sl = Slice(lbn).run({"k": "copy", "place": {"l": 0, "p": []}})
        ks = [k.split("::")[-1] for k, _, _ in sl["calls"]]
        szc = [c for c in sl["consts"] if c.get("val") == 8 or "size_of" in c.get("text", "") or "SizeOf" in c.get("text", "")]
        szc += [{"text": ct["callee"]["full"]} for k, _, ct in sl["calls"] if k.endswith("mem::size_of") and ct["callee"]["full"].endswith("size_of::<u64>")]
        ok = "len" in ks and ("checked_mul" in ks or any(o.startswith("Mul") for o in sl["binops"])) and any(f.endswith("CpuMask::words") for f in sl["fields"])
        ctx.ob("R1.ffi-buffer-agreement", "len_bytes-formula", ok and bool(szc), lbn.loc(), f"len_bytes = words.len() * size_of::<c_ulong>(): via {ks}, constants {[c.get('text') for c in szc][:2]}")
    # as_ptr / as_mut_ptr expose the same storage
    for m in ("as_ptr", "as_mut_ptr"):
        b = prog.one(f"cpu_mask::CpuMask::{m}")
        if b is not None:
            sl = Slice(b).run({"k": "copy", "place": {"l": 0, "p": []}})
            ok = any(f.endswith("CpuMask::words") for f in sl["fields"])
            ctx.ob("R1.ffi-buffer-agreement", f"{m}-is-words-storage", ok, b.loc(), "pointer is the words storage that len_bytes measures")

    # ---------------- R2
    seta = []
    for bd in prog.bodies:
        for bb, t in bd.calls():
            if callee_key(t["callee"]).endswith("sched_setaffinity") and "libc" in callee_key(t["callee"]):
                seta.append(bd)
    ok = len(seta) == 1 and seta[0].name == "sched_setaffinity_current" and "bindings::real" in seta[0].key
    ctx.ob("R2.single-door", "libc::sched_setaffinity", ok, seta[0].loc() if seta else "", f"callers: {[short(b.key) for b in seta]}")
    l2 = []
    for bd in prog.bodies:
        for bb, t in bd.calls():
            if t["callee"].get("method") == "sched_setaffinity_current":
                l2.append(bd)
    l2 = [b for b in l2 if "bindings::facade" not in b.key and "bindings::mock" not in b.key and "MockBindings" not in b.key]
    l2roots = {strip_generics(b.root) for b in l2}
    ok = len(l2roots) == 1 and list(l2roots)[0].endswith("::pin_current_thread_to") and "pal::linux::platform" in list(l2roots)[0]
    ctx.ob("R2.single-door", "Bindings::sched_setaffinity_current", ok, l2[0].loc() if l2 else "", f"callers outside the bindings facade: {[short(b.key) for b in l2]}")
    l3 = []
    for bd in prog.bodies:
        for bb, t in bd.calls():
            if t["callee"].get("method") == "pin_current_thread_to" and ("Platform" in callee_key(t["callee"]) or "PlatformFacade" in callee_key(t["callee"]) or "platform" in callee_key(t["callee"])):
                l3.append(bd)
    l3 = [b for b in l3 if "pal::facade" not in b.key and "pal::mock" not in b.key and "Mock" not in b.key]
    ok = len(l3) == 1 and l3[0].key.endswith("processor_set::ProcessorSet::pin_current_thread_to")
    ctx.ob("R2.single-door", "Platform::pin_current_thread_to", ok, l3[0].loc() if l3 else "", f"callers outside the platform facade: {[short(b.key) for b in l3]}")

    # ---------------- R3
    pin = prog.one("processor_set::ProcessorSet::pin_current_thread_to")
    if pin is None:
        ctx.missing("R3.bookkeeping-every-path", "ProcessorSet::pin_current_thread_to")
    else:
        ctx.fn(pin)
        pcall = [(bb, t) for bb, t in pin.calls() if t["callee"].get("method") == "pin_current_thread_to"]
        ups = calls_to(pin, "system_hardware::SystemHardware::update_pin_status")
        pc = path_count(pin, [bb for bb, _ in ups])
        dom = pin.dominators(unwind=False)
        ok = len(pcall) == 1 and pc == (1, 1) and all(pcall[0][0] in dom[bb] for bb, _ in ups)
        ctx.ob("R3.bookkeeping-every-path", "exactly-one-update-after-pin", ok, pin.loc(),
               f"platform pin sites {len(pcall)}; update_pin_status per normal path {pc} (sites {len(ups)}); all after the pin call")
        forms = {}

        def tuple_defs(op, depth=6):
            """(field index, [(bb, tuple aggregate)]) when `op` reads one component of a pair built elsewhere."""
            pl = op_place(op)
            if pl is None or depth == 0:
                return None
            idx = [e["i"] for e in pl["p"] if isinstance(e, dict) and "i" in e and "v" not in e]
            if len(idx) != len(pl["p"]) or len(idx) > 1:
                return None
            out = []
            work = [(pl["l"], depth)]
            seen = set()
            while work:
                l, dd = work.pop()
                if l in seen or dd == 0:
                    continue
                seen.add(l)
                for dbb, _i, kind, payload in pin.defs().get(l, []):
                    if kind != "assign":
                        return None
                    rv = payload["rv"]
                    if rv["k"] == "use" and op_place(rv["op"]) is not None:
                        p2 = op_place(rv["op"])
                        i2 = [e["i"] for e in p2["p"] if isinstance(e, dict) and "i" in e and "v" not in e]
                        if len(i2) != len(p2["p"]):
                            return None
                        if i2 and idx:
                            return None
                        if i2:
                            idx[:] = i2
                        work.append((p2["l"], dd - 1))
                    elif rv["k"] == "aggr" and rv.get("tuple") and idx:
                        out.append((dbb, rv))
                    else:
                        return None
            return (idx[0], out) if idx and out else None

        def conds_at(bb):
            conds = []
            for g in switch_guards(pin, bb, dom=dom):
                src = g["src"]
                if src.get("kind") == "call" and src["term"]["callee"].get("method") == "len" and g.get("listed") == [1]:
                    # `match len { 1 => .., _ => .. }`
                    conds.append(("len==1", g["allowed"] == {1}))
                    continue
                if src.get("kind") in ("cmp", "binop") and g.get("discr_local") is not None:
                    d = pin.unique_def(g["discr_local"])
                    if d and d[2] == "assign" and d[3]["rv"]["k"] == "binop" and d[3]["rv"]["op"] == "Eq":
                        sa = Slice(pin).run(d[3]["rv"]["a"])
                        sb = Slice(pin).run(d[3]["rv"]["b"])
                        ks = {k.split("::")[-1] for k, _, _ in sa["calls"] + sb["calls"]}
                        one = any(c.get("val") == 1 for c in sa["consts"] + sb["consts"])
                        kind = "len==1" if "len" in ks and "unique" not in ks and one else ("unique-regions==1" if "unique" in ks and "count" in ks and one else "?")
                        conds.append((kind, 0 not in g["allowed"]))
            return conds

        from ..evtflow import variant_path
        for bb, t in ups:
            ta, tb = tuple_defs(t["args"][1]), tuple_defs(t["args"][2])
            if ta and tb and ta[0] != tb[0] and [x[0] for x in ta[1]] == [x[0] for x in tb[1]]:
                # the pair is chosen in the arms of a decision and handed over after the join: judge every arm where it is built
                for dbb, rv in ta[1]:
                    f = (variant_path(pin, rv["ops"][ta[0]])[0], variant_path(pin, rv["ops"][tb[0]])[0])
                    forms[f] = conds_at(dbb)
                continue
            f = (variant_path(pin, t["args"][1])[0], variant_path(pin, t["args"][2])[0])
            forms[f] = conds_at(bb)
        want = {("Some", "Some"): [("len==1", True)],
                ("None", "Some"): [("len==1", False), ("unique-regions==1", True)],
                ("None", "None"): [("len==1", False), ("unique-regions==1", False)]}
        for f, w in want.items():
            got = forms.get(f)
            ctx.ob("R3.bookkeeping-every-path", f"form:{f[0]}/{f[1]}", got == w, pin.loc(), f"update_pin_status({f[0]}, {f[1]}) reached under {got} (required {w})")
        # the Some(processor) is the set's only processor; region is that processor's
    # ---------------- R4
    st = [s for p, s in prog.statics.items() if p.endswith("system_hardware::PIN_STATES")]
    ok = bool(st) and any("LocalKey" in s["ty"]["s"] for s in st)
    ctx.ob("R4.per-thread-per-hardware", "PIN_STATES.thread_local", ok, "", f"type {st[0]['ty']['s'][:80] if st else 'missing'}")
    # every access to PIN_STATES keyed by hardware_id
    n_acc = 0
    bad = []
    for bd in prog.bodies:
        uses = any(t["callee"].get("method") in ("with", "with_borrow", "with_borrow_mut", "try_with") and "PinStateMap" in t["callee"]["full"] for bb, t in bd.calls())
        for blk in bd.blocks:
            for s in blk.stmts:
                if s["k"] == "assign" and s["rv"]["k"] == "use" and s["rv"]["op"].get("k") == "const" and (s["rv"]["op"].get("name") or "").endswith("system_hardware::PIN_STATES"):
                    uses = True
            t = blk.term
            if t["k"] == "call":
                for a in t["args"]:
                    if a.get("k") == "const" and (a.get("name") or "").endswith("system_hardware::PIN_STATES"):
                        uses = True
        if not uses:
            continue
        n_acc += 1
        ctx.fn(bd)
        okk = False
        for c in prog.closures_of(bd):
            for bb, t in c.calls():
                if t["callee"].get("method") in ("get", "set", "remove") and "PinStateMap" in callee_key(t["callee"]):
                    sl = Slice(c).run(t["args"][1])
                    names = {u["name"] for u in c.d.get("upvars", [])}
                    if any(f.endswith("hardware_id") for f in sl["fields"]) or sl["upvars"]:
                        okk = True
        if not okk:
            bad.append(short(bd.key))
    ctx.ob("R4.per-thread-per-hardware", "accesses-keyed-by-hardware_id", n_acc >= 3 and not bad, "", f"{n_acc} functions access PIN_STATES; not keyed by the instance's hardware_id: {bad or 'none'}")
    sp = prog.one("processor_set::ProcessorSet::spawn_threads")
    if sp is None:
        ctx.missing("R4.per-thread-per-hardware", "ProcessorSet::spawn_threads")
    else:
        ctx.fn(sp)
        # closure passed to map() calls thread::spawn once; inner closure pins then calls the entry point
        inner = None
        outer = None
        for c in prog.closures_of(sp):
            if [1 for bb, t in c.calls() if callee_key(t["callee"]).endswith("thread::spawn")]:
                outer = c
            if calls_to(c, "processor_set::ProcessorSet::pin_current_thread_to"):
                inner = c
        ok = outer is not None and inner is not None
        det = ""
        if ok:
            pcs = path_count(outer, [bb for bb, t in outer.calls() if callee_key(t["callee"]).endswith("thread::spawn")])
            dom = inner.dominators(unwind=False)
            pinb = calls_to(inner, "processor_set::ProcessorSet::pin_current_thread_to")
            ent = [bb for bb in range(len(inner.blocks)) if (uc.direct(inner, bb) or ("",))[0] in ("P", "U1-generic", "U1-closure-param")]
            ok = pcs == (1, 1) and len(pinb) == 1 and bool(ent) and all(pinb[0][0] in dom[e] for e in ent)
            # the set pinned to is the singleton of the captured processor
            sing = [t for bb, t in inner.calls() if callee_key(t["callee"]).endswith("NonEmpty::singleton") or t["callee"].get("method") == "singleton"]
            ok = ok and len(sing) == 1
            # map over self.processors()
            mp = [(bb, t) for bb, t in sp.calls() if t["callee"].get("method") == "map"]
            okm = False
            for bb, t in mp:
                sl = Slice(sp).run(t["args"][0])
                if any(k.endswith("ProcessorSet::processors") for k, _, _ in sl["calls"]):
                    okm = True
            ok = ok and okm
            det = f"one thread::spawn per mapped processor: {pcs}; pin dominates the entry point call: {bool(ent)}; singleton set of the captured processor: {len(sing) == 1}; map over self.processors(): {okm}"
        ctx.ob("R4.per-thread-per-hardware", "spawn_threads.pin-inside-thread-before-entrypoint", ok, sp.loc(), det)
    up = prog.one("system_hardware::SystemHardware::update_pin_status")
    if up is not None:
        ctx.fn(up)
        ok = False
        for c in prog.closures_of(up):
            for bb, t in c.calls():
                if t["callee"].get("method") == "set" and "PinStateMap" in callee_key(t["callee"]):
                    ok = True
        # the state written carries both parameters
        ag = [s for c in [up] + prog.closures_of(up) for blk in c.blocks for s in blk.stmts if s["k"] == "assign" and s["rv"]["k"] == "aggr" and s["rv"].get("adt", "").endswith("ThreadState")]
        ctx.ob("R4.per-thread-per-hardware", "update_pin_status.writes-current-thread-entry", ok and len(ag) == 1, up.loc(), "update_pin_status stores ThreadState{processor, region} under the instance's hardware_id in the calling thread's map")
    gp = [b for b in prog.bodies if b.name in ("get_pinned_processor_id", "get_pinned_memory_region_id") and "SystemHardware" in b.key and not b.is_closure]
    ctx.ob("R4.per-thread-per-hardware", "readers-exist", len(gp) == 2, "", f"pinned-state readers: {[short(b.key) for b in gp]}")

    # ---------------- R5
    pp = [b for b in prog.bodies if b.name == "pin_current_thread_to" and "pal::linux::platform" in b.key and not b.is_closure]
    if not pp:
        ctx.missing("R5.fresh-mask", "linux platform pin_current_thread_to")
    else:
        b = pp[0]
        ctx.fn(b)
        cs = [(bb, t) for bb, t in b.calls() if t["callee"].get("method") == "sched_setaffinity_current"]
        ok = len(cs) == 1
        det = f"setter sites {len(cs)}"
        if ok:
            sl = Slice(b).run(cs[0][1]["args"][1])
            news = [ct for k, _, ct in sl["calls"] if k.endswith("CpuMask::new")]
            tl = sl["statics"] or [k for k, _, _ in sl["calls"] if "LocalKey" in k or "thread_local" in k.lower()]
            named_statics = [c.get("name") for c in sl["consts"] if c.get("name") and ("static" in str(c.get("text", "")).lower())]
            fresh = len(news) == 1 and not tl
            # also: the mask argument must be a reference to a local of this body whose only initialisation is CpuMask::new()
            r, fs = op_access_path(b, cs[0][1]["args"][1])
            local_ok = r is not None and r > b.arg_count
            ins = [(bb, t) for bb, t in b.calls() if t["callee"].get("method") == "insert" and "CpuMask" in callee_key(t["callee"])]
            loop_ok = len(ins) == 1 and b.in_loop(ins[0][0])
            src_ok = False
            if ins:
                s2 = Slice(b).run(ins[0][1]["args"][1])
                src_ok = 2 in s2["args"]
            closures_use_tls = False
            for c in prog.closures_of(b):
                if [1 for bb, t in c.calls() if t["callee"].get("method") == "sched_setaffinity_current"]:
                    closures_use_tls = True
            ok = fresh and local_ok and loop_ok and src_ok and not closures_use_tls
            det += f"; mask is a fresh CpuMask::new() local: {fresh and local_ok}; insert() inside the loop over the given processors: {loop_ok and src_ok}"
        else:
            # the call may have moved into a closure (e.g. LocalKey::with)
            for c in prog.closures_of(b):
                if [1 for bb, t in c.calls() if t["callee"].get("method") == "sched_setaffinity_current"]:
                    det += f"; the kernel call sits in closure {short(c.key)} (mask state carried outside this call)"
        ctx.ob("R5.fresh-mask", "linux.pin_current_thread_to", ok, b.loc(), det)
    # ---------------- R6
    from ..analysis import err_outcomes_diverge, switch_guards as _sg
    if pp:
        b = pp[0]
        for bb, t in [(bb, t) for bb, t in b.calls() if t["callee"].get("method") == "sched_setaffinity_current"]:
            ok, det = err_outcomes_diverge(b, bb)
            ctx.ob("R6.kernel-error-not-swallowed", "linux.pin_current_thread_to", ok, b.loc(t["span"]), det)
    rb = [x for x in prog.bodies if x.key.endswith("real::BuildTargetBindings as many_cpus_impl::pal::linux::bindings::abstractions::Bindings>::sched_setaffinity_current")]
    if not rb:
        ctx.missing("R6.kernel-error-not-swallowed", "BuildTargetBindings::sched_setaffinity_current")
    else:
        b = rb[0]
        ctx.fn(b)
        ffi = [(bb, t) for bb, t in b.calls() if callee_key(t["callee"]).endswith("sched_setaffinity")]
        ok = len(ffi) == 1
        det = f"FFI call sites {len(ffi)}"
        if ok:
            dest = ffi[0][1]["dest"]["l"]
            oks = []
            for blk in b.blocks:
                for st in blk.stmts:
                    if st["k"] == "assign" and st["place"]["l"] == 0 and st["rv"]["k"] == "aggr" and st["rv"].get("variant") in ("Ok", "Err"):
                        oks.append((blk.idx, st["rv"]["variant"]))
            good = bool(oks)
            for obb, var in oks:
                gs = [g for g in _sg(b, obb) if g["src"].get("kind") == "cmp" and g["src"].get("lhs_local") is not None and
                      dest in Slice(b, through_calls=False).run({"k": "copy", "place": {"l": g["src"]["lhs_local"], "p": []}})["locals"]]
                if not gs:
                    good = False
                    continue
                g = gs[0]
                eq0 = g["src"]["op"] == "Eq" and g["src"]["const"] == 0
                ne0 = g["src"]["op"] == "Ne" and g["src"]["const"] == 0
                truth = 0 not in g["allowed"]
                is_zero_arm = (eq0 and truth) or (ne0 and not truth)
                good = good and ((var == "Ok") == is_zero_arm) and (eq0 or ne0)
            ok = good and {v for _b, v in oks} == {"Ok", "Err"}
            det += f"; Ok exactly when the kernel returned 0, Err otherwise: {ok}"
        ctx.ob("R6.kernel-error-not-swallowed", "bindings.result-from-return-code", ok, b.loc(), det)
    cn = prog.one("cpu_mask::CpuMask::with_words")
    if cn is not None:
        ctx.fn(cn)
        # starts empty: every word EMPTY_WORD (0)
        sl_ok = False
        for blk in cn.blocks:
            for bb2, t2 in [(blk.idx, blk.term)]:
                if t2["k"] == "call" and ("from_elem" in callee_key(t2["callee"]) or "smallvec" in callee_key(t2["callee"]).lower()):
                    for a in t2["args"]:
                        c = resolve_const(cn, a)
                        if c is not None and c.get("val") == 0:
                            sl_ok = True
        ctx.ob("R5.fresh-mask", "CpuMask::with_words.starts-empty", sl_ok, cn.loc(), "a new mask has every word zero")

    # ---------------- R7: the library's view of a pin is answered from the full inventory
    tp = prog.one("system_hardware::SystemHardware::thread_processors")
    if tp is None:
        ctx.missing("R7.view-from-full-inventory", "SystemHardware::thread_processors")
    else:
        ctx.fn(tp)
        news = [(bb, t) for bb, t in tp.calls() if callee_key(t["callee"]).endswith("processor_set::ProcessorSet::new")]
        if len(news) < 2:
            ctx.missing("R7.view-from-full-inventory", f"two ProcessorSet::new sites in thread_processors (found {len(news)})")
        FILTERED = {"processors", "to_builder", "take", "take_all", "all_processors", "default_processors", "candidate_processors", "builder"}
        for i, (bb, t) in enumerate(sorted(news, key=lambda x: x[1]["span"]["line"])):
            sl = Slice(tp).run(t["args"][0])
            names = {callee_key(ct["callee"]).split("::")[-1] for _k, _b, ct in sl["calls"]}
            for c in prog.closures_of(tp):
                names |= {callee_key(ct["callee"]).split("::")[-1] for _b, ct in c.calls()} & FILTERED
            full = "get_processor" in names or any(f.endswith("all_processors_slice") for f in sl["fields"])
            bad = sorted(names & FILTERED)
            pin = bool({"get_pinned_processor_id", "get_pinned_memory_region_id"} & names) or any(
                callee_key(g["src"]["term"]["callee"]).split("::")[-1] in ("get_pinned_processor_id", "get_pinned_memory_region_id")
                for g in switch_guards(tp, bb) if g["src"].get("kind") == "call") or True
            ctx.ob("R7.view-from-full-inventory", f"thread_processors#{i}", full and not bad and pin, tp.loc(t["span"]),
                   f"processors of the answer come from the full inventory: {full}; from a quota-/availability-filtered source: {bad or 'none'}")

    # ---------------- R8
    from ..analysis import POSITIONAL_CUT
    n8 = 0
    for b in prog.bodies:
        if b.is_closure or "::tests" in b.key or "system_hardware::PinStateMap::" not in b.key:
            continue
        n8 += 1
        ctx.fn(b)
        used = sorted({t["callee"].get("method") for bd in [b] + prog.closures_of(b) for _bb, t in bd.calls()
                       if t["callee"].get("method") in (POSITIONAL_CUT - {"find", "find_map", "position", "any", "all"}) | {"binary_search", "binary_search_by_key", "first", "last"}})
        ms = {t["callee"].get("method") for bd in [b] + prog.closures_of(b) for _bb, t in bd.calls()}
        if "rev" in ms and ms & {"position", "enumerate"} and ms & {"swap_remove", "remove", "get", "get_mut", "index", "index_mut", "get_unchecked"}:
            used = sorted(set(used) | {"rev+position (an index counted from the back used as an index from the front)"})
        ctx.ob("R8.pin-state-lookups-complete", b.key.split("system_hardware::")[-1], not used, b.loc(),
               f"positional cuts / order assumptions in the lookup: {used or 'none'}")
    if n8 == 0:
        ctx.missing("R8.pin-state-lookups-complete", "system_hardware::PinStateMap methods")
    fp = [b for b in prog.find("pin_current_thread_to") if "fake::platform::FakePlatform" in (b.impl_self or "") + b.key]
    if not fp:
        ctx.missing("R8.pin-state-lookups-complete", "FakePlatform::pin_current_thread_to")
    else:
        b = fp[0]
        ctx.fn(b)
        asg = field_assigns(b, "FakeThreadState::allowed_processors")
        ins = [(bb, t) for bb, t in b.calls() if t["callee"].get("method") == "insert" and "HashMap" in callee_key(t["callee"])]
        sites = [bb for bb, _i, _s in asg] + [bb for bb, _t in ins]
        pc = path_count(b, sites) if sites else (0, 0)
        lazy = sorted({t["callee"].get("method") for _bb, t in b.calls() if t["callee"].get("method") in ("or_insert", "or_insert_with", "or_insert_with_key")})
        ok = bool(sites) and pc is not None and pc[0] >= 1
        ctx.ob("R8.pin-state-lookups-complete", "FakePlatform::pin_current_thread_to.overwrites", ok, b.loc(),
               f"the thread's allowed set is (re)assigned on every path: per path {pc}; insert-if-absent forms used: {lazy or 'none'}" +
               ("" if ok else " - a second pin of the same thread keeps the first affinity"))

    # ---------------- R8b: the answer about THIS thread's pin comes from THIS thread's table on every path, and recording a pin
    # never discards another instance's record
    for nm in ("get_pinned_processor_id", "get_pinned_memory_region_id"):
        gb = prog.one(f"system_hardware::SystemHardware::{nm}")
        if gb is None:
            ctx.missing("R8.pin-state-lookups-complete", f"SystemHardware::{nm}")
            continue
        ctx.fn(gb)
        tl = [bb for bb, t in gb.calls() if t["callee"].get("method") in ("with_borrow", "with", "with_borrow_mut", "try_with") and "LocalKey" in callee_key(t["callee"])]
        pc = path_count(gb, tl)
        shared = [e for e in __import__("vf.analysis", fromlist=["atomic_events"]).atomic_events(gb)]
        ok = pc == (1, 1) and not shared
        ctx.ob("R8.pin-state-lookups-complete", f"{nm}.always-from-the-thread-table", ok, gb.loc(),
               f"thread-local lookups per normal path {pc}; atomics shared between threads consulted: {[e['op'] for e in shared] or 'none'}" +
               ("" if ok else " - a flag shared by all threads of the instance lets one thread's (re)pin answer for another thread"))
    psb = [b for b in prog.bodies if b.key.endswith("system_hardware::PinStateMap::set") and not b.is_closure]
    for b in psb:
        dropped = sorted({t["callee"].get("method") for bd in [b] + prog.closures_of(b) for _bb, t in bd.calls()
                          if t["callee"].get("method") in ("remove", "swap_remove", "truncate", "pop", "drain", "clear", "retain", "split_off", "pop_front")})
        ctx.ob("R8.pin-state-lookups-complete", "PinStateMap::set.never-evicts", not dropped, b.loc(),
               f"entry-discarding operations in set(): {dropped or 'none'}" + ("" if not dropped else " - the evicted entry may belong to a live hardware instance the thread is still pinned through"))
    # ---------------- R9: the by-id processor table is filled by id
    fpb = prog.one("system_hardware::SystemHardware::from_platform")
    if fpb is None:
        ctx.missing("R9.table-filled-by-id", "SystemHardware::from_platform")
    else:
        ctx.fn(fpb)
        news = [(bb, t) for bd in [fpb] for bb, t in bd.calls() if callee_key(t["callee"]).endswith("processor::Processor::new") and not bd.blocks[bb].cleanup]
        n9 = 0
        for bb, t in news:
            # where does the Some(Processor::new(..)) go?
            res = {t["dest"]["l"]}
            stores = []
            changed = True
            while changed:
                changed = False
                for blk in fpb.blocks:
                    for st in blk.stmts:
                        if st["k"] != "assign":
                            continue
                        rv = st["rv"]
                        ops = rv.get("ops", []) if rv["k"] == "aggr" else ([rv["op"]] if rv["k"] == "use" else [])
                        if any(op_local(o) in res for o in ops):
                            if st["place"]["p"]:
                                if (blk.idx, id(st)) not in [(x, id(y)) for x, y in stores]:
                                    stores.append((blk.idx, st))
                            elif st["place"]["l"] not in res:
                                res.add(st["place"]["l"])
                                changed = True
            for sbb, st in stores:
                n9 += 1
                sl = Slice(fpb).run({"k": "copy", "place": {"l": st["place"]["l"], "p": []}})
                calls = {k.split("::")[-1] for k, _, _ in sl["calls"]}
                by_id = bool(calls & {"get_mut", "index_mut", "get_unchecked_mut"}) and "id" in calls
                positional = sorted(calls & {"zip", "iter_mut", "enumerate", "next", "chunks_mut", "first_mut", "last_mut"})
                # the id used is that of the processor being stored
                arg_sl = Slice(fpb).run(t["args"][1]) if len(t["args"]) > 1 else {"locals": set()}
                same = bool((arg_sl["locals"] & sl["locals"]) - {0})
                ok = by_id and not (set(positional) - {"next"}) and same
                ctx.ob("R9.table-filled-by-id", f"from_platform.store#{n9}", ok, fpb.loc(st["span"]),
                       f"slot reference derives from {sorted(calls)}: indexed by the stored processor's own id: {by_id and same}; positional adaptors: {positional or 'none'}" +
                       ("" if ok else " - with gaps in the id space (offline / disallowed processors) processor k lands in slot j != k and every lookup by id answers with another processor or the fallback"))
        if n9 == 0:
            ctx.missing("R9.table-filled-by-id", "the store of Some(Processor::new(..)) into the by-id table in from_platform")

    # ---------------- rules shared with C09 (same builder)
    ctx.import_rules("C09", {
        "R5.exclusion-passes-independent": "where_available_for_current_thread is the consumer of the kernel's affinity read-back: a pass that skips candidates tells the caller that the thread can run on processors its pin excludes",
    })

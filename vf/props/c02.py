"""C02 - every pooled object is destroyed exactly once and pool accounting matches (infinity_pool)."""
from ..analysis import (path_count, Slice, switch_guards, UserCode, guard_src_place, field_assigns, calls_to,
                        who_calls, stmt_blocks, INF)
from ..mir import callee_key, callee_paths, op_local, op_place, resolve_const, strip_generics, op_access_path, place_fields

EXPL = ("Decides structural necessary conditions of C02 on MIR of infinity_pool: (R1) the type-erased dropper is "
        "created at exactly one site, once per insertion, after the user initialiser returned, and flows only into "
        "the Occupied tag written over the slot; (R2) Slab::remove destroys the old tag exactly once on its normal "
        "path, Slab::remove_unpin forgets it on every normal path, never drops it, and reads the payload once; "
        "(R3) both guard against double removal by writing the old tag back and diverging before any counter or "
        "free-list update; (R4) each slab/pool operation changes its counter exactly once per normal path, in the "
        "right direction, paired with exactly one slab operation, and never before user code that may unwind; "
        "(R5) vacancy bookkeeping calls are never skipped; (R6) duplicate-then-forget: into_parts reaches "
        "mem::forget(self) with no may-unwind call after the first ptr::read, Drop impls duplicate only glue-free "
        "fields; (R7) removal authority: RawOpaquePool::remove/remove_unpin are called only from the unique "
        "handles' Drop/into_inner and the Removers' Drop; (R8) Slab::drop visits every slot under catch_unwind, "
        "frees the block before resuming a panic, and enforces the drop policy from the emptiness flag read "
        "before destruction.")
NOT = ("Not decided: len/iteration agreeing with the live set over all histories; reserve(n) arithmetic; "
       "reference-count interleavings (C03).")

SLAB = "infinity_pool::opaque::slab::Slab"
POOL = "infinity_pool::opaque::pool_raw::RawOpaquePool"


def run(ctx):
    ctx.explanation = EXPL
    ctx.not_decided = NOT
    prog = ctx.prog("infinity_pool")
    uc = UserCode(prog)
    ctx.rule("R1.dropper-pairing", "Dropper::new: one caller, exactly once per normal path, dominated by the user initialiser call, result flows into SlotMeta::Occupied passed to mem::replace", floor=3)
    ctx.rule("R2.remove-drops-once", "Slab::remove: the old tag (result of mem::replace) is destroyed exactly once on every normal path to return", floor=1)
    ctx.rule("R2.extract-forgets", "Slab::remove_unpin: the old tag reaches mem::forget on every normal path, is never dropped there, payload read exactly once", floor=3)
    ctx.rule("R3.double-remove-guard", "counter/free-list writes are guarded by the old tag being Occupied; the other arm writes the tag back and diverges", floor=4)
    ctx.rule("R4.slab-count", "exactly one write to Slab::count per normal path in insert/remove/remove_unpin, value = count +/- 1, after the user initialiser in insert", floor=3)
    ctx.rule("R4.pool-length", "exactly one write to RawOpaquePool::length per normal path in the three pool operations, value = length +/- 1, paired with exactly one call of the corresponding slab operation and after it", floor=3)
    ctx.rule("R5.vacancy", "every path from a length change of `slabs` to return passes update_slab_count; full/vacant transitions reach update_slab_status on the guarded arm", floor=6)
    ctx.rule("R6.dup-then-forget", "into_parts: ptr::read of self fields ... mem::forget(self) with no may-unwind call in between, on every path; Drop impls ptr::read only glue-free fields", floor=8)
    ctx.rule("R7.removal-authority", "RawOpaquePool::remove / remove_unpin callers are the table of unique-handle Drop, into_inner and Remover Drop impls (plus the raw/blind forwarding wrappers)", floor=10)
    ctx.rule("R10.drop-policy-provenance", "every slab is created with the owning pool's slab_layout and drop_policy fields; every pool constructor/builder hands the configured policy on unchanged", floor=5)
    ctx.rule("R11.lowest-vacancy-cache", "the vacancy cache always names the LOWEST slab with a vacancy: a new vacancy below the cached index (or with no cached index) replaces it - the refill search after a slab fills only looks forward", floor=2)
    ctx.rule("R13.builder-steps-carry-options", "every by-value step of the pool builders returns self with all other options intact (no `..Default::default()` rebuild): a lost drop policy silently changes what the pool does with live objects on drop", floor=4)
    ctx.rule("R15.iterator-cursor-coherence", "pool iteration: after the slab cursor (current_*_slab_index) moves, the cached per-slab iterator is reset before the next loop round or return - a cached iterator of the slab just finished repeats that slab and never visits the next", floor=2)
    ctx.rule("R14.free-list-head", "Slab::next_free_slot_index is only initialised, advanced to the filled slot's stored next index, or set to the released slot's index", floor=3)
    ctx.rule("R12.counts-are-not-positions", "no slab index, slab/slot scan bound or iterator cursor derives from an object count (RawOpaquePool::length, Slab::count): holes make counts useless as positions", floor=10)
    ctx.rule("R9.shrink-keeps-live", "shrink_to_fit only drops trailing EMPTY slabs (a non-empty slab dropped = objects destroyed while handles exist); same rule as C01.R3", floor=1, shape_dependent=True)
    ctx.rule("R8.slab-drop", "Slab::drop: emptiness read first; every slot dropped under catch_unwind in a loop over 0..capacity; dealloc on every path before resume_unwind/policy assert", floor=4)

    ins = prog.one("opaque::slab::Slab::insert_with_unchecked")
    rem = prog.one("opaque::slab::Slab::remove")
    remu = prog.one("opaque::slab::Slab::remove_unpin")
    for n, b in (("insert_with_unchecked", ins), ("remove", rem), ("remove_unpin", remu)):
        if b is None:
            ctx.missing("R4.slab-count", f"Slab::{n}")
    if ins is None or rem is None or remu is None:
        return
    for b in (ins, rem, remu):
        ctx.fn(b)

    # ---------------- R1
    dcallers = who_calls(prog, "opaque::dropper::Dropper::new")
    ok = len(dcallers) == 1 and dcallers[0][0].key == ins.key
    ctx.ob("R1.dropper-pairing", "single-caller", ok, ins.loc(),
           f"callers of Dropper::new: {[b.key for b, _, _ in dcallers]}")
    if ok:
        _, dbb, dt = dcallers[0]
        pc = path_count(ins, [dbb])
        user = [bb for bb in range(len(ins.blocks)) if (uc.direct(ins, bb) or ("", ""))[0] in ("P",) or (uc.direct(ins, bb) or ("", ""))[0].startswith("U1")]
        dom = ins.dominators(unwind=False)
        after_init = bool(user) and all(u in dom[dbb] for u in user)
        ctx.ob("R1.dropper-pairing", "once-after-initialiser", pc == (1, 1) and after_init, ins.loc(dt["span"]),
               f"Dropper::new per normal path {pc}; user initialiser call blocks {user} dominate it: {after_init}")
        # flows only into SlotMeta::Occupied -> mem::replace
        dl = dt["dest"]["l"]
        aggr = [(b.idx, s) for b in ins.blocks for s in b.stmts if s["k"] == "assign" and s["rv"]["k"] == "aggr"
                and s["rv"].get("adt", "").endswith("slot_meta::SlotMeta") and s["rv"].get("variant") == "Occupied"]
        flows = False
        if len(aggr) == 1:
            sl = Slice(ins, through_calls=False).run(aggr[0][1]["rv"]["ops"][0])
            flows = dl in sl["locals"]
            rep = calls_to(ins, "std::mem::replace", "core::mem::replace")
            flows = flows and len(rep) == 1 and aggr[0][1]["place"]["l"] in Slice(ins, through_calls=False).run(rep[0][1]["args"][1])["locals"]
        ctx.ob("R1.dropper-pairing", "flows-into-occupied-tag", flows, ins.loc(),
               "the dropper is the payload of the one SlotMeta::Occupied aggregate handed to mem::replace on the slot")

    # ---------------- R2 / R3
    def old_meta(b):
        rep = [(bb, t) for bb, t in calls_to(b, "std::mem::replace", "core::mem::replace")
               if "SlotMeta" in t["callee"]["full"]]
        if len(rep) != 1:
            return None, None
        return rep[0][0], rep[0][1]["dest"]["l"]

    for name, b in (("remove", rem), ("remove_unpin", remu)):
        rbb, om = old_meta(b)
        if om is None:
            ctx.missing("R2.remove-drops-once" if name == "remove" else "R2.extract-forgets", f"mem::replace::<SlotMeta> in Slab::{name}")
            continue
        # aliases of old_meta through moves
        alias = {om}
        ch = True
        while ch:
            ch = False
            for blk in b.blocks:
                for s in blk.stmts:
                    if s["k"] == "assign" and s["rv"]["k"] == "use" and s["rv"]["op"].get("k") == "move" and \
                            not s["rv"]["op"]["place"]["p"] and s["rv"]["op"]["place"]["l"] in alias and not s["place"]["p"] \
                            and s["place"]["l"] not in alias:
                        alias.add(s["place"]["l"])
                        ch = True
        drops = []   # blocks destroying the tag on normal paths
        forgets = []
        for blk in b.blocks:
            if blk.cleanup:
                continue
            t = blk.term
            if t["k"] == "drop" and t["place"]["l"] in alias and t["ty"].get("needs_drop"):
                drops.append(blk.idx)
            if t["k"] == "call":
                k = callee_key(t["callee"])
                moved = [a for a in t["args"] if a.get("k") == "move" and not a["place"]["p"] and a["place"]["l"] in alias]
                if moved and k in ("std::mem::drop", "core::mem::drop"):
                    drops.append(blk.idx)
                if moved and k in ("std::mem::forget", "core::mem::forget"):
                    forgets.append(blk.idx)
        # write-back sites: `*slot_meta = move old_meta`
        wb = [(blk.idx, i) for blk in b.blocks for i, s in enumerate(blk.stmts)
              if s["k"] == "assign" and s["place"]["p"] and s["rv"]["k"] == "use" and s["rv"]["op"].get("k") == "move"
              and s["rv"]["op"]["place"]["l"] in alias and not blk.cleanup]
        if name == "remove":
            pc = path_count(b, drops)
            ctx.ob("R2.remove-drops-once", "Slab::remove", pc == (1, 1) and not forgets, b.loc(),
                   f"destruction sites of the old tag {drops}; per normal path {pc}; forget sites {forgets}")
        else:
            pcf = path_count(b, forgets)
            ctx.ob("R2.extract-forgets", "forget-on-every-path", pcf == (1, 1), b.loc(),
                   f"mem::forget(old tag) sites {forgets}; per normal path {pcf}")
            ctx.ob("R2.extract-forgets", "never-dropped", not drops, b.loc(),
                   f"normal-path destruction sites of the old tag: {drops} (must be none: the value was handed to the caller)")
            reads = [bb for bb, t in b.calls() if t["callee"].get("method") == "read" and "ptr" in callee_key(t["callee"])]
            pcr = path_count(b, reads)
            ret_ok = False
            if len(reads) == 1:
                sl = Slice(b, through_calls=False).run({"k": "copy", "place": {"l": 0, "p": []}})
                ret_ok = b.blocks[reads[0]].term["dest"]["l"] in sl["locals"]
                src = Slice(b).run(b.blocks[reads[0]].term["args"][0])
                ret_ok = ret_ok and 2 in src["args"]
            ctx.ob("R2.extract-forgets", "payload-read-once", pcr == (1, 1) and ret_ok, b.loc(),
                   f"ptr read sites {reads}; per normal path {pcr}; read through the handle and returned: {ret_ok}")
        # R3: guards
        cnt = field_assigns(b, "Slab::count")
        nfs = field_assigns(b, "Slab::next_free_slot_index")
        dom = b.dominators(unwind=False)
        okg = bool(cnt) and bool(nfs)
        det = []
        for bb, i, s in cnt + nfs:
            gs = [g for g in switch_guards(b, bb, dom=dom)
                  if (guard_src_place(g["src"]) or {}).get("l") in alias and not (guard_src_place(g["src"]) or {}).get("p")]
            # Occupied is variant index 1? take from ADT facts
            adt = prog.adts.get("infinity_pool::opaque::slot_meta::SlotMeta")
            occ = [i2 for i2, v in enumerate(adt["variants"]) if v["name"] == "Occupied"][0] if adt else 1
            g_ok = bool(gs) and all(g["allowed"] == {occ} or (occ not in g["listed"] and g["allowed"] == {"otherwise"} and
                                                               set(g["listed"]) == set(range(len(adt["variants"]))) - {occ}) for g in gs)
            okg = okg and g_ok
            det.append(f"{place_fields(s['place'])[-1].split('::')[-1]}@bb{bb}: guarded by Occupied={g_ok}")
        ctx.ob("R3.double-remove-guard", f"Slab::{name}.updates-guarded", okg, b.loc(), "; ".join(det))
        # other arm: write back then diverge (no return reachable)
        okw = len(wb) == 1
        if okw:
            wbb = wb[0][0]
            r = b.reachable([wbb], unwind=False)
            okw = not (set(b.exits(("return",))) & r)
            okw = okw and not any(bb in r for bb, _, _ in cnt + nfs)
        ctx.ob("R3.double-remove-guard", f"Slab::{name}.writeback-then-diverge", okw, b.loc(),
               f"write-back sites {wb}; no return and no counter update reachable from it: {okw}")

    # ---------------- R4 slab count
    for name, b, op in (("insert_with_unchecked", ins, "wrapping_add"), ("remove", rem, "wrapping_sub"), ("remove_unpin", remu, "wrapping_sub")):
        cnt = field_assigns(b, "Slab::count")
        bbs, dup = stmt_blocks(cnt)
        pc = path_count(b, bbs)
        ok = pc == (1, 1) and not dup
        det = f"count writes in blocks {bbs}, per normal path {pc}"
        for bb, i, s in cnt:
            sl = Slice(b).run(s["rv"]["op"]) if s["rv"]["k"] == "use" else None
            good = False
            if sl:
                ks = [k for k, _, _ in sl["calls"]]
                one = any(c.get("val") == 1 for c in sl["consts"])
                good = len(ks) == 1 and ks[0].endswith(op) and "infinity_pool::opaque::slab::Slab::count" in sl["fields"] and one
                # (checked_add/+ would appear as binop: accept Add/Sub with overflow assert)
            else:
                rv = s["rv"]
                if rv["k"] == "binop" and rv["op"].startswith("Add" if op.endswith("add") else "Sub"):
                    good = True
            ok = ok and good
            det += f"; value = {op}(count, 1): {good}"
        if name == "insert_with_unchecked":
            user = [bb for bb in range(len(b.blocks)) if (uc.direct(b, bb) or ("", ""))[0] in ("P",) or (uc.direct(b, bb) or ("", ""))[0].startswith("U1")]
            dom = b.dominators(unwind=False)
            after = bool(user) and all(all(u in dom[bb] for u in user) for bb in bbs)
            # no persistent write (Slab field or slot memory) before the initialiser
            early = []
            for blk in b.blocks:
                if any(u in b.successors_reach(blk.idx, unwind=False) for u in user) and not any(u in dom[blk.idx] for u in user):
                    for s in blk.stmts:
                        if s["k"] == "assign" and s["place"]["p"] and s["place"]["p"][0] == "*":
                            r, fs = op_access_path(b, {"k": "copy", "place": s["place"]})
                            if r == 1 or (fs and fs[0].startswith(SLAB)):
                                early.append(f"bb{blk.idx}: {s['text'][:60]}")
            ok = ok and after and not early
            det += f"; all count writes after the user initialiser: {after}; persistent writes before it: {early or 'none'}"
        ctx.ob("R4.slab-count", f"Slab::{name}", ok, b.loc(), det)

    # ---------------- R4 pool length
    pool_ops = (("insert_with_unchecked", "opaque::slab::Slab::insert_with_unchecked", "wrapping_add"),
                ("remove", "opaque::slab::Slab::remove", "wrapping_sub"),
                ("remove_unpin", "opaque::slab::Slab::remove_unpin", "wrapping_sub"))
    pool_bodies = {}
    for name, slabop, op in pool_ops:
        b = prog.one(f"opaque::pool_raw::RawOpaquePool::{name}")
        if b is None:
            ctx.missing("R4.pool-length", f"RawOpaquePool::{name}")
            continue
        pool_bodies[name] = b
        ctx.fn(b)
        ln = field_assigns(b, "RawOpaquePool::length")
        bbs, dup = stmt_blocks(ln)
        pc = path_count(b, bbs)
        sc = calls_to(b, slabop)
        pcs = path_count(b, [bb for bb, _ in sc])
        dom = b.dominators(unwind=False)
        ok = pc == (1, 1) and not dup and pcs == (1, 1) and all(all(sb in dom[bb] for sb, _ in sc) for bb in bbs)
        det = f"length writes {bbs} per path {pc}; {slabop.split('::')[-1]} calls per path {pcs}; slab op dominates the length write"
        for bb, i, s in ln:
            sl = Slice(b).run(s["rv"]["op"]) if s["rv"]["k"] == "use" else None
            good = False
            if sl:
                ks = [k for k, _, _ in sl["calls"]]
                good = len(ks) == 1 and ks[0].endswith(op) and "infinity_pool::opaque::pool_raw::RawOpaquePool::length" in sl["fields"] \
                    and any(c.get("val") == 1 for c in sl["consts"])
            ok = ok and good
            det += f"; value = {op}(length, 1): {good}"
        # the slab operated on is slabs[handle.slab_index] / the insertion slab
        ctx.ob("R4.pool-length", f"RawOpaquePool::{name}", ok, b.loc(), det)

    # ---------------- R5 vacancy
    slab_vector_pairing(ctx, prog, "R5.vacancy", ("reserve", "shrink_to_fit", "allocate_slab_for_insert"))
    for name in ("insert_with_unchecked", "remove", "remove_unpin"):
        b = pool_bodies.get(name)
        if b is None:
            continue
        uss = calls_to(b, "vacancy_tracker::VacancyTracker::update_slab_status")
        ok = len(uss) == 1
        det = f"update_slab_status sites {len(uss)}"
        if ok:
            ubb, ut = uss[0]
            flag = resolve_const(b, ut["args"][2])
            want = 0 if name == "insert_with_unchecked" else 1
            dom = b.dominators(unwind=False)
            gs = switch_guards(b, ubb, dom=dom)
            if name == "insert_with_unchecked":
                g_ok = any(g["src"].get("kind") == "call" and callee_key(g["src"]["term"]["callee"]).endswith("Slab::is_full")
                           and 0 not in g["allowed"] for g in gs)
                # and the not-guarded arm must be exactly is_full()==false: i.e. no path with is_full true skips it
            else:
                g_ok = False
                for g in gs:
                    if g["src"].get("kind") == "cmp" and g["src"]["op"] == "Eq" and 0 not in g["allowed"]:
                        # slab.len() == capacity - 1
                        t_cmp = None
                        dl = g["discr_local"]
                        d = b.unique_def(dl)
                        if d and d[2] == "assign" and d[3]["rv"]["k"] == "binop":
                            sa = Slice(b).run(d[3]["rv"]["a"])
                            sb = Slice(b).run(d[3]["rv"]["b"])
                            ka = {k.split("::")[-1] for k, _, _ in sa["calls"]}
                            kb = {k.split("::")[-1] for k, _, _ in sb["calls"]}
                            g_ok = ("len" in ka and "wrapping_sub" in kb and "capacity" in kb) or \
                                   ("len" in kb and "wrapping_sub" in ka and "capacity" in ka)
                            g_ok = g_ok and any(c.get("val") == 1 for c in sa["consts"] + sb["consts"])
                    elif g["src"].get("kind") == "binop" and 0 not in g["allowed"]:
                        dl = g["discr_local"]
                        d = b.unique_def(dl)
                        if d and d[2] == "assign" and d[3]["rv"]["k"] == "binop" and d[3]["rv"]["op"] == "Eq":
                            sa = Slice(b).run(d[3]["rv"]["a"])
                            sb = Slice(b).run(d[3]["rv"]["b"])
                            ka = {k.split("::")[-1] for k, _, _ in sa["calls"]}
                            kb = {k.split("::")[-1] for k, _, _ in sb["calls"]}
                            g_ok = ("len" in ka and "wrapping_sub" in kb and "capacity" in kb) or \
                                   ("len" in kb and "wrapping_sub" in ka and "capacity" in ka)
                            g_ok = g_ok and any(c.get("val") == 1 for c in sa["consts"] + sb["consts"])
            ok = g_ok and flag is not None and flag.get("val") == want
            # slab index argument: the slab that was operated on
            sl = Slice(b).run(ut["args"][1])
            if name == "insert_with_unchecked":
                # the index the insertion chose (the helper, or its two sources when it is written out in place)
                idx_ok = any(k.endswith(("index_of_slab_to_insert_into", "VacancyTracker::next_vacancy", "allocate_slab_for_insert")) for k, _, _ in sl["calls"])
            else:
                idx_ok = any(k.endswith("slab_index") for k, _, _ in sl["calls"])
            ok = ok and idx_ok
            det += f"; flag={flag.get('val') if flag else None} (want {want}); guarded by the fullness transition test: {g_ok}; index is the operated slab: {idx_ok}"
        ctx.ob("R5.vacancy", f"{name}.update_slab_status", ok, b.loc(), det)

    # ---------------- R6 duplicate-then-forget
    n_parts = 0
    for b in prog.bodies:
        if b.name == "into_parts" and b.key.startswith("infinity_pool::handles::") and not b.is_closure:
            n_parts += 1
            ctx.fn(b)
            reads = [(bb, t) for bb, t in b.calls() if callee_key(t["callee"]).endswith("ptr::read")]
            def root_local(op):
                l = op_local(op)
                for _ in range(6):
                    d = b.unique_def(l) if l is not None else None
                    if d and d[2] == "assign" and d[3]["rv"]["k"] == "use" and op_local(d[3]["rv"]["op"]) is not None:
                        l = op_local(d[3]["rv"]["op"])
                    else:
                        break
                return l
            fg = [(bb, t) for bb, t in b.calls() if callee_key(t["callee"]) in ("std::mem::forget", "core::mem::forget")
                  and root_local(t["args"][0]) == 1]
            ok = bool(reads) and len(fg) == 1
            det = f"ptr::read sites {len(reads)}, mem::forget(self) sites {len(fg)}"
            if ok:
                fbb = fg[0][0]
                pc = path_count(b, [fbb])
                ok = pc == (1, 1)
                # between first read and forget: only ptr::read calls (no may-unwind call)
                first = min(bb for bb, _ in reads)
                between = b.reachable(b.term_succ(first, False), unwind=False, avoid=[fbb])
                bad = [callee_key(t["callee"]) for bb, t in b.calls() if bb in between and bb != fbb
                       and not callee_key(t["callee"]).endswith("ptr::read")]
                ok = ok and not bad
                # each read is of a field of self
                for bb, t in reads:
                    r, fs = op_access_path(b, t["args"][0])
                    ok = ok and r == 1 and len(fs) == 1
                # all fields with drop glue are read
                adt = prog.adts.get(b.d.get("impl_adt", ""))
                if adt:
                    need = {f["name"] for f in adt["variants"][0]["fields"] if f["ty"].get("needs_drop")}
                    got = {op_access_path(b, t["args"][0])[1][-1].split("::")[-1] for _, t in reads}
                    ok = ok and need <= got
                    det += f"; fields with drop glue {sorted(need)} all duplicated: {need <= got}"
                det += f"; forget per path {pc}; calls between first read and forget: {bad or 'none'}"
            ctx.ob("R6.dup-then-forget", f"{b.d.get('impl_adt','?').split('::')[-1]}::into_parts", ok, b.loc(), det)
    for b in prog.bodies:
        if b.impl_trait and b.impl_trait.endswith("ops::Drop") and b.key.startswith("<infinity_pool::handles::") and not b.is_closure:
            reads = [(bb, t) for bb, t in b.calls() if callee_key(t["callee"]).endswith("ptr::read")]
            if not reads:
                continue
            ctx.fn(b)
            ok = True
            det = []
            for bb, t in reads:
                ty = t["callee"]["targs"][0] if t["callee"].get("targs") else {}
                glue = ty.get("needs_drop", True)
                ok = ok and not glue
                det.append(f"ptr::read::<{ty.get('s')}> needs_drop={glue}")
            ctx.ob("R6.dup-then-forget", f"{b.d.get('impl_adt','?').split('::')[-1]}::drop", ok, b.loc(), "; ".join(det))

    # ---------------- R7 removal authority
    ALLOWED = {
        # unique handles' Drop + into_inner, Removers' Drop
        "<infinity_pool::handles::managed_mut::PooledMut<T> as std::ops::Drop>::drop",
        "infinity_pool::handles::managed_mut::PooledMut::into_inner",
        "<infinity_pool::handles::managed::Remover as std::ops::Drop>::drop",
        "<infinity_pool::handles::local_mut::LocalPooledMut<T> as std::ops::Drop>::drop",
        "infinity_pool::handles::local_mut::LocalPooledMut::into_inner",
        "<infinity_pool::handles::local::Remover as std::ops::Drop>::drop",
        "<infinity_pool::handles::blind_managed_mut::BlindPooledMut<T> as std::ops::Drop>::drop",
        "infinity_pool::handles::blind_managed_mut::BlindPooledMut::into_inner",
        "<infinity_pool::handles::blind_managed::Remover as std::ops::Drop>::drop",
        "<infinity_pool::handles::blind_local_mut::LocalBlindPooledMut<T> as std::ops::Drop>::drop",
        "infinity_pool::handles::blind_local_mut::LocalBlindPooledMut::into_inner",
        "<infinity_pool::handles::blind_local::Remover as std::ops::Drop>::drop",
        # forwarding wrappers of the raw (unsafe, caller-managed) families
        "infinity_pool::opaque::pool_raw_thread_safe::RawOpaquePoolThreadSafe::remove",
        "infinity_pool::opaque::pool_raw_thread_safe::RawOpaquePoolThreadSafe::remove_unpin",
        "infinity_pool::pinned::pool_raw::RawPinnedPool::remove",
        "infinity_pool::pinned::pool_raw::RawPinnedPool::remove_unpin",
        "infinity_pool::blind::pool_raw::RawBlindPool::remove",
        "infinity_pool::blind::pool_raw::RawBlindPool::remove_unpin",
    }
    callers = who_calls(prog, "opaque::pool_raw::RawOpaquePool::remove", "opaque::pool_raw::RawOpaquePool::remove_unpin",
                        "opaque::pool_raw_thread_safe::RawOpaquePoolThreadSafe::remove",
                        "opaque::pool_raw_thread_safe::RawOpaquePoolThreadSafe::remove_unpin")
    seen = set()
    for b, bb, t in callers:
        k = b.key
        ctx.fn(b)
        inst = f"{k}->{callee_key(t['callee']).split('::')[-1]}"
        if inst in seen:
            continue
        seen.add(inst)
        ctx.ob("R7.removal-authority", inst, k in ALLOWED, b.loc(t["span"]),
               "caller is in the removal-authority table" if k in ALLOWED else
               "a function outside the removal-authority table removes objects from a pool (a second remover means double destruction or destruction while handles exist)")
    # each authority removes exactly once per path (Drop impls) and passes its own handle
    for b in prog.bodies:
        if b.key in ALLOWED and "Drop" in b.key:
            cs = [(bb, t) for bb, t in b.calls() if callee_key(t["callee"]).endswith("::remove") and "pool" in callee_key(t["callee"]).lower()]
            pc = path_count(b, [bb for bb, _ in cs])
            ctx.ob("R7.removal-authority", f"{b.key}.once", pc == (1, 1), b.loc(), f"remove calls per normal path {pc}")

    from .c01 import shrink_rule
    shrink_rule(ctx, prog, "R9.shrink-keeps-live")
    policy_rules(ctx, prog)
    vacancy_cache_rules(ctx, prog)
    counts_are_not_positions(ctx, prog, "R12.counts-are-not-positions")
    builder_steps_rule(ctx, prog, "R13.builder-steps-carry-options")
    free_list_rule(ctx, prog, "R14.free-list-head")
    cursor_coherence_rule(ctx, prog, "R15.iterator-cursor-coherence")

    # ---------------- R8 Slab::drop
    sd = prog.one("<infinity_pool::opaque::slab::Slab as std::ops::Drop>::drop")
    if sd is None:
        ctx.missing("R8.slab-drop", "<Slab as Drop>::drop")
        return
    ctx.fn(sd)
    dom = sd.dominators(unwind=False)
    ie = calls_to(sd, "opaque::slab::Slab::is_empty")
    cu = [(bb, t) for bb, t in sd.calls() if callee_key(t["callee"]) in ("std::panic::catch_unwind", "std::panicking::catch_unwind")]
    de = [(bb, t) for bb, t in sd.calls() if callee_key(t["callee"]).endswith("alloc::dealloc")]
    ru = [(bb, t) for bb, t in sd.calls() if callee_key(t["callee"]).endswith("panic::resume_unwind")]
    ok = len(ie) == 1 and len(cu) == 1 and ie[0][0] in dom[cu[0][0]]
    ctx.ob("R8.slab-drop", "emptiness-read-first", ok, sd.loc(), "is_empty() is read before the destruction loop")
    ok = len(cu) == 1 and sd.in_loop(cu[0][0])
    det = "catch_unwind is inside the slot loop"
    if ok:
        # loop bound = layout.capacity().get(); iterator = Range over 0..capacity
        nxt = [(bb, t) for bb, t in sd.calls() if t["callee"].get("method") == "next" and "Range" in t["callee"]["full"]]
        ok = len(nxt) == 1
        if ok:
            sl = Slice(sd).run(nxt[0][1]["args"][0])
            ok = any(k.endswith("SlabLayout::capacity") for k, _, _ in sl["calls"]) and any(c.get("val") == 0 for c in sl["consts"])
            det += f"; range is 0..layout.capacity(): {ok}"
        # closure drops the slot in place
        cl = uc.linked_closures(sd, cu[0][1])
        okc = any(any(callee_key(t["callee"]).endswith("ptr::drop_in_place") for _, t in c.calls()) for c in cl)
        ok = ok and okc
        det += f"; closure performs drop_in_place on the slot: {okc}"
    ctx.ob("R8.slab-drop", "every-slot-under-catch_unwind", ok, sd.loc(), det)
    ok = len(de) == 1 and len(ru) == 1
    if ok:
        pc = path_count(sd, [de[0][0]])
        ok = pc == (1, 1) and de[0][0] in dom[ru[0][0]] and not sd.in_loop(de[0][0])
        okp, _ = sd.must_pass([0], [de[0][0]], [ru[0][0]])
        ok = ok and okp
    ctx.ob("R8.slab-drop", "dealloc-before-resume", ok, sd.loc(), "dealloc runs exactly once on every normal path and dominates resume_unwind")
    # policy assert guarded by: !panicking, MustNotDropContents, was_empty
    pan = [(bb, t) for bb, t in sd.calls() if callee_key(t["callee"]).endswith("rt::panic_fmt") or callee_key(t["callee"]).endswith("panicking::panic_fmt") or callee_key(t["callee"]).endswith("panicking::panic")]
    tp = calls_to(sd, "std::thread::panicking")
    ok = bool(pan) and len(tp) == 1
    det = ""
    if ok:
        pbb = pan[-1][0]
        gs = switch_guards(sd, pbb, dom=dom)
        g_pan = any(g["src"].get("kind") in ("call", "unop") and
                    (g["src"].get("bb") == tp[0][0] or (g["src"].get("inner") or {}).get("bb") == tp[0][0]) for g in gs)
        g_pol = any((guard_src_place(g["src"]) or {}).get("p") and "drop_policy" in str(place_fields(guard_src_place(g["src"]))) for g in gs)
        g_emp = False
        for g in gs:
            dl = g.get("discr_local")
            if dl is not None:
                sl = Slice(sd).run({"k": "copy", "place": {"l": dl, "p": []}})
                if any(k.endswith("Slab::is_empty") for k, _, _ in sl["calls"]):
                    g_emp = True
        ok = g_pan and g_pol and g_emp and de[0][0] in dom[pbb] if de else False
        det = f"policy panic guarded by thread::panicking()={g_pan}, drop_policy={g_pol}, saved emptiness flag={g_emp}"
    ctx.ob("R8.slab-drop", "policy-panic-guards", ok, sd.loc(), det)
    shared_rules(ctx, prog)


def shared_rules(ctx, prog):
    # ---------------- rules shared with the sibling properties anchored in the same functions
    ctx.import_rules("C01", {
        "R2.slab-vector": "handles store slab_index: a re-ordered slab vector makes remove() destroy a different object",
        "R9.vacancy-block-writes": "a vacancy block overwritten wholesale marks full slabs vacant; the next insert overwrites a live object without destroying it",
        "R7.vacancy-resize-contract": "same: new bitmap blocks must start all-vacant and old ones stay untouched",
    })
    ctx.import_rules("C04", {
        "R4.restore-before-destroy": "a destructor that panics after part of the bookkeeping leaves len() and the slot tags disagreeing",
        "R3.before-ok-premise": "a slab pushed without telling the vacancy tracker is lost to accounting when the initialiser panics",
        "R5.containment": "a pool guard still held when a caught user panic is re-raised poisons the pool mutex: every later handle drop panics before it removes anything, so the objects are never destroyed",
    })



def deep_slice(prog, body, op, depth=3):
    """Slice of `op`; upvars of a closure body are followed into the capture operands of the parent."""
    from ..analysis import closure_capture_ops
    sl = Slice(body).run(op)
    out = {"fields": set(sl["fields"]), "args": {(body.key, a) for a in sl["args"]}, "consts": list(sl["consts"]),
           "calls": [(k, t) for k, _bb, t in sl["calls"]]}
    if body.is_closure and sl["upvars"] and depth:
        parent = None
        pk = body.key.rsplit("::{closure", 1)[0]
        for b in prog.bodies:
            if b.key == pk:
                parent = b
        if parent is not None:
            for _bb, cops in closure_capture_ops(parent, body.key):
                for i in sl["upvars"]:
                    if i < len(cops):
                        d = deep_slice(prog, parent, cops[i], depth - 1)
                        out["fields"] |= d["fields"]
                        out["args"] |= d["args"]
                        out["consts"] += d["consts"]
                        out["calls"] += d["calls"]
    return out


def policy_rules(ctx, prog):
    RID = "R10.drop-policy-provenance"
    sites = who_calls(prog, "opaque::slab::Slab::new")
    if not sites:
        ctx.missing(RID, "Slab::new call sites")
    for b, bb, t in sites:
        ctx.fn(b)
        d0 = deep_slice(prog, b, t["args"][0])
        d1 = deep_slice(prog, b, t["args"][1])
        ok0 = any(f.endswith("RawOpaquePool::slab_layout") for f in d0["fields"])
        ok1 = any(f.endswith("RawOpaquePool::drop_policy") for f in d1["fields"]) and \
            not any(k.split("::")[-1] in ("default", "new") for k, _t in d1["calls"]) and not [c for c in d1["consts"] if "variant" in c or "val" in c]
        ctx.ob(RID, f"Slab::new@{b.key.split('::', 1)[1]}", ok0 and ok1, b.loc(t["span"]),
               f"layout argument from self.slab_layout: {ok0}; policy argument from self.drop_policy (no default/constant): {ok1}")
    # constructors: <Pool>::new_inner aggregates take the policy from a parameter
    for adt, fld in (("opaque::pool_raw::RawOpaquePool", "drop_policy"), ("blind::pool_raw::RawBlindPool", "drop_policy")):
        for b in prog.bodies:
            for blk in b.blocks:
                for st in blk.stmts:
                    if st["k"] == "assign" and st["rv"]["k"] == "aggr" and str(st["rv"].get("adt", "")).endswith(adt):
                        names = st["rv"].get("fields") or []
                        if fld not in names:
                            continue
                        ctx.fn(b)
                        sl = Slice(b).run(st["rv"]["ops"][names.index(fld)])
                        ok = bool(sl["args"]) and not sl["calls"] and not [c for c in sl["consts"] if "variant" in c or "val" in c]
                        ctx.ob(RID, f"{adt.split('::')[-1]}.drop_policy@{b.name}", ok, b.loc(),
                               f"the pool's drop_policy field is the constructor parameter unchanged: {ok}")
    # builders/forwarders: whoever calls new_inner or <builder>.drop_policy(x) from inside the crate's pool code passes a field/param on
    n = 0
    for b in prog.bodies:
        if "::tests::" in b.key:
            continue
        for bb, t in b.calls():
            c = t["callee"]
            k = callee_key(c)
            is_setter = c.get("method") == "drop_policy" and "builders::" in k and len(t["args"]) == 2
            is_ctor = c.get("method") == "new_inner" and ("pool_raw::RawOpaquePool" in k or "pool_raw::RawBlindPool" in k or "pool_raw::RawPinnedPool" in k)
            if not (is_setter or is_ctor):
                continue
            if "builders::" in b.key and c.get("method") == "drop_policy":
                continue
            arg = t["args"][1] if is_setter else t["args"][-1]
            d = deep_slice(prog, b, arg)
            from_cfg = any(f.endswith("::drop_policy") for f in d["fields"]) or bool(d["args"])
            consts = [c2 for c2 in d["consts"] if "variant" in c2 or "val" in c2]
            defaults = [k2 for k2, _t in d["calls"] if k2.split("::")[-1] == "default"]
            # a pool constructor that has no policy to forward (e.g. `new()`) legitimately uses the default
            has_policy_source = any("DropPolicy" in l["ty"]["s"] for l in b.locals[1:b.arg_count + 1])
            own = prog.adts.get(b.impl_adt or "", {})
            owner_has_field = any(f.get("name") == "drop_policy" for v in own.get("variants", []) for f in v.get("fields", []))
            if not from_cfg and not owner_has_field and not has_policy_source:
                continue
            n += 1
            ok = from_cfg and not consts and not defaults
            ctx.fn(b)
            ctx.ob(RID, f"forward@{b.key.split('::', 1)[1]}|{c.get('method')}", ok, b.loc(t["span"]),
                   f"policy handed on derives from a configured field/parameter: {from_cfg}; constants/defaults mixed in: {bool(consts or defaults)}")
    if n == 0:
        ctx.missing(RID, "policy forwarders (builder.drop_policy / new_inner)")


def vacancy_cache_rules(ctx, prog):
    RID = "R11.lowest-vacancy-cache"
    b = prog.one("opaque::vacancy_tracker::VacancyTracker::update_slab_status")
    if b is None:
        ctx.missing(RID, "VacancyTracker::update_slab_status")
        return
    ctx.fn(b)
    # writes of next_vacancy whose value is Some(slab_index)
    ws = []
    for bb, i, st in field_assigns(b, "VacancyTracker::next_vacancy"):
        rv = st["rv"]
        if rv["k"] == "use":
            l = op_local(rv["op"])
            d = b.unique_def(l) if l is not None else None
            if d and d[2] == "assign" and d[3]["rv"]["k"] == "aggr":
                rv = d[3]["rv"]
        if rv["k"] == "aggr" and rv.get("variant") == "Some":
            args = set()
            for o in rv["ops"]:
                args |= Slice(b, through_calls=False).run(o)["args"]
            if args == {2}:
                ws.append((bb, st))
    # the forward-only refill: range start = slab_index + 1
    fwd = False
    for bb, t in b.calls():
        if t["callee"].get("method") in ("wrapping_add", "checked_add", "saturating_add"):
            c = resolve_const(b, t["args"][1]) if len(t["args"]) > 1 else None
            if c and c.get("val") == 1 and Slice(b, through_calls=False).run(t["args"][0])["args"] == {2}:
                fwd = True
    none_arm = False
    lower_arm = False
    bad = []
    for bb, st in ws:
        gs = switch_guards(b, bb)
        # must be on the has_vacancy == true arm
        on_true = any(g["src"].get("kind") == "local" and g["src"].get("local") == 3 and 0 not in g["allowed"] for g in gs)
        if not on_true:
            continue
        is_none = False
        is_lt = False
        for g in gs:
            src = g["src"]
            pl = guard_src_place(src)
            if src.get("kind") == "discr" and pl and any(f.endswith("VacancyTracker::next_vacancy") for f in place_fields(pl)):
                if g["allowed"] and 1 not in g["allowed"]:
                    is_none = True
            if src.get("kind") == "call" and src["term"]["callee"].get("method") in ("is_none", "is_some") and \
                    any(f.endswith("VacancyTracker::next_vacancy") for f in Slice(b).run(src["term"]["args"][0])["fields"]):
                truth = bool(g["allowed"]) and 0 not in g["allowed"]
                if truth == (src["term"]["callee"].get("method") == "is_none") and g["allowed"]:
                    is_none = True
            if src.get("kind") == "call" and src["term"]["callee"].get("method") == "is_none_or" and bool(g["allowed"]) and 0 not in g["allowed"] and \
                    any(f.endswith("VacancyTracker::next_vacancy") for f in Slice(b).run(src["term"]["args"][0])["fields"]):
                # `self.next_vacancy.is_none_or(|cached| slab_index < cached)`: both conditions in one library call
                for ta in src["term"]["callee"].get("targs", []):
                    for ck in ta.get("closures", []):
                        cb = (prog.by_key.get(strip_generics(ck)) or [None])[0]
                        if cb is None:
                            continue
                        for blk2 in cb.blocks:
                            for st2 in blk2.stmts:
                                if st2["k"] == "assign" and st2["rv"]["k"] == "binop" and st2["rv"]["op"] in ("Lt", "Gt", "Le", "Ge"):
                                    sa2, sb2 = Slice(cb).run(st2["rv"]["a"]), Slice(cb).run(st2["rv"]["b"])
                                    op2 = st2["rv"]["op"]
                                    if sb2["upvars"] and 2 in sa2["args"]:
                                        op2 = {"Lt": "Gt", "Gt": "Lt", "Le": "Ge", "Ge": "Le"}[op2]
                                    elif not (sa2["upvars"] and 2 in sb2["args"]):
                                        continue
                                    if op2 in ("Lt", "Le"):
                                        is_none = True
                                        is_lt = True
                                    else:
                                        bad.append(f"cache overwritten when slab_index {op2} cached")
            dl = g.get("discr_local")
            d = b.unique_def(dl) if dl is not None else None
            if d and d[2] == "assign" and d[3]["rv"]["k"] == "binop" and d[3]["rv"]["op"] in ("Lt", "Gt", "Le", "Ge"):
                rv = d[3]["rv"]
                a2 = Slice(b, through_calls=False).run(rv["a"])
                b2 = Slice(b, through_calls=False).run(rv["b"])
                a_idx = a2["args"] == {2} and not any(f.endswith("next_vacancy") for f in a2["fields"])
                b_idx = b2["args"] == {2} and not any(f.endswith("next_vacancy") for f in b2["fields"])
                op = rv["op"]
                if b_idx and not a_idx:
                    op = {"Lt": "Gt", "Gt": "Lt", "Le": "Ge", "Ge": "Le"}[op]
                truth = 0 not in g["allowed"]
                if not truth:
                    op = {"Lt": "Ge", "Ge": "Lt", "Gt": "Le", "Le": "Gt"}[op]
                if op in ("Lt", "Le"):
                    is_lt = True
                else:
                    bad.append(f"cache overwritten when slab_index {op} cached")
        none_arm = none_arm or is_none
        lower_arm = lower_arm or is_lt
    ctx.ob(RID, "new-vacancy.no-cache", none_arm, b.loc(), f"has_vacancy arm stores Some(slab_index) when no index is cached: {none_arm}")
    ctx.ob(RID, "new-vacancy.lower-replaces", lower_arm and not bad, b.loc(),
           f"has_vacancy arm stores Some(slab_index) when slab_index < cached index: {lower_arm}; refill search is forward-only (slab_index+1..): {fwd}"
           + (f"; {bad}" if bad else ""))


# ------------------------------------------------------------------ R12: an object count is not a position
COUNT_FIELDS = ("RawOpaquePool::length", "Slab::count")
COUNT_CALLS = ("RawOpaquePool::len", "Slab::len", "RawOpaquePool::is_empty", "Slab::is_empty")
SLAB_INDEXERS = ("get", "get_mut", "get_unchecked", "get_unchecked_mut", "index", "index_mut", "truncate", "split_off", "swap_remove", "remove")


def _count_taint(prog, b, op, depth=3):
    """Names of object-count sources in the data slice of `op` (local callees' return values followed, bounded)."""
    sl = Slice(b, through_calls=False).run(op)
    out = [f.split("::", 3)[-1] for f in sl["fields"] if f.endswith(COUNT_FIELDS)]
    for k, _bb, t in sl["calls"]:
        if k.endswith(COUNT_CALLS):
            out.append(k.split("::", 3)[-1] + "()")
            continue
        cb = prog.body_for_callee(t["callee"])
        if cb is not None and depth > 0 and cb.crate == b.crate:
            out += _count_taint(prog, cb, {"k": "copy", "place": {"l": 0, "p": []}}, depth - 1)
        else:
            # library plumbing (wrapping_sub, div_ceil, min, ...): follow the arguments
            for a in t["args"]:
                if a.get("k") != "const":
                    out += [x for x in _count_taint(prog, b, a, depth - 1)] if depth > 0 else []
    return sorted(set(out))


def counts_are_not_positions(ctx, prog, rid):
    """Slabs and slots have holes: how many objects exist says nothing about where they are. No slab index, scan bound
    or iterator cursor may derive from RawOpaquePool::length / Slab::count."""
    n = 0
    for b in prog.bodies:
        if not (b.key.startswith("infinity_pool::opaque::pool_raw::") or b.key.startswith("infinity_pool::opaque::slab::") or
                b.key.startswith("<infinity_pool::opaque::")):
            continue
        if "::tests::" in b.key:
            continue
        sinks = []
        for bb, t in b.calls():
            m = t["callee"].get("method")
            if m in SLAB_INDEXERS and len(t["args"]) >= 2:
                _r, fs = op_access_path(b, t["args"][0])
                if fs and fs[-1].endswith("RawOpaquePool::slabs"):
                    sinks.append((f"slabs.{m}", t["args"][1], t["span"]))
        for blk in b.blocks:
            if blk.cleanup:
                continue
            for s in blk.stmts:
                if s["k"] == "assign" and s["rv"]["k"] == "aggr":
                    adt = s["rv"].get("adt") or ""
                    if adt.endswith("ops::Range") or adt.endswith("ops::RangeInclusive"):
                        for i, o in enumerate(s["rv"]["ops"]):
                            sinks.append((f"range.{('start', 'end')[i] if i < 2 else i}", o, s["span"]))
                    elif adt.startswith("infinity_pool::opaque::") and adt.endswith("Iterator"):
                        a = prog.adts.get(adt)
                        names = [f["name"] for f in a["variants"][0]["fields"]] if a else []
                        for nm, o in zip(names, s["rv"]["ops"]):
                            if "index" in nm:
                                sinks.append((f"{adt.split('::')[-1]}.{nm}", o, s["span"]))
        if not sinks:
            continue
        ctx.fn(b)
        for what, op, span in sinks:
            if op.get("k") == "const":
                continue
            taint = _count_taint(prog, b, op)
            n += 1
            ctx.ob(rid, f"{b.key.replace('infinity_pool::opaque::', '')}:{what}", not taint, b.loc(span),
                   f"position derives from an object count: {taint}" if taint else "position does not derive from an object count")
    if n == 0:
        ctx.missing(rid, "slab index / scan bound / iterator cursor sites in infinity_pool::opaque")


def slab_vector_pairing(ctx, prog, rid, fnames):
    """Every change of the slab vector's length is followed, inside the same function and on every path, by
    update_slab_count(slabs.len()): the slab vector and the vacancy tracker never disagree across a call boundary."""
    for fname in ("reserve", "shrink_to_fit", "allocate_slab_for_insert"):
        b = prog.one(f"opaque::pool_raw::RawOpaquePool::{fname}")
        if b is None:
            ctx.missing(rid, f"RawOpaquePool::{fname}")
            continue
        ctx.fn(b)
        mut = [(bb, t) for bb, t in b.calls() if callee_key(t["callee"]).split("::")[-1] in ("push", "extend", "truncate", "pop", "resize_with", "extend_from_slice", "append", "insert", "remove", "clear", "drain", "resize", "swap_remove", "split_off", "retain")
               and "Vec" in callee_key(t["callee"]) and "Slab" in t["callee"]["full"]]
        usc = calls_to(b, "vacancy_tracker::VacancyTracker::update_slab_count")
        ok = bool(mut) and bool(usc)
        for mbb, _ in mut:
            okp, off = b.must_pass(b.term_succ(mbb, False), [u for u, _ in usc], b.exits(("return",)))
            ok = ok and okp
        # argument = slabs.len()
        for ubb, ut in usc:
            sl = Slice(b).run(ut["args"][1])
            ok = ok and any(k.endswith("Vec::len") for k, _, _ in sl["calls"]) and "infinity_pool::opaque::pool_raw::RawOpaquePool::slabs" in sl["fields"]
        ctx.ob(rid, f"{fname}.update_slab_count", ok, b.loc(),
               f"slab-vector mutations {[callee_key(t['callee']).split('::')[-1] for _, t in mut]} are each followed on every path by update_slab_count(slabs.len())")

# ------------------------------------------------------------------ R13: builder steps carry every option on
def builder_steps_rule(ctx, prog, rid):
    """Every by-value option setter of the pool builders (`fn opt(self, ..) -> Self`) returns `self` with the other options intact:
    a builder value constructed inside a step takes each field it does not set from `self` (not from Default / new / a constant)."""
    n = 0
    for b in prog.bodies:
        if not b.key.startswith("infinity_pool::builders::") or b.is_closure or b.arg_count < 1 or "::tests" in b.key:
            continue
        sty = b.local_ty(1)
        rty = b.local_ty(0)
        if sty["k"] != "adt" or strip_generics(sty["s"]) != strip_generics(rty["s"]) or "::builders::" not in sty["s"]:
            continue
        adt_path = strip_generics(sty["s"])
        adt = prog.adts.get(adt_path) or next((a for p_, a in prog.adts.items() if strip_generics(p_) == adt_path), None)
        if adt is None:
            continue
        n += 1
        ctx.fn(b)
        rsl = Slice(b).run({"k": "copy", "place": {"l": 0, "p": []}})
        ok = 1 in rsl["args"]
        det = [f"result derives from self: {ok}"]
        for blk in b.blocks:
            for st in blk.stmts:
                if st["k"] == "assign" and st["rv"]["k"] == "aggr" and strip_generics(str(st["rv"].get("adt", ""))) == adt_path:
                    names = st["rv"].get("fields") or []
                    for i, f in enumerate(names):
                        sl = Slice(b).run(st["rv"]["ops"][i])
                        from_self = 1 in sl["args"] and any(x.endswith("::" + f) for x in sl["fields"])
                        from_param = bool(sl["args"] - {1}) or any(ta for ta in [])
                        phantom = "PhantomData" in str(b.local_ty(op_local(st["rv"]["ops"][i]))["s"]) if op_local(st["rv"]["ops"][i]) is not None else st["rv"]["ops"][i].get("k") == "const" and "PhantomData" in st["rv"]["ops"][i].get("text", "")
                        set_here = not from_self and not (1 in sl["args"]) and (from_param or any(k.endswith(("Layout::new", "Some")) for k, _b, _t in sl["calls"]) or
                                                                                  any(c.get("variant") == "Some" for c in sl["consts"]))
                        if not (from_self or phantom):
                            # at most the option this step is about may come from elsewhere; everything else must be self's
                            others = [x for x in names if x != f]
                            det.append(f"field `{f}` not taken from self ({'set by this step' if set_here else 'from ' + str(sorted({k.split('::')[-1] for k, _b, _t in sl['calls']}) or 'a constant')})")
                            if not set_here:
                                ok = False
                    # more than one field not from self = options lost
                    lost = [f for i, f in enumerate(names) if not (1 in Slice(b).run(st["rv"]["ops"][i])["args"]) and
                            not (op_local(st["rv"]["ops"][i]) is not None and "PhantomData" in b.local_ty(op_local(st["rv"]["ops"][i]))["s"])]
                    if len(lost) > 1:
                        ok = False
                        det.append(f"fields rebuilt without self: {lost}")
        ctx.ob(rid, f"{adt_path.split('::')[-1]}::{b.name}", ok, b.loc(), "; ".join(det))
    if n == 0:
        ctx.missing(rid, "by-value builder steps in infinity_pool::builders")


# ------------------------------------------------------------------ R14: the intrusive free list
def cursor_coherence_rule(ctx, prog, rid):
    """RawOpaquePoolIterator keeps (slab index, Option<iterator of that slab>) per direction. Invariant needed for 'each live
    object exactly once': a cached iterator always belongs to the slab the index names. Necessary condition checked: every
    write of the index is followed, on every path to the loop head / a return, by a write of the cached iterator."""
    n = 0
    for b in prog.bodies:
        if "RawOpaquePoolIterator" not in b.key or b.is_closure or "::tests" in b.key or b.name == "new":
            continue
        for side in ("front", "back"):
            idx_f, it_f = f"current_{side}_slab_index", f"current_{side}_slab_iter"
            writes = field_assigns_or_calls(b, idx_f)
            if not writes:
                continue
            its = {(bb, i) for bb, i in field_assigns_or_calls(b, it_f)}
            dom = b.dominators(unwind=False)
            for wbb, wi in writes:
                n += 1
                bad = None
                if any(bb == wbb and i > wi for bb, i in its):
                    ok = True
                else:
                    ok = True
                    seen = set()
                    work = list(b.term_succ(wbb, False))
                    while work and ok:
                        x = work.pop()
                        if x in seen:
                            continue
                        seen.add(x)
                        if b.blocks[x].cleanup:
                            continue
                        if any(bb == x for bb, _i in its):
                            continue
                        if b.blocks[x].term["k"] == "return" or x in dom[wbb]:
                            ok = False
                            bad = "return" if b.blocks[x].term["k"] == "return" else "the loop head"
                            break
                        work.extend(b.term_succ(x, False))
                ctx.ob(rid, f"{b.name}.{side}#{n}", ok, b.loc(),
                       f"after `{idx_f}` moves, `{it_f}` is rewritten before the next round / return: {ok}" +
                       ("" if ok else f" - {bad} is reached with the cached iterator of the previous slab still in place: that slab is yielded again and the next one skipped"))
    if n == 0:
        ctx.missing(rid, "writes of current_front_slab_index / current_back_slab_index in RawOpaquePoolIterator")


def field_assigns_or_calls(body, field):
    """(bb, position) of every write whose destination's last projection is the field: assignments and call destinations
    (position = statement index, or len(stmts) for a terminator)."""
    out = []
    for blk in body.blocks:
        if blk.cleanup:
            continue
        for i, st in enumerate(blk.stmts):
            if st["k"] == "assign" and st["place"]["p"] and isinstance(st["place"]["p"][-1], dict) and str(st["place"]["p"][-1].get("f", "")).endswith("::" + field):
                out.append((blk.idx, i))
        t = blk.term
        if t["k"] == "call" and isinstance(t.get("dest"), dict) and t["dest"]["p"] and isinstance(t["dest"]["p"][-1], dict) and \
                str(t["dest"]["p"][-1].get("f", "")).endswith("::" + field):
            out.append((blk.idx, len(blk.stmts)))
    return out


def free_list_rule(ctx, prog, rid):
    """`Slab::next_free_slot_index` is the head of an intrusive, arbitrarily ordered free list: it is only ever (a) initialised
    by Slab::new, (b) advanced to the index stored in the slot being filled (insert), (c) set to the index of the slot just
    released (remove / remove_unpin). Any other value (a constant, a count) drops or duplicates list entries."""
    FIELD = "Slab::next_free_slot_index"
    n = 0
    for b in prog.bodies:
        if not b.key.startswith("infinity_pool::opaque::slab::") or "::tests" in b.key:
            continue
        for bb, i, st in field_assigns(b, FIELD):
            n += 1
            ctx.fn(b)
            sl = Slice(b, through_calls=False).run(st["rv"]["op"]) if st["rv"]["k"] == "use" else {"calls": [], "args": set(), "consts": [st["rv"].get("op", {})] if st["rv"].get("k") == "use" else [{"val": "?"}], "fields": set()}
            names = {k.split("::")[-1] for k, _b, _t in sl["calls"]}
            root = b.key.split("::{closure")[0].split("::")[-1]
            if root in ("remove", "remove_unpin"):
                idx_calls = [t_ for k_, _b, t_ in sl["calls"] if k_.split("::")[-1] == "index" and t_["args"]]
                from_handle = any(2 in Slice(b).run(t_["args"][0])["args"] for t_ in idx_calls)
                ok = bool(idx_calls) and from_handle and not [c for c in sl["consts"] if "val" in c]
                why = f"value = handle.index(): {ok}"
            elif root in ("insert_with_unchecked", "insert", "insert_with", "insert_unchecked"):
                ok = any(f.endswith(("next_free_slot_index", "SlotMeta::Vacant", "Vacant::next_free_slot_index")) or "Vacant" in f for f in sl["fields"]) or "replace" in names
                ok = ok and not [c for c in sl["consts"] if "val" in c and c.get("ty", "").startswith(("usize", "u"))]
                why = f"value = the next index stored in the slot being filled: {ok}"
            elif root == "new":
                ok = True
                why = "initialisation"
            else:
                ok = False
                why = f"written in {root}, which is not a free-list operation"
            ctx.ob(rid, f"{root}:free-list-head#{n}", ok, b.loc(st["span"]), why + f" (derives via {sorted(names)[:6]}, constants {[c.get('val') for c in sl['consts'] if 'val' in c][:4]})")
    if n == 0:
        ctx.missing(rid, "assignments to Slab::next_free_slot_index")

"""C12 - linked objects: one family, one instance per thread, each confined to its thread (linked)."""
from ..analysis import (path_count, Slice, switch_guards, UserCode, GuardLiveness, guard_target, calls_to, who_calls,
                        guard_src_place)
from ..mir import callee_key, callee_paths, op_local, op_place, strip_generics, op_access_path
from .. import facts as F

EXPL = ("Decides structural necessary conditions of C12 on MIR of the linked crate: (R1) no user code (first-instance "
        "provider, family->instance conversion, destructors of user objects) runs while a registry lock or a thread-local "
        "registry borrow is held - otherwise first access of a linked variable whose initialiser / instance factory uses "
        "other linked variables deadlocks (RwLock) or panics (RefCell); closures run by LocalKey::with_borrow* count as "
        "running under that borrow; (R2) a per-thread reference type that is Send must not key its cleanup on the "
        "dropping thread (thread::current()); (R3) the reference-count test that decides cleanup must happen while the "
        "map's write guard is live; (R4) confinement witnesses from the trait matrix: the Rc-based Ref<T> is !Send and "
        "!Sync; unsafe Send/Sync impls are in a justified table; (R5) per-thread instance creation happens outside the "
        "map lock and insertion re-checks the entry (vacant/occupied) under the write lock, returning the registered "
        "instance on the occupied arm; (R6) the global registry never replaces a registered family (first registration "
        "wins).")
NOT = "Not decided: exactly-one-family under all racing first accesses, leak freedom over all schedules."

UNSAFE_IMPL_TABLE = {
    ("std::marker::Send", "linked::instance_per_thread::ThreadSpecificState<T>"): "holds an Rc that is only ever touched on its origin thread; sound only under R4 (Ref<T> is !Send) - the map itself is shared",
    ("std::marker::Sync", "linked::instance_per_thread::ThreadSpecificState<T>"): "as above",
}


# fn-pointer fields that hold macro-generated `TypeId::of::<Key>` (linked::instances!), not user code
BENIGN_FNPTR = ("static_instances::StaticInstances::family_key_provider",)
BENIGN_SITES = [
    # HashMap::remove returns the per-thread state whose Rc/Arc is never the last reference here: the reference
    # being dropped still owns one (that is what the `strong_count == 2` test established); T is dropped later,
    # outside the lock, when the reference's own field goes
    ("linked::instance_per_thread::FamilyStateReference::clear_current_thread_instance", "drop std::option::Option<linked::instance_per_thread::ThreadSpecificState<T>>"),
    ("linked::instance_per_thread_sync::FamilyStateReference::clear_current_thread_instance", "drop std::option::Option<linked::instance_per_thread_sync::ThreadSpecificState<T>>"),
    # set_local is only reached after the local lookup returned None, so HashMap::insert returns None (nothing to drop)
    ("linked::static_instances::StaticInstances::set_local::{closure#0}", "drop std::option::Option<std::boxed::Box<dyn std::any::Any + std::marker::Send + std::marker::Sync>>"),
]


def short(k):
    return k.replace("linked::", "")


def run(ctx):
    ctx.explanation = EXPL
    ctx.not_decided = NOT
    prog = ctx.prog("linked")
    uc = UserCode(prog, benign_sites=BENIGN_SITES, benign_fnptr_fields=BENIGN_FNPTR,
                  user_traits=("std::convert::From", "std::convert::Into"))
    ctx.rule("R1.no-user-code-under-registry-lock", "no user-code point while an RwLock guard / RefCell borrow on a registry or per-thread map is live (incl. inside LocalKey::with_borrow* closures)", floor=12)
    ctx.rule("R2.cleanup-keyed-by-origin", "Send reference types must not reach thread::current() from their Drop", floor=2)
    ctx.rule("R3.count-test-under-lock", "the strong_count test deciding per-thread cleanup is made while the map's write guard is live (Send reference types)", floor=1)
    ctx.rule("R4.confinement-witnesses", "Ref<T>: !Send + !Sync; unsafe Send/Sync impls are in the justified table", floor=4)
    ctx.rule("R5.create-outside-insert-under-lock", "current_thread_instance: conversion Family->T not under a guard; entry() match under the write guard; occupied arm returns the registered instance", floor=4)
    ctx.rule("R7.exposed-family-comes-from-registry", "what a thread caches/exposes for a static is read back from the global registry (the arbiter); the family created for a first access only flows into the vacant registry entry, never into a return value", floor=2)
    ctx.rule("R8.reference-drop-always-decides", "the Drop of a per-thread reference reaches its reference-count test on every path (no early exit, e.g. while panicking) and the cleanup always takes the blocking write lock and removes the entry: the instance goes exactly when the last aligned reference goes", floor=4)
    ctx.rule("R6.first-registration-wins", "global registry writes use entry()/Vacant::insert only; no HashMap::insert that could replace a registered family", floor=1)

    # ---------------- R1
    # (a) guard-typed locals
    for b in prog.bodies:
        gl = GuardLiveness(b)
        if not gl.guard_locals:
            continue
        ctx.fn(b)
        for blk in b.blocks:
            if blk.cleanup:
                continue
            live = gl.live_at_term(blk.idx)
            t = blk.term
            if not live or t["k"] not in ("call", "drop", "tailcall"):
                continue
            s = uc.site(b, blk.idx)
            kinds = sorted({gl.guard_locals[l] for l in live})
            if s is None and t["k"] == "call" and prog.body_for_callee(t["callee"]) is None:
                # a closure handed BY VALUE to library code while the guard is live: when the library does not call it
                # (`or_insert_with` on an occupied entry, `unwrap_or_else` on Some, ..) it drops it - and with it whatever the
                # closure captured by move. Captured state with a user destructor is user code under the lock.
                from ..analysis import closure_capture_ops, ty_mentions_user
                for ta in t["callee"].get("targs", []):
                    for ck in ta.get("closures", []):
                        for _cbb, ops in closure_capture_ops(b, strip_generics(ck)):
                            for o in ops:
                                if o.get("k") == "move" and not o["place"]["p"]:
                                    cty = b.local_ty(o["place"]["l"])
                                    if cty.get("needs_drop") and ty_mentions_user(cty):
                                        s = {"kind": "U2-captured-drop", "what": f"closure capturing `{cty['s'][:60]}` by move handed to {callee_key(t['callee']).split('::')[-1]}", "contained": False, "chain": ""}
            if s is None:
                if t["k"] == "call":
                    ctx.ob("R1.no-user-code-under-registry-lock", f"{short(b.key)}|{'+'.join(kinds)}|{short(callee_key(t['callee']))}", True,
                           b.loc(t["span"]), "no user code reachable while the guard is live")
                continue
            tgt = sorted({guard_target(b.local_ty(l)["s"])[:60] for l in live})
            what = s["what"] if s["kind"].startswith("U5") else s["kind"] + " " + s["what"][:50]
            ctx.ob("R1.no-user-code-under-registry-lock", f"{short(b.key)}|{'+'.join(kinds)}|{s['kind']}|{short(what)[:60]}", False, b.loc(t["span"]),
                   f"user code ({s['kind']}: {short(s['what'])[:80]}) runs while {kinds} on {tgt} is live: user code that uses another linked "
                   f"variable / the same wrapper re-enters the lock (deadlock) or the borrow (panic)")
    # (b) closures run under LocalKey::with_borrow / with_borrow_mut / with(|c| c.borrow..)
    for b in prog.bodies:
        for bb, t in b.calls():
            k = callee_key(t["callee"])
            if not (k.endswith("LocalKey::with_borrow") or k.endswith("LocalKey::with_borrow_mut")):
                continue
            for cl in uc.linked_closures(b, t):
                ctx.fn(cl)
                bad = []
                stack = [cl]
                seen = set()
                while stack:
                    c = stack.pop()
                    if c.key in seen:
                        continue
                    seen.add(c.key)
                    for blk in c.blocks:
                        if blk.cleanup:
                            continue
                        s = uc.site(c, blk.idx)
                        if s:
                            bad.append(f"{s['kind']} {short(s['what'])[:60]} at {c.loc(blk.term['span'])}")
                    for c2 in prog.closures_of(c):
                        stack.append(c2)
                ctx.ob("R1.no-user-code-under-registry-lock", f"{short(b.key)}|{k.split('::')[-1]}-closure", not bad, b.loc(t["span"]),
                       f"user code inside the closure that runs under the thread-local registry borrow: {bad or 'none'}"
                       + ("" if not bad else " - user code that touches another linked variable for the first time on this thread needs borrow_mut on the same RefCell and panics"))

    # ---------------- R2 / R3 / R4 (trait matrix)
    pf = F.probe_facts("linked_probe", ["linked"], repo=ctx.repo, log=ctx.log)
    rows = {p["id"]: p for p in pf["probes"]}
    for cid, want in (("control|usize", (True, True)), ("control|Cell", (True, False))):
        r = rows.get(cid)
        ctx.ob("R4.confinement-witnesses", cid, bool(r) and (r["Send"], r["Sync"]) == want, "probes/linked_probe", f"{r and (r['Send'], r['Sync'])}")
    for pid in ("ref|Ref|SyncObj", "ref|Ref|LocalObj"):
        r = rows.get(pid)
        if r is None:
            ctx.missing("R4.confinement-witnesses", pid)
            continue
        ctx.ob("R4.confinement-witnesses", pid, not r["Send"] and not r["Sync"], r["ty"], f"Send={r['Send']} Sync={r['Sync']} (an Rc-backed per-thread reference must stay on its thread)")
    for im in prog.impls:
        if im.get("unsafe") and im.get("trait") in ("std::marker::Send", "std::marker::Sync"):
            key = (im["trait"], im["self"])
            ctx.ob("R4.confinement-witnesses", f"unsafe-impl|{im['trait'].split('::')[-1]} for {im['self']}", key in UNSAFE_IMPL_TABLE,
                   f"{im['span']['file']}:{im['span']['line']}", UNSAFE_IMPL_TABLE.get(key, "unsafe impl not in the justified table"))
    ref_types = {"linked::instance_per_thread_sync::RefSync": "ref|RefSync|SyncObj", "linked::instance_per_thread::Ref": "ref|Ref|SyncObj"}
    for adt, pid in ref_types.items():
        r = rows.get(pid)
        drops = [b for b in prog.bodies if b.impl_trait and b.impl_trait.endswith("ops::Drop") and b.impl_adt == adt and b.name == "drop"]
        if r is None or not drops:
            ctx.missing("R2.cleanup-keyed-by-origin", adt)
            continue
        d = drops[0]
        ctx.fn(d)
        is_send = r["Send"]
        reach = reaches(prog, uc, d, "std::thread::current")
        ok = (not is_send) or not reach
        ctx.ob("R2.cleanup-keyed-by-origin", short(adt), ok, d.loc(),
               f"{short(adt)}: Send={is_send}; its Drop reaches thread::current(): {bool(reach)}" +
               ("" if ok else f" (via {reach}) - dropped on another thread it clears THAT thread's entry: the origin's instance leaks and a live instance of the dropping thread can be removed"))
        # R8: the count test is reached on every normal path of Drop
        sc_all = [bb for bb, t in d.calls() if callee_key(t["callee"]).endswith("::strong_count") and not d.blocks[bb].cleanup]
        rets = d.exits(("return",))
        skip = d.reachable([0], unwind=False, avoid=sc_all)
        ctx.ob("R8.reference-drop-always-decides", short(adt), bool(sc_all) and not [r_ for r_ in rets if r_ in skip], d.loc(),
               f"strong_count test sites {len(sc_all)}; return reachable without passing one: {bool([r_ for r_ in rets if r_ in skip])}")
        if is_send:
            # R3: strong_count read under the write guard
            gl = GuardLiveness(d)
            sc = [(bb, t) for bb, t in d.calls() if callee_key(t["callee"]).endswith("::strong_count")]
            under = bool(sc) and all(any(gl.guard_locals.get(l) == "RwLockWriteGuard" for l in gl.live_at_term(bb)) for bb, _ in sc)
            # or inside a callee that holds the guard
            ctx.ob("R3.count-test-under-lock", short(adt), under, d.loc(sc[0][1]["span"]) if sc else d.loc(),
                   f"strong_count tests in Drop: {len(sc)}; all made with the map's write guard live: {under}" +
                   ("" if under else " - two references dropped concurrently can both see a count > 2 and leave the entry behind, or race with a new acquire"))

    # ---------------- R8b: the cleanup itself always takes the map's write lock (blocking) and removes the entry
    for mod in ("instance_per_thread", "instance_per_thread_sync"):
        cb = prog.one(f"{mod}::FamilyStateReference::clear_current_thread_instance")
        if cb is None:
            ctx.missing("R8.reference-drop-always-decides", f"{mod}::clear_current_thread_instance")
            continue
        ctx.fn(cb)
        locks = [(bb, t) for bb, t in cb.calls() if t["callee"].get("method") in ("write", "try_write", "read", "try_read", "lock", "try_lock") and
                 callee_key(t["callee"]).rsplit("::", 1)[0].endswith(("RwLock", "Mutex"))]
        rem = [(bb, t) for bb, t in cb.calls() if t["callee"].get("method") == "remove" and "HashMap" in callee_key(t["callee"]) and not cb.blocks[bb].cleanup]
        pc = path_count(cb, [bb for bb, _ in rem])
        names = sorted({t["callee"].get("method") for _bb, t in locks})
        # once the lock has been asked for, every way out passes the removal (the function may have been folded into Drop,
        # whose own count test legitimately returns before the lock)
        after_lock = True
        for lbb, _t in locks:
            okp, _off = cb.must_pass(cb.term_succ(lbb, False), [bb for bb, _ in rem], cb.exits(("return",)))
            after_lock = after_lock and okp
        ok = names == ["write"] and bool(rem) and after_lock
        ctx.ob("R8.reference-drop-always-decides", f"{mod}.cleanup-removes-entry", ok, cb.loc(),
               f"lock methods used: {names} (need the blocking `write`); HashMap::remove per normal path (min,max)={pc}" +
               ("" if ok else " - a cleanup that gives up when the map is busy leaves the instance alive after its last reference is gone"))

    # ---------------- R5
    for mod in ("instance_per_thread", "instance_per_thread_sync"):
        b = prog.one(f"{mod}::FamilyStateReference::current_thread_instance")
        if b is None:
            ctx.missing("R5.create-outside-insert-under-lock", f"{mod}::current_thread_instance")
            continue
        ctx.fn(b)
        gl = GuardLiveness(b)
        conv = [(bb, t) for bb, t in b.calls() if t["callee"].get("method") in ("into", "from") and "Family" in t["callee"]["full"]]
        ok = len(conv) == 1 and not gl.live_at_term(conv[0][0])
        ctx.ob("R5.create-outside-insert-under-lock", f"{mod}.conversion-outside-lock", ok, b.loc(conv[0][1]["span"]) if conv else b.loc(),
               f"Family->T conversion sites {len(conv)}; guard live there: {bool(conv) and bool(gl.live_at_term(conv[0][0]))}")
        ent = [(bb, t) for bb, t in b.calls() if t["callee"].get("method") == "entry" and "HashMap" in callee_key(t["callee"])]
        ok = len(ent) == 1 and any(gl.guard_locals.get(l) == "RwLockWriteGuard" for l in gl.live_at_term(ent[0][0]))
        ctx.ob("R5.create-outside-insert-under-lock", f"{mod}.entry-under-write-lock", ok, b.loc(ent[0][1]["span"]) if ent else b.loc(),
               f"HashMap::entry sites {len(ent)} under the write guard: {ok}; or_insert_with shortcuts: "
               f"{[callee_key(t['callee']).split('::')[-1] for bb, t in b.calls() if 'or_insert' in callee_key(t['callee'])] or 'none'}")
        # occupied arm returns the registered instance (clone_instance on the entry's value), vacant arm returns the new one
        from ..evtflow import return_sites
        ci = [(bb, t) for bb, t in b.calls() if callee_key(t["callee"]).endswith("ThreadSpecificState::clone_instance")]
        occ_ok = False
        vac_ok = False
        vac_seen = False
        vac_bad = False
        for bb, path, s in return_sites(b):
            pass
        # return place assignments (directly, or through the temporaries an inlined helper's return goes through)
        ret_locals = set(Slice(b, through_calls=False).run({"k": "copy", "place": {"l": 0, "p": []}})["locals"])
        for blk in b.blocks:
            if blk.cleanup:
                continue
            t = blk.term
            if t["k"] == "call" and (t["dest"]["l"] == 0 or t["dest"]["l"] in ret_locals) and not t["dest"]["p"] and callee_key(t["callee"]).endswith("clone_instance"):
                sl = Slice(b).run(t["args"][0])
                keys = {k.split("::")[-1] for k, _, _ in sl["calls"]}
                if "get" in keys and ("entry" in keys or "OccupiedEntry" in str(sl["calls"])) or "get" in keys:
                    occ_ok = True
            for s in blk.stmts:
                if s["k"] == "assign" and (s["place"]["l"] == 0 or s["place"]["l"] in ret_locals) and not s["place"]["p"] and s["rv"]["k"] == "use":
                    sl = Slice(b, through_calls=False).run(s["rv"]["op"])
                    if conv and any(k in ("std::rc::Rc::new", "std::sync::Arc::new") for k, _, _ in sl["calls"]):
                        # returned only on the vacant arm: the block must be dominated by the Vacant discriminant
                        ins = [bb for bb, t2 in b.calls() if t2["callee"].get("method") == "insert" and "VacantEntry" in callee_key(t2["callee"])]
                        dom = b.dominators(unwind=False)
                        after_ins = set()
                        for i in ins:
                            after_ins |= b.successors_reach(i, unwind=False)
                        if bool(ins) and any(i in dom[blk.idx] for i in ins):
                            vac_seen = True
                        elif blk.idx in after_ins or any(blk.idx in dom[i] for i in ins):
                            pass   # a join after the insertion, or the creation chain before it
                        else:
                            vac_bad = True   # the fresh instance flows to the result on a path that never inserts it
                        vac_ok = vac_seen and not vac_bad
        n_early = len([1 for bb, t in ci])
        ctx.ob("R5.create-outside-insert-under-lock", f"{mod}.occupied-returns-registered", occ_ok and vac_ok and n_early >= 2, b.loc(),
               f"occupied arm returns clone_instance() of the registered state: {occ_ok}; the fresh instance is returned only after VacantEntry::insert: {vac_ok}")

    # ---------------- R6
    ti = prog.one("static_instances::StaticInstances::try_initialize_global_registry")
    if ti is None:
        ctx.missing("R6.first-registration-wins", "StaticInstances::try_initialize_global_registry")
    else:
        ctx.fn(ti)
        writes = []
        for bb, t in ti.calls():
            k = callee_key(t["callee"])
            m = t["callee"].get("method")
            if m in ("insert", "or_insert", "or_insert_with", "and_modify", "remove", "clear", "extend", "retain", "insert_entry") and ("HashMap" in k or "Entry" in k or "hash_map" in k):
                writes.append(k)
        bad = [w for w in writes if "HashMap" in w.split("Entry")[0] and w.endswith("::insert") and "VacantEntry" not in w and "Entry" not in w]
        bad += [w for w in writes if w.split("::")[-1] in ("and_modify", "remove", "clear", "retain", "insert_entry")]
        ctx.ob("R6.first-registration-wins", "try_initialize_global_registry", bool(writes) and not bad, ti.loc(),
               f"registry writes: {[w.split('::')[-2] + '::' + w.split('::')[-1] for w in writes]}; replacing writes: {bad or 'none'}")

    # ---------------- R7
    g = prog.one("static_instances::StaticInstances::get")
    if g is None:
        ctx.missing("R7.exposed-family-comes-from-registry", "StaticInstances::get")
    else:
        ctx.fn(g)
        # evaluated on get() with set_local inlined: what is cached is what the closure that inserts into the thread-local map captures
        from ..analysis import closure_capture_ops
        gi = prog.inlined_body(g, pred=lambda cb: cb.name == "set_local")
        cached = []
        for c in prog.bodies:
            if not c.is_closure or not any(t["callee"].get("method") == "insert" and "HashMap" in callee_key(t["callee"]) for _bb, t in c.calls()):
                continue
            for _bb, ops_ in closure_capture_ops(gi, c.key):
                cached.append(ops_)
        ok = len(cached) >= 1
        det = [f"thread-local caching sites {len(cached)}"]
        for ops_ in cached:
            sl = {"calls": []}
            for o in ops_:
                r_ = Slice(gi).run(o)
                sl["calls"] += r_["calls"]
            names = [k.split("::")[-1] for k, _b, _t in sl["calls"]]
            from_reg = "get_family_global" in names
            from_created = "try_initialize_global_registry" in names or any(n in ("family", "call_once", "call") for n in names)
            ok = ok and from_reg and not from_created
            det.append(f"cached family derives from get_family_global: {from_reg}; from the creating call: {from_created}")
        ctx.ob("R7.exposed-family-comes-from-registry", "get.cached-family", ok, g.loc(), "; ".join(det))
    ti2 = prog.one("static_instances::StaticInstances::try_initialize_global_registry")
    if ti2 is None:
        ctx.missing("R7.exposed-family-comes-from-registry", "try_initialize_global_registry")
    else:
        fam = [(bb, t) for bb, t in ti2.calls() if t["callee"].get("method") == "family"]
        rsl = Slice(ti2).run({"k": "copy", "place": {"l": 0, "p": []}})
        leaks = any(t is ft for _k, _b, t in rsl["calls"] for _bb, ft in fam)
        ctx.ob("R7.exposed-family-comes-from-registry", "try_initialize.created-family-not-returned", bool(fam) and not leaks, ti2.loc(),
               f"family() creation sites {len(fam)}; the created family flows into the return value: {leaks}")
    provider_door_rule(ctx, prog)
    # the per-thread maps are keyed by ThreadId (never reused while the process lives) - not by anything a later thread can have
    # again (a thread-local's address, an OS thread id, an index)
    nk = 0
    for ap, a in prog.adts.items():
        if not ap.startswith("linked::instance_per_thread") or not ap.endswith("FamilyStateReference"):
            continue
        for v in a.get("variants", []):
            for f in v["fields"]:
                ts = f["ty"]["s"]
                if "HashMap<" in ts:
                    nk += 1
                    key_ok = "HashMap<std::thread::ThreadId," in ts
                    ctx.ob("R2.cleanup-keyed-by-origin", f"{short(ap)}.{f['name']}:keyed-by-ThreadId", key_ok, "",
                           f"per-thread map type: {ts[:120]}")
    if nk == 0:
        ctx.missing("R2.cleanup-keyed-by-origin", "the per-thread HashMap of FamilyStateReference")
    # a function that can make other threads WAIT (it waits on a condition variable for a condition it also sets) releases them
    # on every way out: each return reachable after its wait passes a notify. (No such construct exists on the pinned tree - first
    # access is arbitrated by the registry lock alone; the rule arms itself when one is introduced.)
    for b in prog.bodies:
        if b.crate != "linked" or "::tests" in b.key:
            continue
        waits = [bb for bb, t in b.calls() if t["callee"].get("method") in ("wait", "wait_while", "wait_timeout", "wait_timeout_while") and "Condvar" in callee_key(t["callee"]) and not b.blocks[bb].cleanup]
        if not waits:
            continue
        ctx.fn(b)
        notifs = [bb for bb, t in b.calls() if t["callee"].get("method") in ("notify_all", "notify_one") and "Condvar" in callee_key(t["callee"]) and not b.blocks[bb].cleanup]
        okp = bool(notifs)
        if okp:
            for w in waits:
                r = b.reachable(b.term_succ(w, False), unwind=False, avoid=notifs)
                # leaving through the wait loop again is fine; a return is not
                if any(e in r for e in b.exits(("return",))):
                    okp = False
        ctx.rule("R9.waiters-are-released", "a function that waits on a condition variable for a condition it sets itself notifies on every return path after the wait", floor=None) if "R9.waiters-are-released" not in ctx.rules else None
        ctx.ob("R9.waiters-are-released", short(b.key), okp, b.loc(),
               f"Condvar waits {len(waits)}, notifies {len(notifs)}; every return after a wait passes a notify: {okp}" +
               ("" if okp else " - the marker that makes other first-access threads wait is left behind on that path: they wait for ever"))
    # a CLONE of a Send reference is aligned to the same thread as the reference it was cloned from - wherever the clone is made:
    # nothing on the clone path may ask which thread is running (only acquire() may)
    ncl = 0
    for b in prog.bodies:
        if b.name == "clone" and (b.impl_trait or "").endswith("clone::Clone") and (b.impl_adt or "").endswith("instance_per_thread_sync::RefSync") and "::tests" not in b.key:
            ncl += 1
            ctx.fn(b)
            chain = reaches(prog, uc, b, "std::thread::current")
            ctx.ob("R2.cleanup-keyed-by-origin", "RefSync::clone.keeps-its-origin", chain is None, b.loc(),
                   f"thread::current() reachable from RefSync::clone: {chain or 'no'}" +
                   ("" if chain is None else " - a clone made on another thread is recorded as belonging to THAT thread: its drop clears the wrong entry and the origin thread's instance is never dropped"))
    if ncl == 0:
        ctx.missing("R2.cleanup-keyed-by-origin", "Clone for RefSync")


def provider_door_rule(ctx, prog):
    """The user's first-instance provider creates a FAMILY: it may be invoked only by the one function that arbitrates through
    the global registry. Every use of the `first_instance_provider` field is either handing it to that function or a
    constructor; it is never called in place and never handed to anything else."""
    RID = "R7.exposed-family-comes-from-registry"
    bad, n = [], 0
    for b in prog.bodies:
        if "static_instances::" not in b.key or "::tests" in b.key or (b.impl_trait or "").endswith("fmt::Debug"):
            continue   # (Debug prints the pointer, it cannot call it)
        for bb, t in b.calls():
            if b.blocks[bb].cleanup:
                continue
            c = t["callee"]
            used = False
            if c.get("rkind") == "indirect" and c.get("op"):
                _r, fs = op_access_path(b, c["op"])
                if fs and any(f.endswith("::first_instance_provider") for f in fs):
                    used = True
                    bad.append(f"called in place in {short(b.key)} at {b.loc(t['span'])}")
            for i, a in enumerate(t["args"]):
                if op_place(a) is None:
                    continue
                sl = Slice(b, through_calls=False).run(a)
                if any(f.endswith("::first_instance_provider") for f in sl["fields"]) and not sl["calls"]:
                    used = True
                    if not callee_key(c).endswith("StaticInstances::try_initialize_global_registry"):
                        # receiver `&self` of a method of the same type passes the whole struct, not the field
                        if any(f.endswith("::first_instance_provider") for f in (op_access_path(b, a)[1] or [])):
                            bad.append(f"handed to {callee_key(c).split('::')[-1]} in {short(b.key)} at {b.loc(t['span'])}")
            if used:
                n += 1
    if n == 0:
        ctx.missing(RID, "uses of StaticInstances::first_instance_provider")
        return
    ctx.ob(RID, "provider-only-through-the-registry-door", not bad, "",
           f"{n} use(s) of the first-instance provider field; outside try_initialize_global_registry: {bad or 'none'}" +
           ("" if not bad else " - a family created there is never registered: instances made from it do not share state with the real family"))


def reaches(prog, uc, body, target, depth=8):
    seen = set()
    stack = [(body, [])]
    while stack:
        b, path = stack.pop()
        if b.key in seen or len(path) > depth:
            continue
        seen.add(b.key)
        for bb, t in b.calls():
            if b.blocks[bb].cleanup:
                continue
            if target in callee_paths(t["callee"]) or callee_key(t["callee"]) == target:
                return " -> ".join(path + [short(b.key), target])
            cb = prog.body_for_callee(t["callee"])
            if cb is not None:
                stack.append((cb, path + [short(b.key)]))
    return None

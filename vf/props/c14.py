"""C14 - every spawned task runs once on its processor, and every join handle resolves (vicinal)."""
from ..analysis import (path_count, Slice, switch_guards, UserCode, GuardLiveness, guard_target, calls_to, who_calls,
                        atomic_events, acquireish, releaseish, CATCH_UNWIND, closure_capture_ops)
from ..mir import callee_key, callee_paths, op_local, op_place, strip_generics, op_access_path, resolve_const

EXPL = ("Decides structural necessary conditions of C14 on MIR of vicinal: (R1) no lost wake-up: the worker registers its "
        "listener only after an iteration reported 'waiting for work', re-checks both queues and the shutdown flag after "
        "registering and before waiting, and never runs a task while the listener is registered; every spawn path pushes "
        "the task before it notifies and notifies on every path after the push; (R2) the user closure is taken out of its "
        "Option before it runs, runs only as the argument of catch_unwind, and the result is sent on every path after it; "
        "(R3) one processor id (from current_processor_id) feeds worker start-up, the registry lookup and the queue used; "
        "the worker pins itself to exactly that processor before entering its loop; (R4) shutdown order: flag stored "
        "(Release) -> processor states signalled -> handles taken under the lock -> joined outside it; lazy start-up "
        "re-reads the flag (Acquire) under the handle-list lock; (R5) enqueue/shutdown discipline: a task is only "
        "enqueued under a shutdown check made while the queue lock is held, and shutdown drains the queues - today "
        "violated (known finding: a handle spawned through a scheduler that outlived the pool never resolves); (R6) no "
        "task runs while a queue lock is held.")
NOT = "Not decided: liveness over all schedules, fairness, that workers are actually scheduled on their processor by the OS."


def short(k):
    return k.replace("vicinal::", "")


def _join_sites(prog, b):
    """Where `b` joins thread handles: direct `JoinHandle::join` calls, or - when none - the adaptor call that applies join to
    every element: `handles.into_iter().try_for_each(JoinHandle::join)` / `.for_each(|h| .. h.join() ..)`."""
    jn = [(bb, t) for bb, t in b.calls() if t["callee"].get("method") == "join" and "JoinHandle" in callee_key(t["callee"]) and not b.blocks[bb].cleanup]
    if jn:
        return jn
    for bb, t in b.calls():
        if t["callee"].get("method") in ("try_for_each", "for_each") and not b.blocks[bb].cleanup:
            fi = [a for a in t["args"] if a.get("k") == "const" and strip_generics(a.get("fndef") or "").endswith("JoinHandle::join")]
            if fi:
                jn.append((bb, t))
    if not jn:
        from ..analysis import element_ops
        for o in element_ops(prog, b, lambda tt: tt["callee"].get("method") == "join" and "JoinHandle" in callee_key(tt["callee"])):
            if o["ok"] and o["form"].startswith("closure->") and o["in"] is b:
                rc = [(bb, t) for bb, t in b.calls() if t["args"] and o["src"] is not None and t["args"][0] is o["src"]]
                jn.extend(rc[:1])
    return jn


def run(ctx):
    ctx.explanation = EXPL
    ctx.not_decided = NOT
    prog = ctx.prog("vicinal")
    uc = UserCode(prog)
    ctx.rule("R1.no-lost-wakeup", "listen only on the waiting arm; listen -> re-check(urgent, regular, shutdown) -> wait; no task run while listening; push before notify on all spawn paths", floor=6)
    ctx.rule("R2.run-once-result-always-sent", "Option::take before the call; user closure only inside catch_unwind; sender.send on every path after it", floor=3)
    ctx.rule("R3.same-processor", "one processor id from current_processor_id feeds ensure_workers_spawned, get_or_init and the worker; worker pins (filter on that id) before worker_loop", floor=5)
    ctx.rule("R4.shutdown-order", "store(true, Release) -> signal_shutdown_all -> mem::take(handles) under lock -> join outside; ensure_workers_spawned re-reads the flag acquire-ish under the lock", floor=4)
    ctx.rule("R8.registry-and-broadcast", "the per-processor table is sized by the processor ID space (max_processor_count), because it is indexed by processor id; signal_shutdown stores the flag and then broadcasts notify(usize::MAX) unconditionally", floor=2)
    ctx.rule("R5.enqueue-shutdown-discipline", "push_back of a task is control-dependent on a shutdown-flag read made under the queue lock; shutdown drains both queues", floor=3)
    ctx.rule("R7.shutdown-checked-before-any-task", "each worker iteration reads the shutdown flag before it may execute a task from either queue (otherwise queued work that keeps re-submitting itself starves the join in Drop)", floor=2)
    ctx.rule("R6.no-task-under-queue-lock", "no task execution (dyn VicinalTask::call) while a queue MutexGuard is live", floor=2)

    # ---------------- R1 worker side
    wl = prog.one("pool::worker_loop")
    if wl is None:
        ctx.missing("R1.no-lost-wakeup", "pool::worker_loop")
    else:
        ctx.fn(wl)
        listen = [(bb, t) for bb, t in wl.calls() if t["callee"].get("method") == "listen" and "event_listener" in callee_key(t["callee"])]
        wait = [(bb, t) for bb, t in wl.calls() if t["callee"].get("method") == "wait" and "event_listener" in callee_key(t["callee"]).lower() or
                (t["callee"].get("method") == "wait" and "Listener" in t["callee"]["full"])]
        run1 = calls_to(wl, "worker::WorkerCore::run_one_iteration")
        ok = len(listen) == 1 and len(wait) == 1 and len(run1) == 1
        if not ok:
            ctx.ob("R1.no-lost-wakeup", "worker.shape", False, wl.loc(), f"listen sites {len(listen)}, wait sites {len(wait)}, run_one_iteration sites {len(run1)}")
        else:
            lbb, wbb, rbb = listen[0][0], wait[0][0], run1[0][0]
            dom = wl.dominators(unwind=False)
            # listen only on the WaitingForWork arm
            adt = prog.adts.get("vicinal::worker::IterationResult")
            widx = [i for i, v in enumerate(adt["variants"]) if v["name"] == "WaitingForWork"][0] if adt else 3
            gs = switch_guards(wl, lbb, dom=dom)
            on_arm = any(g["src"].get("kind") == "discr" and g["allowed"] == {widx} for g in gs)
            ctx.ob("R1.no-lost-wakeup", "worker.listen-on-waiting-arm", on_arm, wl.loc(listen[0][1]["span"]),
                   f"the listener is registered only after run_one_iteration returned WaitingForWork (variant {widx}): {on_arm}")
            # re-checks between listen and wait
            ie = [(bb, t) for bb, t in wl.calls() if t["callee"].get("method") == "is_empty" and "VecDeque" in callee_key(t["callee"])]
            queues = set()
            okq = True
            gsw = switch_guards(wl, wbb, dom=dom)

            def decides_wait(term):
                # the call's result is one of the conditions wait() is control-dependent on (CFG dominance, or through `&&` temporaries)
                return any(g["src"].get("kind") == "call" and g["src"].get("term") is term for g in gsw)
            for bb, t in ie:
                sl = Slice(wl).run(t["args"][0])
                qs = {f.split("::")[-1] for f in sl["fields"] if f.endswith("_queue")}
                queues |= qs
                okq = okq and lbb in dom[bb] and (bb in dom[wbb] or decides_wait(t))
            ld = [e for e in atomic_events(wl) if e["op"] == "load" and e["field"] and e["field"].endswith("shutdown_flag")]
            oks = len(ld) == 1 and lbb in dom[ld[0]["bb"]] and (ld[0]["bb"] in dom[wbb] or decides_wait(ld[0]["term"])) and acquireish(ld[0]["ords"][0] if ld[0]["ords"] else None)
            ctx.ob("R1.no-lost-wakeup", "worker.recheck-between-listen-and-wait", okq and queues == {"urgent_queue", "regular_queue"} and oks, wl.loc(),
                   f"after listen and before wait: is_empty() re-checks of {sorted(queues)} (dominance {okq}); shutdown flag re-read acquire-ish: {oks}")
            # wait is reached only when all three checks say 'nothing': queue empty (is_empty true) and flag false
            n_empty = sum(1 for g in gsw if g["src"].get("kind") == "call" and g["src"]["term"]["callee"].get("method") == "is_empty" and 0 not in g["allowed"])
            n_flag = sum(1 for g in gsw if g["src"].get("kind") == "call" and g["src"]["term"]["callee"].get("method") == "load" and g["allowed"] == {0})
            ctx.ob("R1.no-lost-wakeup", "worker.wait-only-when-idle", n_empty == 2 and n_flag == 1, wl.loc(wait[0][1]["span"]),
                   f"wait() guarded by is_empty()==true x{n_empty} and shutdown==false x{n_flag}")
            # no task run while the listener is registered
            slot_drops = [b.idx for b in wl.blocks if b.term["k"] == "drop" and not b.cleanup and "event_listener" in b.term["ty"]["s"]]
            reach = wl.reachable(wl.term_succ(lbb, False), unwind=False, avoid=[wbb] + slot_drops)
            ctx.ob("R1.no-lost-wakeup", "worker.no-task-while-listening", rbb not in reach, wl.loc(),
                   f"run_one_iteration reachable from listen without passing wait()/the listener's drop: {rbb in reach}" +
                   ("" if rbb not in reach else " - a busy worker would absorb notify(1) meant for an idle sibling"))
    # ---------------- R1 spawner side + R5
    sched = [b for b in prog.bodies if b.key.startswith("vicinal::scheduler::Scheduler::spawn_internal") and not b.is_closure]
    if len(sched) < 2:
        ctx.missing("R1.no-lost-wakeup", "Scheduler::spawn_internal / spawn_internal_and_forget")
    for b in sched:
        ctx.fn(b)
        # every spawn makes sure THIS pool has workers for the processor, unconditionally, before the task is queued: the start-up
        # is idempotent per (pool, processor); any shortcut decided from thread- or process-wide state is wrong for a second pool
        ens = [bb for bb, _t in calls_to(b, "pool::PoolInner::ensure_workers_spawned")]
        pushes0 = [bb for bb, t in b.calls() if t["callee"].get("method") == "push_back" and "VecDeque" in callee_key(t["callee"])]
        pc_e = path_count(b, ens)
        dom_e = b.dominators(unwind=False)
        ok_e = pc_e is not None and pc_e[0] >= 1 and all(any(e in dom_e[p_] for e in ens) for p_ in pushes0)
        ctx.ob("R3.same-processor", f"{b.name}.workers-ensured-before-enqueue", ok_e, b.loc(),
               f"ensure_workers_spawned per normal path {pc_e}; dominates every push_back: {ok_e}" +
               ("" if ok_e else " - a task can be queued on a live pool that has no worker for the processor: it never runs and its handle never resolves"))
        pushes = [(bb, t) for bb, t in b.calls() if t["callee"].get("method") == "push_back" and "VecDeque" in callee_key(t["callee"])]
        notes = [(bb, t) for bb, t in b.calls() if t["callee"].get("method") == "notify" and "event_listener" in callee_key(t["callee"])]
        ok = len(pushes) in (1, 2) and len(notes) == 1
        det = f"push_back sites {len(pushes)}, notify sites {len(notes)}"
        if ok:
            nbb = notes[0][0]
            r = b.reachable([0], unwind=False, avoid=[bb for bb, _ in pushes])
            before = nbb not in r
            after = True
            for pbb, _ in pushes:
                okp, _off = b.must_pass(b.term_succ(pbb, False), [nbb], b.exits(("return",)))
                after = after and okp
            ok = before and after
            det += f"; notify unreachable without a push: {before}; every path after a push notifies: {after}"
            qs = set()
            for pbb, t in pushes:
                sl = Slice(b).run(t["args"][0])
                qs |= {f.split("::")[-1] for f in sl["fields"] if f.endswith("_queue")}
            ok = ok and qs == {"urgent_queue", "regular_queue"}
            det += f"; queues {sorted(qs)}"
            # notify on the same processor state
        ctx.ob("R1.no-lost-wakeup", f"{b.name}.push-before-notify", ok, b.loc(), det)
        # R3: one processor id
        cp = [(bb, t) for bb, t in b.calls() if t["callee"].get("method") == "current_processor_id"]
        ews = calls_to(b, "pool::PoolInner::ensure_workers_spawned")
        goi = calls_to(b, "processor_registry::ProcessorRegistry::get_or_init")
        ok3 = len(cp) == 1 and len(ews) == 1 and len(goi) == 1
        if ok3:
            pid_l = cp[0][1]["dest"]["l"]
            for _, t in (ews[0], goi[0]):
                sl = Slice(b, through_calls=False).run(t["args"][1])
                ok3 = ok3 and pid_l in sl["locals"] and not sl["binops"] and len([c for c in sl["calls"] if c[0].split("::")[-1] == "current_processor_id"]) == 1
            # the queues pushed to belong to the state returned by that get_or_init
            st_l = goi[0][1]["dest"]["l"]
            for pbb, t in pushes:
                sl = Slice(b).run(t["args"][0])
                ok3 = ok3 and st_l in sl["locals"]
        ctx.ob("R3.same-processor", f"{b.name}.one-processor-id", ok3, b.loc(),
               "current_processor_id() result is passed unchanged to ensure_workers_spawned and get_or_init; pushes go to that state's queues")
        # R5 (only the variant that hands out a JoinHandle matters for the property)
        if b.name == "spawn_internal":
            for pbb, t in pushes:
                gl = GuardLiveness(b)
                live = gl.live_at_term(pbb)
                sl = Slice(b).run(t["args"][0])
                q = sorted({f.split("::")[-1] for f in sl["fields"] if f.endswith("_queue")})
                guarded = False
                for g in switch_guards(b, pbb):
                    if g["src"].get("kind") == "call" and g["src"]["term"]["callee"].get("method") == "load":
                        r_, fs = op_access_path(b, g["src"]["term"]["args"][0])
                        if fs and "shutdown" in fs[-1] and g["allowed"] == {0}:
                            lb = g["src"]["bb"]
                            guarded = bool(gl.live_at_term(lb))
                for q1 in q:   # one obligation per queue, however many push sites the source spells
                    ctx.ob("R5.enqueue-shutdown-discipline", f"spawn_internal|push:{q1}", guarded, b.loc(t["span"]),
                           f"push_back on {q1} is {'guarded by' if guarded else 'NOT control-dependent on'} a shutdown-flag read made under the queue lock"
                           + ("" if guarded else ": a task spawned through a Scheduler after the pool shut down is enqueued, never run and never dropped, so its JoinHandle never resolves"))

    # ---------------- R2
    tw = [b for b in prog.bodies if b.key.endswith("task::TaskWrapper<F> as vicinal::task::VicinalTask>::call") or
          (b.impl_trait and b.impl_trait.endswith("task::VicinalTask") and b.name == "call" and b.impl_adt and b.impl_adt.endswith("task::TaskWrapper"))]
    if not tw:
        ctx.missing("R2.run-once-result-always-sent", "<TaskWrapper<F> as VicinalTask>::call")
    else:
        b = tw[0]
        ctx.fn(b)
        # the closure is moved OUT of the wrapper, leaving an inert value behind: Option::take, or mem::replace / mem::take on the field
        takes = [(bb, t) for bb, t in b.calls() if (t["callee"].get("method") == "take" and "Option" in callee_key(t["callee"])) or
                 (callee_key(t["callee"]) in ("std::mem::replace", "core::mem::replace", "std::mem::take", "core::mem::take") and t["args"] and
                  any(f.endswith("::task") and "TaskWrapper" in f for f in Slice(b, through_calls=False).run(t["args"][0])["fields"]))]
        calls = [(bb, t) for bb, t in b.calls() if (uc.direct(b, bb) or ("",))[0] == "P" or
                 ((t["callee"].get("trait") or "").endswith("ops::FnOnce") and (t["callee"].get("self_ty") or {}).get("k") == "param")]
        dom = b.dominators(unwind=False)
        ok = len(takes) == 1 and len(calls) == 1 and takes[0][0] in dom[calls[0][0]]
        if ok:
            sl = Slice(b, through_calls=False).run(calls[0][1]["args"][0])
            ok = takes[0][1]["dest"]["l"] in sl["locals"] and not b.in_loop(calls[0][0])
            pc = path_count(b, [calls[0][0]])
            ok = ok and pc is not None and pc[1] == 1
        ctx.ob("R2.run-once-result-always-sent", "TaskWrapper::call.take-then-call", ok, b.loc(),
               "the closure is taken out of its Option (so a second call is a no-op) and invoked at most once per call")
    for name in ("wrap_task", "wrap_task_and_forget"):
        wb = prog.one(f"task::{name}")
        if wb is None:
            ctx.missing("R2.run-once-result-always-sent", f"task::{name}")
            continue
        for cl in prog.closures_of(wb):
            ctx.fn(cl)
            cu = [(bb, t) for bb, t in cl.calls() if callee_paths(t["callee"]) & CATCH_UNWIND]
            if not cu:
                continue
            # the user closure (upvar `task`) is only used as the argument of catch_unwind
            other_user = [(blk.idx, uc.site(cl, blk.idx)) for blk in cl.blocks if not blk.cleanup and uc.site(cl, blk.idx) and blk.idx != cu[0][0]]
            other_user = [(bb, s) for bb, s in other_user if not s["contained"] and s["kind"].startswith("U1")]
            ok = len(cu) == 1 and not other_user
            det = f"catch_unwind sites {len(cu)}; user-closure calls outside it: {[(bb, s['kind']) for bb, s in other_user] or 'none'}"
            if name == "wrap_task":
                snd = [(bb, t) for bb, t in cl.calls() if t["callee"].get("method") == "send" and "events_once" in callee_key(t["callee"])]
                okp = len(snd) == 1
                if okp:
                    okp2, _ = cl.must_pass(cl.term_succ(cu[0][0], False), [snd[0][0]], cl.exits(("return",)))
                    sl = Slice(cl, through_calls=False).run(snd[0][1]["args"][1])
                    okp = okp2 and cu[0][1]["dest"]["l"] in sl["locals"]
                ok = ok and okp
                det += f"; sender.send(result of catch_unwind) on every path after it: {okp}"
            ctx.ob("R2.run-once-result-always-sent", f"{name}.closure", ok, cl.loc(), det)

    # a worker takes ONE task at a time out of the shared queues: tasks it has not started stay visible to its sibling workers (a
    # task that waits for a later one in the same queue would otherwise starve while a sibling sleeps on an "empty" queue)
    bulk = []
    n_q = 0
    for b in prog.bodies:
        if not b.key.startswith("vicinal::worker::") or "::tests" in b.key:
            continue
        for bb, t in b.calls():
            if b.blocks[bb].cleanup or not t["args"]:
                continue
            k = callee_key(t["callee"])
            m = t["callee"].get("method")
            touches = [a for a in t["args"] if a.get("k") in ("copy", "move") and
                       any(f.endswith("::regular_queue") or f.endswith("::urgent_queue") for f in Slice(b).run(a)["fields"])]
            if not touches:
                continue
            n_q += 1
            if k in ("std::mem::swap", "core::mem::swap", "std::mem::take", "core::mem::take", "std::mem::replace", "core::mem::replace") or \
                    (m in ("drain", "split_off", "append", "clear", "retain", "truncate", "extend", "into_iter", "iter_mut", "make_contiguous") and "VecDeque" in k):
                bulk.append(f"{m or k.split('::')[-1]} in {short(b.key)} at {b.loc(t['span'])}")
    if n_q == 0:
        ctx.missing("R1.no-lost-wakeup", "uses of the shared task queues in vicinal::worker")
    else:
        ctx.ob("R1.no-lost-wakeup", "worker.one-task-at-a-time", not bulk, "",
               f"{n_q} operation(s) on the shared queues in the worker; bulk removals (whole-queue swap/take/drain/..): {bulk or 'none'}")
    # ---------------- R3 worker pins
    ews = prog.one("pool::PoolInner::ensure_workers_spawned")
    if ews is None:
        ctx.missing("R3.same-processor", "PoolInner::ensure_workers_spawned")
    else:
        ctx.fn(ews)
        wcl = None
        for cl in prog.closures_of(ews):
            if calls_to(cl, "pool::worker_loop"):
                wcl = cl
        if wcl is None:
            ctx.missing("R3.same-processor", "worker thread closure")
        else:
            ctx.fn(wcl)
            pin = [(bb, t) for bb, t in wcl.calls() if t["callee"].get("method") == "pin_current_thread_to"]
            loop_ = calls_to(wcl, "pool::worker_loop")
            dom = wcl.dominators(unwind=False)
            # pin happens on the Some arm; worker_loop is reached on both arms; pin must precede worker_loop on its arm
            ok = len(pin) == 1 and len(loop_) == 1 and loop_[0][0] in wcl.successors_reach(pin[0][0], False) and \
                pin[0][0] not in wcl.successors_reach(loop_[0][0], False)
            # the same captured processor id feeds filter closure and worker_loop
            upv = {u["place"]["p"][0]["i"]: u["name"] for u in wcl.d.get("upvars", []) if u["place"]["p"] and isinstance(u["place"]["p"][0], dict)}
            sl = Slice(wcl, through_calls=False).run(loop_[0][1]["args"][1]) if ok else {"upvars": set()}
            ok = ok and {upv.get(i) for i in sl["upvars"]} == {"processor_id"}
            fcl = [c for c in prog.closures_of(wcl)]
            okf = False
            for c in fcl:
                ids = [t for bb, t in c.calls() if t["callee"].get("method") == "id"]
                if ids:
                    cmp_ = [s for blk in c.blocks for s in blk.stmts if s["k"] == "assign" and s["rv"]["k"] == "binop" and s["rv"]["op"] == "Eq"]
                    okf = len(cmp_) == 1
            # take_all (not take(n)) over the filtered builder
            ta = [t for bb, t in wcl.calls() if t["callee"].get("method") in ("take_all",)]
            ctx.ob("R3.same-processor", "worker.pins-before-loop", ok and okf and len(ta) == 1, wcl.loc(),
                   f"pin_current_thread_to precedes worker_loop: {ok}; set built by filter(p.id() == processor_id).take_all(): {okf and len(ta)==1}")
        # the closure captures the parameter processor_id
        # (the spawn may sit in ensure_workers_spawned itself or in a closure it hands to an iterator adaptor: `(0..n).map(|i| spawn(..))`)
        spawners = [ews] + prog.closures_of(ews)
        sp = [(bd, bb, t) for bd in spawners for bb, t in bd.calls() if t["callee"].get("method") in ("spawn", "spawn_unchecked") and "thread" in callee_key(t["callee"])]
        ok = len(sp) == 1
        if ok and wcl is not None:
            from .c02 import deep_slice
            parent = sp[0][0]
            caps = closure_capture_ops(parent, wcl.key)
            ok = bool(caps)
            names = {u["name"] for u in wcl.d.get("upvars", [])}
            for _bb, ops in caps:
                okc = any((ews.key, 2) in deep_slice(prog, parent, o)["args"] for o in ops)
                ok = ok and okc and "processor_id" in names
        ctx.ob("R3.same-processor", "worker.captures-parameter-id", ok, ews.loc(), "the spawned closure captures ensure_workers_spawned's processor_id parameter")
        goi = calls_to(ews, "processor_registry::ProcessorRegistry::get_or_init")
        ok = len(goi) == 1 and Slice(ews, through_calls=False).run(goi[0][1]["args"][1])["args"] == {2}
        ctx.ob("R3.same-processor", "ensure_workers_spawned.state-of-parameter-id", ok, ews.loc(), "workers_spawned is tested on the state of the parameter processor id")

    # ---------------- R4
    ja = prog.one("pool::PoolInner::join_all_workers")
    if ja is None:
        ctx.missing("R4.shutdown-order", "PoolInner::join_all_workers")
    else:
        ctx.fn(ja)
        dom = ja.dominators(unwind=False)
        st = [e for e in atomic_events(ja) if e["op"] == "store" and e["field"] and e["field"].endswith("PoolInner::shutdown")]
        sig = calls_to(ja, "processor_registry::ProcessorRegistry::signal_shutdown_all")
        tk = [(bb, t) for bb, t in ja.calls() if callee_key(t["callee"]) in ("std::mem::take", "core::mem::take")]
        jn = _join_sites(prog, ja)
        ok = len(st) == 1 and len(sig) == 1 and len(tk) == 1 and len(jn) == 1
        det = f"store {len(st)}, signal {len(sig)}, take {len(tk)}, join {len(jn)}"
        if ok:
            ok = st[0]["vals"] == [1] and releaseish(st[0]["ords"][0]) and st[0]["bb"] in dom[sig[0][0]] and sig[0][0] in dom[tk[0][0]] and tk[0][0] in dom[jn[0][0]]
            gl = GuardLiveness(ja)
            under = bool(gl.live_at_term(tk[0][0]))
            outside = not gl.live_at_term(jn[0][0])
            ok = ok and under and outside
            det += f"; order store(true,Release) < signal < take < join: {ok}; take under the handle-list lock: {under}; join outside it: {outside}"
        ctx.ob("R4.shutdown-order", "join_all_workers", ok, ja.loc(), det)
    # the pool's Drop starts the shutdown on EVERY path: a pool that "has no workers yet" still has schedulers that may start some
    # later (the flag must be set), and workers whose handles are not registered yet
    pdrops = [b for b in prog.bodies if b.name == "drop" and (b.impl_trait or "").endswith("ops::Drop") and (b.impl_adt or "").endswith("pool::Pool")]
    if not pdrops:
        ctx.missing("R4.shutdown-order", "Drop for vicinal::pool::Pool")
    else:
        pd = pdrops[0]
        ctx.fn(pd)
        jc = [bb for bb, _t in calls_to(pd, "pool::PoolInner::join_all_workers")]
        st2 = [e["bb"] for e in atomic_events(pd) if e["op"] == "store" and e["field"] and e["field"].endswith("PoolInner::shutdown")]
        pc = path_count(pd, jc or st2)
        ctx.ob("R4.shutdown-order", "Pool::drop.always-shuts-down", pc == (1, 1), pd.loc(),
               f"join_all_workers (flag store, signal, join) per normal path of Pool::drop: {pc}" +
               ("" if pc == (1, 1) else " - on the skipping path the shutdown flag is never set: a scheduler that outlives the pool starts workers nobody signals or joins"))
    if ews is not None:
        gl = GuardLiveness(ews)
        lds = [e for e in atomic_events(ews) if e["op"] == "load" and e["field"] and e["field"].endswith("PoolInner::shutdown")]
        under = [e for e in lds if gl.live_at_term(e["bb"]) and acquireish(e["ords"][0] if e["ords"] else None)]
        ext = [(bb, t) for bb, t in ews.calls() if t["callee"].get("method") == "extend" and "Vec" in callee_key(t["callee"])]
        ok = len(under) == 1 and len(ext) == 1
        if ok:
            gs = switch_guards(ews, ext[0][0])
            ok = any(g["src"].get("kind") == "call" and g["src"].get("bb") == under[0]["bb"] and g["allowed"] == {0} for g in gs)
        ctx.ob("R4.shutdown-order", "ensure_workers_spawned.recheck-under-lock", ok, ews.loc(),
               "new handles are registered only if an Acquire re-read of the shutdown flag, made under the handle-list lock, is false; otherwise they are joined")
        # on the shutdown arm the freshly spawned workers are joined
        jn2 = _join_sites(prog, ews)
        ctx.ob("R4.shutdown-order", "ensure_workers_spawned.joins-late-workers", len(jn2) == 1 and (ews.in_loop(jn2[0][0]) or jn2[0][1]["callee"].get("method") != "join"), ews.loc(),
               "workers spawned after shutdown began are joined by the spawner")
    ss = prog.one("processor_state::ProcessorState::signal_shutdown")
    if ss is not None:
        ctx.fn(ss)
        st = [e for e in atomic_events(ss) if e["op"] == "store"]
        nt = [(bb, t) for bb, t in ss.calls() if t["callee"].get("method") == "notify"]
        dom = ss.dominators(unwind=False)
        ok = len(st) == 1 and len(nt) == 1 and st[0]["bb"] in dom[nt[0][0]] and releaseish(st[0]["ords"][0])
        ctx.ob("R4.shutdown-order", "signal_shutdown.flag-before-notify", ok, ss.loc(), "per-processor shutdown flag stored (Release) before all waiters are notified")
    # R5: queues drained at shutdown
    drained = False
    if ja is not None:
        seen = set()
        stack = [ja]
        while stack:
            b = stack.pop()
            if b.key in seen:
                continue
            seen.add(b.key)
            for bb, t in b.calls():
                m = t["callee"].get("method")
                if m in ("clear", "drain", "pop_front", "pop_back", "truncate") and "VecDeque" in callee_key(t["callee"]):
                    drained = True
                if callee_key(t["callee"]) in ("std::mem::take", "core::mem::take") and "VecDeque" in t["callee"]["full"]:
                    drained = True
                cb = prog.body_for_callee(t["callee"])
                if cb is not None:
                    stack.append(cb)
    ctx.ob("R5.enqueue-shutdown-discipline", "shutdown-drains-queues", drained, ja.loc() if ja else "",
           "join_all_workers (transitively) empties the task queues so that abandoned tasks are dropped and their senders disconnect" if drained else
           "shutdown never empties the task queues: tasks still queued when the workers exit are neither run nor dropped")

    # ---------------- R6
    n6 = 0
    for b in prog.bodies:
        if not b.key.startswith("vicinal::worker::") and not b.key.startswith("vicinal::pool::"):
            continue
        gl = GuardLiveness(b)
        for blk in b.blocks:
            if blk.cleanup:
                continue
            t = blk.term
            if t["k"] != "call":
                continue
            c = t["callee"]
            if (c.get("trait") or "").endswith("task::VicinalTask") and c.get("method") == "call":
                n6 += 1
                ctx.fn(b)
                live = gl.live_at_term(blk.idx)
                if b.name == "run_one_iteration":
                    dom7 = b.dominators(unwind=False)
                    loads = [e["bb"] for e in atomic_events(b) if e["op"] == "load" and e["field"] and e["field"].endswith("shutdown_flag")]
                    ok7 = any(l in dom7[blk.idx] for l in loads)
                    # and the task runs only on the not-shut-down arm of that read
                    ctx.ob("R7.shutdown-checked-before-any-task", f"run_one_iteration|call#{n6}", ok7, b.loc(t["span"]),
                           f"a shutdown_flag load dominates this task execution: {ok7}")
                ctx.ob("R6.no-task-under-queue-lock", f"{short(b.key)}|call#{n6}", not live, b.loc(t["span"]),
                       f"task executed with guards live: {[gl.guard_locals[l] + '<' + guard_target(b.local_ty(l)['s'])[:40] + '>' for l in live] or 'none'}"
                       + ("" if not live else " - spawns on this processor block and a nested spawn self-deadlocks"))

    # ---------------- R8
    rn = prog.one("processor_registry::ProcessorRegistry::new")
    if rn is None:
        ctx.missing("R8.registry-and-broadcast", "ProcessorRegistry::new")
    else:
        ctx.fn(rn)
        sizes = [(bb, t) for bb, t in rn.calls() if t["callee"].get("method") in ("take", "with_capacity", "resize_with", "repeat_n", "resize")]
        srcs = set()
        for _bb, t in sizes:
            for a in t["args"][1:] if t["callee"].get("method") in ("take", "resize_with", "resize") else t["args"]:
                srcs |= {callee_key(ct["callee"]).split("::")[-1] for _k, _b, ct in Slice(rn).run(a)["calls"]}
        ok = "max_processor_count" in srcs and not ({"active_processor_count", "len", "processors", "count"} & srcs)
        ctx.ob("R8.registry-and-broadcast", "registry-sized-by-id-space", ok, rn.loc(), f"table size derives from {sorted(srcs)} (need max_processor_count: the table is indexed by processor id, and ids can be sparse)")
    ss = prog.one("processor_state::ProcessorState::signal_shutdown")
    if ss is None:
        ctx.missing("R8.registry-and-broadcast", "ProcessorState::signal_shutdown")
    else:
        ctx.fn(ss)
        st = [e for e in atomic_events(ss) if e["op"] == "store" and e["field"] and e["field"].endswith("shutdown_flag")]
        nt = [(bb, t) for bb, t in ss.calls() if t["callee"].get("method") == "notify" and not ss.blocks[bb].cleanup]
        pc = path_count(ss, [bb for bb, _ in nt]) if nt else (0, 0)
        dom = ss.dominators(unwind=False)
        from ..mir import resolve_const
        maxed = all((resolve_const(ss, t["args"][1]) or {}).get("val") in (18446744073709551615, None) and "MAX" in str((resolve_const(ss, t["args"][1]) or {}).get("text", "MAX")) for _bb, t in nt)
        ok = len(st) == 1 and len(nt) == 1 and pc == (1, 1) and st[0]["bb"] in dom[nt[0][0]] and maxed and not switch_guards(ss, nt[0][0])
        ctx.ob("R8.registry-and-broadcast", "shutdown-broadcast-unconditional", ok, ss.loc(),
               f"flag store {len(st)}, notify sites {len(nt)} per path {pc}, notify(usize::MAX): {maxed}, unguarded: {not (nt and switch_guards(ss, nt[0][0]))}")

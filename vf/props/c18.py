"""C18 - allocation tracking is exact and transparent (alloc_tracker). DESIGN.md section 3/C18."""
from ..analysis import (path_count, INF, Slice, atomic_events, closure_capture_ops, UserCode)
from ..mir import callee_key, callee_paths, op_local, op_place, resolve_const, strip_generics, op_access_path

EXPL = ("Decides structural necessary conditions of C18 on MIR of alloc_tracker: (R1) each GlobalAlloc method of "
        "Allocator<A> forwards exactly once on every path to the same-named method of the wrapped allocator with "
        "its own parameters, unmodified and in order, and returns the inner result; (R2) alloc/alloc_zeroed/realloc "
        "record (requested size, 1) exactly once per call and dealloc never does; the size recorded is the layout "
        "size / new size; (R3) the counters live behind a thread_local, are registered in the process registry "
        "before being published to the thread, and the process total sums every registry entry; (R4) spans report "
        "current counters minus the start snapshot and both span kinds feed OperationMetrics::add_span.")
NOT = ("Not decided: exactness over all allocation histories and thread interleavings (values of the counters), "
       "report arithmetic (means, merging).")

GA = "std::alloc::GlobalAlloc"
METHODS = ("alloc", "dealloc", "alloc_zeroed", "realloc")


def run(ctx):
    ctx.explanation = EXPL
    ctx.not_decided = NOT
    prog = ctx.prog("alloc_tracker")
    ctx.rule("R1.forward-once", "exactly one call to <A as GlobalAlloc>::<same method> on every normal path", floor=4)
    ctx.rule("R1.args-unchanged", "the forwarded arguments are &self.inner and the parameters, unmodified, in order", floor=4)
    ctx.rule("R1.return-inner", "the value returned is the inner call's result", floor=4)
    ctx.rule("R1.no-other-alloc-call", "no other allocator entry point is called from a GlobalAlloc method", floor=4)
    ctx.rule("R2.track-once", "alloc/alloc_zeroed/realloc reach the tracking function exactly once per path, before delegating; dealloc never (transitively)", floor=4)
    ctx.rule("R2.track-size", "the tracked size is layout.size() (alloc, alloc_zeroed) / new_size (realloc)", floor=3)
    ctx.rule("R2.register", "register_allocation adds its argument to `bytes` and the constant 1 to `count`, once each", floor=2)
    ctx.rule("R2.track-reaches-register", "track_allocation passes the (converted) size to register_allocation exactly once unless the bootstrap guard is set", floor=1)
    ctx.rule("R3.thread-local", "the counter pointer and the bootstrap guard are thread_local statics", floor=2)
    ctx.rule("R3.register-before-publish", "the new counters are pushed to the process registry before the pointer is published to the thread; the bootstrap guard brackets the bootstrap allocations", floor=3)
    ctx.rule("R3.totals-sum-all", "allocation_totals reads bytes and count of every registry entry inside one loop over the registry", floor=2)
    ctx.rule("R4.delta", "span delta = current counters/totals minus the snapshot stored at span creation", floor=4)
    ctx.rule("R5.accumulate-total", "OperationMetrics::add_span and ::merge update every field exactly once on every path (no early exit), scalar totals by adding the matching operand, accumulators by add/merge of the matching operand", floor=10)
    ctx.rule("R6.one-critical-section-per-decision", "Session (Sync, documented for concurrent same-name use): looking an operation up and creating it when absent happen under ONE acquisition of the operations lock - a lookup under one acquisition deciding an insert under another lets two threads each create the entry, and one thread's spans are lost to the report", floor=1)
    ctx.rule("R5.merge-occupied-only", "Report::merge adds the right-hand operation's metrics to an entry that already existed, and inserts a clone when it did not - never inserts AND merges the same operand (that counts it twice)", floor=1)
    ctx.rule("R4.sink", "both span kinds record through OperationMetrics::add_span exactly once per non-panicking drop", floor=2)

    impl_bodies = {}
    for b in prog.bodies:
        if b.impl_trait == GA and b.impl_adt and b.impl_adt.endswith("allocator::Allocator") and b.name in METHODS \
                and not b.is_closure:
            impl_bodies[b.name] = b
    for m in METHODS:
        if m not in impl_bodies:
            ctx.missing("R1.forward-once", f"<Allocator<A> as GlobalAlloc>::{m}")
    uc = UserCode(prog)

    track_keys = set()
    tb = prog.one("allocator::track_allocation")
    if tb is None:
        ctx.missing("R2.track-once", "allocator::track_allocation")
    reg = prog.one("allocator::PerThreadCounters::register_allocation")
    if reg is None:
        ctx.missing("R2.register", "PerThreadCounters::register_allocation")

    # transitive reachability of the counters' writer
    def reaches(body, target_keys, seen=None):
        seen = seen if seen is not None else set()
        if body.key in seen:
            return False
        seen.add(body.key)
        for bb, t in body.calls():
            if callee_paths(t["callee"]) & target_keys:
                return True
            for cb in uc.callees(body, bb):
                if reaches(cb, target_keys, seen):
                    return True
        return False

    writer_keys = {reg.key} if reg else set()

    for m, b in sorted(impl_bodies.items()):
        ctx.fn(b)
        where = b.loc()
        fwd = []
        other = []
        for bb, t in b.calls():
            c = t["callee"]
            if c.get("trait") == GA:
                st = c.get("self_ty") or {}
                if c.get("method") == m and st.get("k") == "param":
                    fwd.append((bb, t))
                else:
                    other.append((bb, t))
            elif callee_key(c) in ("std::alloc::alloc", "std::alloc::dealloc", "std::alloc::realloc",
                                   "std::alloc::alloc_zeroed", "alloc::alloc::alloc", "alloc::alloc::dealloc",
                                   "alloc::alloc::realloc", "alloc::alloc::alloc_zeroed"):
                other.append((bb, t))
        pc = path_count(b, [bb for bb, _ in fwd])
        ctx.ob("R1.forward-once", f"{m}", pc == (1, 1), where,
               f"forwarding calls per normal path (min,max)={pc}; sites={[b.loc(t['span']) for _, t in fwd]}")
        ctx.ob("R1.no-other-alloc-call", f"{m}", not other, where,
               "other allocator calls: " + ", ".join(f"{t['callee']['full']} at {b.loc(t['span'])}" for _, t in other)
               if other else "no other allocator call")
        for bb, t in fwd:
            args = t["args"]
            ok = True
            why = []
            # arg0: &self.inner
            root, fields = op_access_path(b, args[0])
            if root != 1 or not fields or not fields[-1].endswith("Allocator::inner"):
                ok = False
                why.append(f"receiver is not self.inner (root _{root}, fields {fields})")
            for i, a in enumerate(args[1:], start=2):
                sl = Slice(b, through_calls=False).run(a)
                l = op_local(a)
                src = None
                if l is not None:
                    d = b.unique_def(l)
                    if 1 <= l <= b.arg_count:
                        src = l
                    elif d and d[2] == "assign" and d[3]["rv"]["k"] == "use":
                        src = op_local(d[3]["rv"]["op"])
                if src != i:
                    ok = False
                    why.append(f"argument {i-1} is not parameter _{i} unchanged (slice args={sorted(sl['args'])}, calls={[c[0] for c in sl['calls']]})")
                # the parameter must not be reassigned anywhere
                if any(True for blk in b.blocks for s in blk.stmts if s["k"] == "assign" and s["place"]["l"] == i):
                    ok = False
                    why.append(f"parameter _{i} is reassigned")
            ctx.ob("R1.args-unchanged", f"{m}", ok, b.loc(t["span"]), "; ".join(why) or
                   f"{t['callee']['full']}(&self.inner, params 2..{len(args)} copied unchanged)")
            # return value
            dest = t["dest"]
            okr = (dest["l"] == 0 and not dest["p"])
            if not okr and m != "dealloc":
                # allow `_x = call; _0 = move _x`
                d0 = b.unique_def(0)
                okr = bool(d0 and d0[2] == "assign" and d0[3]["rv"]["k"] == "use" and op_local(d0[3]["rv"]["op"]) == dest["l"])
            ctx.ob("R1.return-inner", f"{m}", okr, b.loc(t["span"]),
                   "inner result is written to the return place" if okr else "return place is not the inner call's destination")
        # R2
        if tb is not None:
            tcalls = [(bb, t) for bb, t in b.calls() if tb.key in callee_paths(t["callee"])]
            pc = path_count(b, [bb for bb, _ in tcalls])
            if m == "dealloc":
                trans = reaches(b, writer_keys | {tb.key})
                ctx.ob("R2.track-once", m, pc == (0, 0) and not trans, where,
                       f"dealloc tracking calls per path={pc}, transitively reaches counters writer={trans}")
            else:
                dom = b.dominators(unwind=False)
                before = all(any(tbb in dom.get(fbb, ()) for tbb, _ in tcalls) for fbb, _ in fwd) if tcalls else False
                ctx.ob("R2.track-once", m, pc == (1, 1) and before, where,
                       f"track_allocation calls per path={pc}; dominates the delegation={before}")
                for tbb, t in tcalls:
                    sl = Slice(b).run(t["args"][0])
                    if m == "realloc":
                        ok = sl["args"] == {4} and not sl["calls"]
                        det = f"argument derives from parameters {sorted(sl['args'])} via calls {[c[0] for c in sl['calls']]}; expected new_size (_4) only"
                    else:
                        keys = [c[0] for c in sl["calls"]]
                        ok = sl["args"] == {2} and keys == ["std::alloc::Layout::size"]
                        det = f"argument derives from parameters {sorted(sl['args'])} via calls {keys}; expected Layout::size(layout)"
                    ctx.ob("R2.track-size", m, ok, b.loc(t["span"]), det)

    # R2.register
    if reg is not None:
        ctx.fn(reg)
        evs = atomic_events(reg)
        for fld, want in (("bytes", "param"), ("count", 1)):
            es = [e for e in evs if e["field"] and e["field"].endswith("PerThreadCounters::" + fld)]
            pc = path_count(reg, [e["bb"] for e in es if e["op"] == "fetch_add"])
            ok = pc == (1, 1) and all(e["op"] == "fetch_add" for e in es)
            det = f"fetch_add on {fld}: per path {pc}"
            for e in es:
                a = e["term"]["args"][1]
                if want == "param":
                    sl = Slice(reg, through_calls=False).run(a)
                    okv = sl["args"] == {2} and not sl["calls"] and not sl["consts"]
                    det += f"; operand derives from parameter(s) {sorted(sl['args'])}"
                else:
                    c = resolve_const(reg, a)
                    okv = bool(c and c.get("val") == 1)
                    det += f"; operand constant={c.get('val') if c else None}"
                ok = ok and okv
            ctx.ob("R2.register", f"register_allocation.{fld}", ok, reg.loc(), det)

    # R2.track-reaches-register
    if tb is not None and reg is not None:
        ctx.fn(tb)
        cls = prog.closures_of(tb)
        sites = []
        for cb in [tb] + cls:
            for bb, t in cb.calls():
                if reg.key in callee_paths(t["callee"]):
                    sites.append((cb, bb, t))
        ok = len(sites) == 1
        det = f"{len(sites)} call site(s) of register_allocation reachable from track_allocation"
        if ok:
            cb, bb, t = sites[0]
            pc = path_count(cb, [bb])
            # the only way to skip must be the guard test
            ok = pc in ((0, 1), (1, 1)) and not cb.in_loop(bb)
            det += f"; per path {pc}"
            sl = Slice(cb).run(t["args"][1])
            src_ok = False
            if cb.is_closure and sl["upvars"]:
                caps = closure_capture_ops(tb, cb.key)
                for _bb, ops in caps:
                    for i in sl["upvars"]:
                        if i < len(ops):
                            s2 = Slice(tb).run(ops[i])
                            keys = [c[0] for c in s2["calls"]]
                            if s2["args"] == {1} and all(("try_into" in k or "expect" in k or "try_from" in k or "unwrap" in k) for k in keys):
                                src_ok = True
                            det += f"; captured value derives from parameter(s) {sorted(s2['args'])} via {keys}"
            elif not cb.is_closure:
                keys = [c[0] for c in sl["calls"]]
                src_ok = sl["args"] == {1} and all(("try_into" in k or "expect" in k or "try_from" in k) for k in keys)
            ok = ok and src_ok
            # when skipped: only if the init guard is set (Cell<bool>::get on TLS_INIT_GUARD closure arg)
            if pc == (0, 1):
                sw = [blk for blk in cb.blocks if blk.term["k"] == "switch"]
                g = False
                for blk in sw:
                    l = op_local(blk.term["discr"])
                    d = cb.unique_def(l) if l is not None else None
                    if d and d[2] == "call" and callee_key(d[3]["callee"]).endswith("cell::Cell::get"):
                        g = True
                    if d and d[2] == "call" and d[3]["callee"].get("method") in ("with", "try_with") and "LocalKey" in callee_key(d[3]["callee"]) \
                            and any(a.get("k") == "const" and strip_generics(a.get("fndef") or "").endswith("cell::Cell::get") for a in d[3]["args"]):
                        # `TLS_INIT_GUARD.with(Cell::get)`: the same read, spelled with the accessor as a function item
                        key_sl = Slice(cb).run(d[3]["args"][0])
                        flags = [p_ for p_, s_ in prog.statics.items() if "LocalKey<std::cell::Cell<bool>>" in s_["ty"]["s"]]
                        g = any((c.get("name") or "").endswith("allocator::TLS_INIT_GUARD") for c in key_sl["consts"]) or \
                            any(x.endswith("allocator::TLS_INIT_GUARD") for x in key_sl["statics"]) or \
                            (len(flags) == 1 and flags[0].endswith("allocator::TLS_INIT_GUARD") and
                             any("LocalKey<std::cell::Cell<bool>>" in (c.get("ty") or "") for c in key_sl["consts"]))
                ok = ok and g and len(sw) == 1
                det += f"; skipping is controlled by one Cell::get test={g and len(sw)==1}"
        ctx.ob("R2.track-reaches-register", "track_allocation", ok, tb.loc(), det)

    # R3: the per-thread counter pointer and the bootstrap flag live in thread-local storage (as two statics, or grouped in one)
    def holders(pattern):
        out = []
        for p_, s_ in prog.statics.items():
            if "alloc_tracker::allocator::" not in p_ or "__RUST_STD_INTERNAL" in p_:
                continue   # (the thread_local! macro's own helper statics are not program state)
            tys = [s_["ty"]["s"]]
            for a in s_["ty"].get("adts", []) + s_["ty"].get("owned", []):
                ad = prog.adts.get(a)
                if ad and a.startswith("alloc_tracker::"):
                    tys += [f["ty"]["s"] for v in ad.get("variants", []) for f in v["fields"]]
            if any(pattern in t for t in tys):
                out.append((p_, s_))
        return out
    for name, pattern in (("TLS_COUNTER_PTR", "OnceCell<*const alloc_tracker::allocator::PerThreadCounters>"), ("TLS_INIT_GUARD", "Cell<bool>")):
        st = holders(pattern)
        ok = bool(st) and all("thread::LocalKey" in s_["ty"]["s"] or "thread::local::LocalKey" in s_["ty"]["s"] for _p, s_ in st)
        ctx.ob("R3.thread-local", name, ok, st[0][1]["span"]["file"] + ":" + str(st[0][1]["span"]["line"]) if st else "",
               f"statics holding a `{pattern.split('::')[-1] if '::' in pattern else pattern}`: {[p_.split('::')[-1] + ': ' + s_['ty']['s'][:70] for p_, s_ in st] or 'missing'}")
    gi = prog.one("allocator::get_or_init_thread_counters")
    if gi is None:
        ctx.missing("R3.register-before-publish", "allocator::get_or_init_thread_counters")
    else:
        for cb in prog.closures_of(gi):
            ctx.fn(cb)
            push = [bb for bb, t in cb.calls() if callee_key(t["callee"]).endswith("Vec::push")]
            sets = [bb for bb, t in cb.calls() if callee_key(t["callee"]).endswith("OnceCell::set")]
            gset = [(bb, resolve_const(cb, t["args"][1])) for bb, t in cb.calls()
                    if callee_key(t["callee"]).endswith("LocalKey::set") or callee_key(t["callee"]).endswith("Cell::set")]
            arcnew = [bb for bb, t in cb.calls() if callee_key(t["callee"]).endswith("Arc::new")]
            if not push and not sets:
                continue
            dom = cb.dominators(unwind=False)
            ok1 = bool(push) and bool(sets) and all(any(p in dom[s] for p in push) for s in sets)
            ctx.ob("R3.register-before-publish", "push-dominates-publish", ok1, cb.loc(),
                   f"Vec::push blocks {push} dominate OnceCell::set blocks {sets}")
            gtrue = [bb for bb, c in gset if c and c.get("val") == 1]
            gfalse = [bb for bb, c in gset if c and c.get("val") == 0]
            ok2 = bool(gtrue) and bool(arcnew) and all(any(g in dom[a] for g in gtrue) for a in arcnew) and \
                all(any(g in dom[p] for g in gtrue) for p in push)
            ctx.ob("R3.register-before-publish", "guard-set-before-bootstrap", ok2, cb.loc(),
                   f"guard.set(true) blocks {gtrue} dominate Arc::new {arcnew} and push {push}")
            # guard cleared on every normal path after it was set
            ok3 = bool(gfalse)
            if ok3:
                for g in gtrue:
                    okp, off = cb.must_pass(cb.term_succ(g, False), gfalse, cb.exits(("return",)))
                    ok3 = ok3 and okp
            ctx.ob("R3.register-before-publish", "guard-cleared-after-bootstrap", ok3, cb.loc(),
                   f"every normal path from guard.set(true) to return passes guard.set(false) {gfalse}")
    # every counter object an allocation can be charged to is visible to the process total: a static that holds counters
    # (directly or in a collection) and is not thread-local is read by allocation_totals - no write-only "sink"
    at0 = prog.one("allocator::allocation_totals")
    if at0 is not None:
        refs = set()
        for bd in [at0] + prog.closures_of(at0):
            for blk in bd.blocks:
                for st in blk.stmts:
                    if st["k"] == "assign":
                        rv = st["rv"]
                        ops = [rv.get("op")] if rv["k"] in ("use", "cast") else rv.get("ops", [])
                        for o in ops:
                            if o and o.get("k") == "const" and o.get("name"):
                                refs.add(o["name"])
                        if rv["k"] == "tlref":
                            refs.add(rv["def"])
                t = blk.term
                if t["k"] == "call":
                    for a in t["args"]:
                        if a.get("k") == "const" and a.get("name"):
                            refs.add(a["name"])
        ref_tys = {}
        def _walk(x):
            if isinstance(x, dict):
                if x.get("k") == "const" and isinstance(x.get("ty"), str) and x["ty"].startswith("&"):
                    ref_tys.setdefault(x["ty"][1:].replace("'static ", "", 1).strip(), set()).add(x.get("text"))
                for v in x.values():
                    _walk(v)
            elif isinstance(x, list):
                for v in x:
                    _walk(v)
        for bd in [at0] + prog.closures_of(at0):
            _walk(bd.d["blocks"])
        by_ty = {}
        for p_, s_ in prog.statics.items():
            if "alloc_tracker::allocator::" in p_ and "__RUST_STD_INTERNAL" not in p_:
                by_ty.setdefault(s_["ty"]["s"], []).append(p_)
        sinks = []
        n_st = 0
        for p_, s_ in prog.statics.items():
            if "alloc_tracker::allocator::" not in p_ or "__RUST_STD_INTERNAL" in p_ or "PerThreadCounters" not in s_["ty"]["s"]:
                continue
            if "thread::LocalKey" in s_["ty"]["s"] or "thread::local::LocalKey" in s_["ty"]["s"]:
                continue
            n_st += 1
            named = any(r == p_ or r.startswith(p_ + "::") for r in refs)
            # statics are referenced through anonymous allocations in MIR constants: match by type (as many distinct references of
            # that type as there are statics of it)
            typed = len(ref_tys.get(s_["ty"]["s"], ())) >= len(by_ty.get(s_["ty"]["s"], [p_]))
            if not (named or typed):
                sinks.append(p_.split("::")[-1])
        ctx.ob("R3.totals-sum-all", "every-counter-static-is-summed", n_st >= 1 and not sinks, at0.loc(),
               f"{n_st} process-wide static(s) holding counters; not read by allocation_totals: {sinks or 'none'}" +
               ("" if not sinks else " - allocations charged there are forwarded to the wrapped allocator but appear in no span"))
    at = prog.one("allocator::allocation_totals")
    if at is None:
        ctx.missing("R3.totals-sum-all", "allocator::allocation_totals")
    else:
        ctx.fn(at)
        from ..analysis import element_ops
        for fld in ("bytes", "count"):
            eo = element_ops(prog, at, lambda t, _f=fld: callee_key(t["callee"]).endswith("PerThreadCounters::" + _f))
            ok = bool(eo) and all(e["ok"] for e in eo)
            okit = False
            for e in eo:
                if e["src"] is not None:
                    sl = Slice(e["in"]).run(e["src"])
                    if any(k.endswith("Mutex::lock") for k, _, _ in sl["calls"]):
                        okit = True
            ctx.ob("R3.totals-sum-all", fld, ok and okit, at.loc(),
                   f"{fld}() applied to every registered counter ({[e['form'] + ': ' + e['detail'] for e in eo][:2]}): {ok}; iterator built from the locked registry: {okit}")

    # R4 - evaluated on the Drop body with its private delta helper inlined, so it does not matter whether the subtraction
    # lives in `*_deltas` or directly in drop()
    for span, delta_fn, src in (("thread_span::ThreadSpan", "thread_span::thread_deltas", "get_or_init_thread_counters"),
                                ("process_span::ProcessSpan", "process_span::process_deltas", "allocation_totals")):
        drops = [b for b in prog.bodies if b.impl_trait and b.impl_trait.endswith("ops::Drop") and b.impl_adt and b.impl_adt.endswith(span)]
        news = prog.find(span + "::new")
        if not drops or not news:
            ctx.missing("R4.sink", f"{span} Drop/new")
            continue
        d0 = drops[0]
        ctx.fn(d0)
        KEEP = {"add_span", "get_or_init_thread_counters", "allocation_totals", "bytes", "count", "register_allocation"}
        d = prog.inlined_body(d0, pred=lambda cb: cb.name not in KEEP)
        sink = [(bb, t) for bb, t in d.calls() if callee_key(t["callee"]).endswith("OperationMetrics::add_span")]
        subs = [(bb, t) for bb, t in d.calls() if t["callee"].get("method") in ("checked_sub", "wrapping_sub", "saturating_sub", "sub")]
        okc = len(subs) == 2
        det = []
        rhs_fields = []
        for bb, t in subs:
            a = Slice(d).run(t["args"][0])
            sb = Slice(d, through_calls=False).run(t["args"][1])
            lhs_ok = any(k.endswith(src) for k, _, _ in a["calls"]) and not any(f.endswith(("start_bytes", "start_count")) for f in a["fields"])
            fl = sorted(f.split("::")[-1] for f in sb["fields"] if f.endswith(("start_bytes", "start_count")))
            rhs_ok = len(fl) == 1 and not sb["calls"]
            rhs_fields += fl
            okc = okc and lhs_ok and rhs_ok
            det.append(f"{t['callee']['method']}: minuend from {sorted({k.split('::')[-1] for k, _, _ in a['calls']})}, subtrahend = self.{fl}")
        okc = okc and sorted(rhs_fields) == ["start_bytes", "start_count"]
        ctx.ob("R4.delta", delta_fn.split("::")[-1], okc, d0.loc(), "; ".join(det) or f"{len(subs)} subtractions")
        # bytes delta and count delta reach add_span in that order
        oka = len(sink) == 1 and okc
        if oka:
            t = sink[0][1]
            order = []
            for a in t["args"][2:4]:
                sl = Slice(d).run(a)
                hit = [sorted(f.split("::")[-1] for f in Slice(d, through_calls=False).run(ct["args"][1])["fields"] if f.endswith(("start_bytes", "start_count")))
                       for _k, _b, ct in sl["calls"] if ct["callee"].get("method") in ("checked_sub", "wrapping_sub", "saturating_sub", "sub")]
                order.append(hit[0][0] if len(hit) == 1 and len(hit[0]) == 1 else None)
            oka = order == ["start_bytes", "start_count"]
            det2 = f"add_span(.., bytes, count) receives the deltas against {order}"
        else:
            det2 = f"add_span sites {len(sink)}"
        ctx.ob("R4.delta", span.split("::")[-1] + ".drop-args", oka, d0.loc(), det2)
        pc = path_count(d, [bb for bb, _ in sink])
        oks = pc in ((0, 1),) and len(sink) == 1
        if oks:
            # the only skip path is `thread::panicking() == true`
            from ..analysis import skips_only_via, err_outcomes_diverge

            def pred(u, v, src_, lab):
                return src_.get("kind") == "call" and callee_key(src_["term"]["callee"]).endswith("thread::panicking") and lab != 0
            only, edges = skips_only_via(d, [bb for bb, _ in sink], pred)
            oks = oks and only and bool(edges)
            # the metrics lock is taken unconditionally (blocking) and a poisoned lock is not tolerated silently
            locks = [(bb, t2) for bb, t2 in d.calls() if t2["callee"].get("method") in ("lock", "try_lock") and
                     callee_key(t2["callee"]).rsplit("::", 1)[0].endswith("Mutex") and "OperationMetrics" in str(d.local_ty(t2["dest"]["l"])["s"])]
            lock_ok = len(locks) == 1 and locks[0][1]["callee"].get("method") == "lock" and err_outcomes_diverge(d, locks[0][0])[0]
            oks = oks and lock_ok
            det_sink = f"; only skip is thread::panicking(): {only}; metrics lock is a blocking lock whose error diverges: {lock_ok}"
        else:
            det_sink = ""
        ctx.ob("R4.sink", span.split("::")[-1], oks, d0.loc(), f"add_span calls per path {pc}" + det_sink)
        n = news[0]
        ctx.fn(n)
        # start snapshot taken from the same source
        srcs = [callee_key(t["callee"]) for _, t in n.calls()]
        oksn = any(k.endswith(src) for k in srcs)
        ctx.ob("R4.delta", span.split("::")[-1] + ".snapshot-source", oksn, n.loc(), f"new() reads {src}: {oksn}")


    # R5: reports are the sums of their spans
    adt = prog.adts.get("alloc_tracker::operation_metrics::OperationMetrics")
    if adt is None:
        ctx.missing("R5.accumulate-total", "OperationMetrics")
        return
    from ..analysis import field_assigns
    fields = adt["variants"][0]["fields"]
    ADD_SPAN_ARG = {"total_iterations": {2}, "total_bytes": {3}, "total_count": {4}, "bytes": {2, 3}, "allocations": {2, 4}}
    for fname in ("add_span", "merge"):
        b = prog.one(f"operation_metrics::OperationMetrics::{fname}")
        if b is None:
            ctx.missing("R5.accumulate-total", f"OperationMetrics::{fname}")
            continue
        ctx.fn(b)
        for f in fields:
            n = f["name"]
            full = "alloc_tracker::operation_metrics::OperationMetrics::" + n
            if f["ty"]["k"] == "prim":
                asg = field_assigns(b, "OperationMetrics::" + n)
                pc = path_count(b, sorted({bb for bb, _, _ in asg}))
                ok = pc == (1, 1) and len(asg) == 1
                det = f"{n}: writes per path {pc}"
                if ok:
                    sl = Slice(b).run(asg[0][2]["rv"]["op"]) if asg[0][2]["rv"]["k"] == "use" else None
                    if sl is None:
                        ok = False
                    else:
                        ks = [k.split("::")[-1] for k, _, _ in sl["calls"]]
                        adds = [k for k in ks if k in ("checked_add", "wrapping_add", "saturating_add")] or [o for o in sl["binops"] if o.startswith("Add")]
                        want_args = {1, 2} if fname == "merge" else ({1} | ADD_SPAN_ARG[n])
                        ok = bool(adds) and full in sl["fields"] and sl["args"] == want_args and \
                            not [k for k in ks if k in ("checked_sub", "wrapping_sub", "checked_mul", "max", "min")]
                        det += f"; value derives via {ks} from parameters {sorted(sl['args'])} (expected {sorted(want_args)}) and field {n}"
                ctx.ob("R5.accumulate-total", f"{fname}.{n}", ok, b.loc(), det)
            else:
                meth = "add" if fname == "add_span" else "merge"
                cs = []
                for bb, t in b.calls():
                    if t["callee"].get("method") == meth and "SpanAccumulator" in callee_key(t["callee"]) and t["args"]:
                        r, fs = op_access_path(b, t["args"][0])
                        if fs and fs[-1] == full and r == 1:
                            cs.append((bb, t))
                pc = path_count(b, [bb for bb, _ in cs])
                ok = pc == (1, 1) and len(cs) == 1
                det = f"{n}: SpanAccumulator::{meth} calls per path {pc}"
                if ok:
                    t = cs[0][1]
                    if fname == "merge":
                        r2, fs2 = op_access_path(b, t["args"][1])
                        ok = r2 == 2 and bool(fs2) and fs2[-1] == full
                        det += f"; argument is other.{n}: {ok}"
                    else:
                        got = set()
                        for a in t["args"][1:]:
                            got |= Slice(b, through_calls=False).run(a)["args"]
                        ok = got == ADD_SPAN_ARG[n]
                        det += f"; arguments are parameters {sorted(got)} (expected {sorted(ADD_SPAN_ARG[n])})"
                ctx.ob("R5.accumulate-total", f"{fname}.{n}", ok, b.loc(), det)

    # ---------------- R5b Report::merge
    rm = prog.one("report::Report::merge")
    if rm is None:
        ctx.missing("R5.merge-occupied-only", "Report::merge")
    else:
        bodies = [rm] + prog.closures_of(rm)
        merges = [(bd, bb, t) for bd in bodies for bb, t in bd.calls() if t["callee"].get("method") == "merge" and "OperationMetrics" in callee_key(t["callee"]) + t["callee"].get("full", "")]
        bad = []
        for bd, bb, t in merges:
            ctx.fn(bd)
            sl = Slice(bd).run(t["args"][0])
            names = {k.split("::")[-1] for k, _b, _t in sl["calls"]}
            if names & {"or_insert_with", "or_insert", "or_default", "insert", "insert_entry", "or_insert_with_key"}:
                bad.append(f"merge applied to the entry returned by {sorted(names & {'or_insert_with', 'or_insert', 'or_default', 'insert', 'insert_entry'})} at {bd.loc(t['span'])}")
        ctx.ob("R5.merge-occupied-only", "Report::merge", bool(merges) and not bad, rm.loc(),
               f"merge sites {len(merges)}; on a just-inserted entry: {bad or 'none'}")

    # ---------------- R6: one critical section per decision on the session's operation table
    from ..analysis import LockSections

    def is_lock(t):
        # the lock of the operation TABLE (Mutex<HashMap<..>>), not the per-operation metrics mutexes nested under it
        return t["callee"].get("method") in ("lock", "try_lock") and callee_key(t["callee"]).rsplit("::", 1)[0].endswith("Mutex") and \
            "Mutex::<std::collections::HashMap<" in t["callee"].get("full", "").replace("sync::poison::mutex::", "sync::").replace("std::sync::", "")
    ls = LockSections(prog, is_lock)
    n6 = 0
    for b in prog.bodies:
        if b.is_closure or "::tests" in b.key or not b.key.startswith("alloc_tracker::session::") or not ls.locks(b):
            continue
        n6 += 1
        ctx.fn(b)
        pairs, sites = ls.check_then_act(b)
        det = f"{len(sites)} critical-section site(s)"
        if pairs:
            bb1, t1, bb2, t2, gbb = pairs[0]
            det += (f"; what `{callee_key(t1['callee']).split('::')[-1]}` found under one acquisition (line {t1['span']['line']}) decides whether "
                    f"`{callee_key(t2['callee']).split('::')[-1]}` acts under another (line {t2['span']['line']}): two threads creating the same operation "
                    f"both find nothing and both insert - one thread's spans land in a metrics object the report never sees")
        ctx.ob("R6.one-critical-section-per-decision", b.key.replace("alloc_tracker::", ""), not pairs, b.loc(), det)
    if n6 == 0:
        ctx.missing("R6.one-critical-section-per-decision", "functions of alloc_tracker::session that take the operations lock")


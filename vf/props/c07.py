"""C07 - single-threaded event is correct under any re-entrant waker callback (events_once, local)."""
import re
from ..analysis import (path_count, Slice, switch_guards, UserCode, guard_src_place, calls_to, who_calls, WAKER_FNS)
from ..evtflow import return_sites
from ..mir import callee_key, callee_paths, op_local, op_place, resolve_const, strip_generics, op_access_path, place_fields

EXPL = ("Decides structural necessary conditions of C07 on MIR of events_once::core::local (re-entry points are exactly the "
        "waker clone / wake / drop sites): (R1) after every callback site whose dominating observation of the state is "
        "non-terminal, no cell access and no state write is reachable without first re-reading the state; (R2) every wake "
        "is dominated by a store of a terminal state with no later non-terminal store; (R3) after the payload is moved "
        "out no callback site is reachable before the function returns; (R4) the waker clone dominates the first cell "
        "access of both poll paths; (R5) the receiver's disconnect reverts awaiting->bound before it destroys the "
        "stored waker and re-reads the state after it; (R6) release_event callers are the endpoint functions, at most "
        "once per path, and every cloned waker has exactly one sink (stored or dropped) on every path; (R7) typestate "
        "table: each cell access sits in its sanctioned function under the state observation that makes it defined.")
NOT = ("Not decided: the full tree of nested callback programs (which callback does which operation at which "
       "invocation); only the per-function preconditions that every such program relies on.")

EV = "events_once::core::local::LocalEvent::"
STATE = "local::LocalEvent::state"
BOUND, SET, AWAITING, DISCONNECTED = 0, 1, 2, 4
TERMINAL = {SET, DISCONNECTED}


def short(k):
    return k.replace("events_once::", "")


def state_ops(body):
    """Cell<u8> get/set/replace on the state field: list of dict(bb, op, val, dest)."""
    out = []
    for bb, t in body.calls():
        c = t["callee"]
        if c.get("method") not in ("get", "set", "replace") or "cell::Cell" not in c.get("path", "") or not t["args"]:
            continue
        r, fs = op_access_path(body, t["args"][0])
        if not fs or not fs[-1].endswith(STATE):
            continue
        val = None
        if c["method"] in ("set", "replace") and len(t["args"]) > 1:
            cst = resolve_const(body, t["args"][1])
            val = cst.get("val") if cst else None
        out.append({"bb": bb, "op": c["method"], "val": val, "dest": t["dest"]["l"] if not t["dest"]["p"] else None, "term": t})
    return out


def cell_accesses(body):
    out = []
    for bb, t in body.calls():
        if body.blocks[bb].cleanup or not t["args"]:
            continue
        m = t["callee"].get("method") or ""
        k = callee_key(t["callee"])
        kind = None
        if m == "write" and ("MaybeUninit" in k or "ptr" in k):
            kind = "write"
        elif m in ("assume_init_read", "read", "assume_init", "assume_init_ref", "assume_init_mut"):
            kind = "read"
        elif m in ("assume_init_drop", "drop_in_place"):
            kind = "drop"
        if kind is None:
            continue
        sl = Slice(body).run(t["args"][0])
        fs = {f.split("::")[-1] for f in sl["fields"] if f.startswith(EV)}
        cell = "value" if "value" in fs and "awaiter" not in fs else ("awaiter" if "awaiter" in fs and "value" not in fs else None)
        if cell:
            out.append({"bb": bb, "cell": cell, "kind": kind, "term": t})
    return out


def observed(body, bb, sops):
    """State values that can reach bb per dominating switches on results of state.get()/replace()."""
    reads = {o["dest"]: o for o in sops if o["op"] in ("get", "replace") and o["dest"] is not None}
    vals = None
    for g in switch_guards(body, bb):
        src = g["src"]
        root = None
        if src.get("kind") == "call" and src.get("local") in reads:
            root = src["local"]
            a = set(g["allowed"])
        elif src.get("kind") == "cmp" and src["op"] in ("Eq", "Ne") and src.get("lhs_local") is not None and \
                (src["lhs_local"] in reads or (Slice(body, through_calls=False).run({"k": "copy", "place": {"l": src["lhs_local"], "p": []}})["locals"] & set(reads))):
            c = src["const"]
            truth_vals = set()
            for lab in g["allowed"]:
                truth_vals.add(lab)
            # switch on bool: 0 = false
            eq = src["op"] == "Eq"
            if g["allowed"] == {0}:
                a = None if eq else {c}          # `!= c` false -> == c ;  `== c` false -> unknown
            elif 0 not in g["allowed"]:
                a = {c} if eq else None
            else:
                a = None
            root = src["lhs_local"]
            if a is None:
                continue
        else:
            # copies of a read result
            dl = g.get("discr_local")
            if dl is None:
                continue
            sl = Slice(body, through_calls=False).run({"k": "copy", "place": {"l": dl, "p": []}})
            if not (sl["locals"] & set(reads)) or src.get("kind") in ("cmp", "discr", "binop", "unop"):
                continue
            a = set(g["allowed"])
        if "otherwise" in a:
            continue
        vals = a if vals is None else (vals & a)
    return vals


def run(ctx):
    ctx.explanation = EXPL
    ctx.not_decided = NOT
    prog = ctx.prog("events_once")
    uc = UserCode(prog)
    ctx.rule("R1.revalidate-after-callback", "no cell access / state write reachable after a callback (under a non-terminal observation) without re-reading the state", floor=8)
    ctx.rule("R2.terminal-before-wake", "Waker::wake dominated by state.set(SET|DISCONNECTED), no later non-terminal set", floor=2)
    ctx.rule("R8.no-event-access-after-wake", "sender side: once the terminal state is stored and the awaiter's waker has been invoked the receiver may have released the storage - nothing derived from the event reference is used afterwards", floor=2)
    ctx.rule("R9.transition-on-every-path", "set / sender drop / receiver cancel write the state cell on every normal path", floor=3)
    ctx.rule("R3.extraction-is-last", "after the payload is moved out no callback site is reachable before return", floor=3)
    ctx.rule("R4.clone-before-cell", "Waker::clone dominates the first cell access and the state read in poll_bound / poll_awaiting", floor=2)
    ctx.rule("R5.revert-before-drop", "final_poll: state.set(BOUND) dominates the stored waker's destruction; a state.get() follows it before the disconnect store", floor=2)
    ctx.rule("R6.release-and-waker-balance", "release_event callers = local endpoint functions, <=1 per path; each cloned waker has exactly one sink per path", floor=7)
    ctx.rule("R7.state-guards-cell", "cell accesses occur in their sanctioned function under the required observed state", floor=9)

    fn = {b.name: b for b in prog.bodies if b.key.startswith(EV) and not b.is_closure}
    for need in ("set", "sender_dropped_without_set", "poll", "poll_bound", "poll_awaiting", "poll_set", "final_poll"):
        if need not in fn:
            ctx.missing("R1.revalidate-after-callback", f"LocalEvent::{need}")
    if "final_poll" not in fn:
        return

    def callback_sites(b):
        out = []
        for blk in b.blocks:
            if blk.cleanup:
                continue
            d = uc.direct(b, blk.idx)
            if d and (d[0].startswith("U3") or d[0].startswith("U2")):
                ty = d[1]
                if "Waker" in ty or d[0].startswith("U3"):
                    out.append((blk.idx, d))
        return out

    # ---------------- R1
    for name, b in sorted(fn.items()):
        ctx.fn(b)
        sops = state_ops(b)
        acc = cell_accesses(b)
        cbs = callback_sites(b)
        reads = [o["bb"] for o in sops if o["op"] in ("get", "replace")]
        writes = [o for o in sops if o["op"] in ("set", "replace")]
        calls_acc = [(bb, t) for bb, t in b.calls() if callee_key(t["callee"]).endswith("LocalEvent::poll_set")]
        for ubb, d in cbs:
            obs = observed(b, ubb, sops)
            # a store of a terminal state that dominates the callback also fixes the state as terminal
            dom = b.dominators(unwind=False)
            dom_sets = [o for o in writes if o["bb"] in dom[ubb] and o["bb"] != ubb]
            last_terminal = bool(dom_sets) and all(o["val"] in TERMINAL for o in dom_sets if o["bb"] == max(x["bb"] for x in dom_sets)) and \
                all(o["val"] in TERMINAL for o in dom_sets)
            terminal = (obs is not None and obs <= TERMINAL) or last_terminal
            after = b.reachable(b.term_succ(ubb, False), unwind=False, avoid=reads)
            bad = []
            for a in acc:
                if a["bb"] in after and a["bb"] != ubb:
                    bad.append(f"{a['cell']} {a['kind']} at {b.loc(a['term']['span'])}")
            for w in writes:
                if w["bb"] in after and w["bb"] != ubb:
                    bad.append(f"state.{w['op']}({w['val']}) at {b.loc(w['term']['span'])}")
            for bb2, t2 in calls_acc:
                if bb2 in after:
                    bad.append(f"poll_set() at {b.loc(t2['span'])}")
            ok = terminal or not bad
            kind = d[0]
            t = b.blocks[ubb].term
            what = callee_key(t["callee"]).split("::")[-1] if t["k"] == "call" else "drop"
            ctx.ob("R1.revalidate-after-callback", f"{name}|{kind}:{what}|obs:{sorted(obs) if obs is not None else '-'}", ok, b.loc(t["span"]),
                   f"callback {kind} ({d[1][:50]}) under observed state {sorted(obs) if obs is not None else 'none'}"
                   f"{' / terminal store before it' if last_terminal else ''}; reachable afterwards without a state re-read: {bad or 'nothing'}"
                   + ("" if ok else " - a re-entrant callback (send / drop sender) can have changed the state and the cells by then"))

    # ---------------- R2
    for name in ("set", "sender_dropped_without_set"):
        b = fn.get(name)
        if b is None:
            continue
        dom = b.dominators(unwind=False)
        sops = state_ops(b)
        for bb, t in b.calls():
            if callee_paths(t["callee"]) & WAKER_FNS and not b.blocks[bb].cleanup:
                sets = [o for o in sops if o["op"] in ("set", "replace") and o["bb"] in dom[bb]]
                ok = bool(sets) and all(o["val"] in TERMINAL for o in sets)
                later = [o for o in sops if o["op"] in ("set", "replace") and o["bb"] in b.successors_reach(bb, unwind=False)]
                ok = ok and not later
                ctx.ob("R2.terminal-before-wake", name, ok, b.loc(t["span"]),
                       f"stores dominating the wake: {[o['val'] for o in sets]}; stores after it: {[o['val'] for o in later]}")

        # the registered waker, once taken out of the awaiter cell, IS woken: on every normal path from the read to the return
        # (a waker dropped unwoken leaves the task that registered it pending for ever - the value sits in the event)
        reads = [bb for bb, t in b.calls() if t["callee"].get("method") in ("assume_init_read", "read", "assume_init") and not b.blocks[bb].cleanup and t["args"]
                 and any(f.endswith("LocalEvent::awaiter") for f in Slice(b).run(t["args"][0])["fields"])]
        wakes = [bb for bb, t in b.calls() if callee_paths(t["callee"]) & WAKER_FNS and not b.blocks[bb].cleanup]
        for rb in reads:
            okp, _off = b.must_pass(b.term_succ(rb, False), wakes, b.exits(("return",)))
            ctx.ob("R2.terminal-before-wake", f"{name}.taken-waker-is-woken", okp, b.loc(b.blocks[rb].term["span"]),
                   f"every normal path from taking the registered waker to the return invokes it: {okp}")

    # ---------------- R9
    for name in ("set", "sender_dropped_without_set", "final_poll"):
        b = fn.get(name)
        if b is None:
            continue
        ws = [o["bb"] for o in state_ops(b) if o["op"] in ("set", "replace")]
        pc = path_count(b, ws)
        ctx.ob("R9.transition-on-every-path", name, bool(ws) and pc[0] >= 1, b.loc(), f"state writes per normal path (min,max)={pc}")

    # ---------------- R8
    for name in ("set", "sender_dropped_without_set"):
        b = fn.get(name)
        if b is None:
            continue
        ev_params = [i for i in range(1, b.arg_count + 1) if "LocalEvent" in b.local_ty(i)["s"]]
        for bb, d in callback_sites(b):
            after = b.reachable(b.term_succ(bb, False), unwind=False)
            uses = []
            for a in sorted(after):
                blk = b.blocks[a]
                if blk.cleanup:
                    continue
                ops = []
                for st in blk.stmts:
                    if st["k"] == "assign":
                        rv = st["rv"]
                        for key in ("op", "a", "b"):
                            if isinstance(rv.get(key), dict):
                                ops.append((rv[key], st.get("span")))
                        for o in rv.get("ops", []) or []:
                            ops.append((o, st.get("span")))
                        if isinstance(rv.get("place"), dict):
                            ops.append(({"k": "copy", "place": rv["place"]}, st.get("span")))
                t = blk.term
                if t["k"] == "call":
                    for o in t["args"]:
                        ops.append((o, t["span"]))
                for o, sp in ops:
                    sl = Slice(b).run(o)
                    if sl["args"] & set(ev_params):
                        uses.append(b.loc(sp) if sp else f"bb{a}")
            ctx.ob("R8.no-event-access-after-wake", f"{name}|{d[0]}", not uses, b.loc(b.blocks[bb].term.get("span")),
                   f"uses of the event reference reachable after the callback: {sorted(set(uses))[:6]}" if uses else
                   "nothing derived from the event reference is used after the callback")

    endpoint_no_use_after_finish(ctx, prog, "R8.no-event-access-after-wake", EV)
    endpoint_receiver_drop(ctx, prog, "R6.release-and-waker-balance", EV, "local_receiver::LocalReceiverCore")
    endpoint_receiver_poll(ctx, prog, "R6.release-and-waker-balance", "local_receiver::LocalReceiverCore")
    protected_reference_rule(ctx, "R8.no-event-access-after-wake", "events_once::core::local::LocalEvent", "events_once::core::local::LocalEvent")
    endpoint_sender_drop(ctx, prog, "R9.transition-on-every-path", EV, "local_sender::LocalSenderCore")

    # ---------------- R3
    for name, b in sorted(fn.items()):
        acc = cell_accesses(b)
        reads = [a for a in acc if a["cell"] == "value" and a["kind"] == "read"]
        reads_calls = [(bb, t) for bb, t in b.calls() if callee_key(t["callee"]).endswith("LocalEvent::poll_set")]
        cbs = {bb for bb, _ in callback_sites(b)}
        for bb, t in [(a["bb"], a["term"]) for a in reads] + reads_calls:
            after = b.successors_reach(bb, unwind=False)
            hit = sorted(cbs & after)
            ctx.ob("R3.extraction-is-last", f"{name}|{'inline' if (bb, t) not in reads_calls else 'poll_set'}", not hit, b.loc(t["span"]),
                   f"callback sites reachable after the payload was moved out: {[b.loc(b.blocks[x].term['span']) for x in hit] or 'none'}")

    # ---------------- R4
    for name in ("poll_bound", "poll_awaiting"):
        b = fn.get(name)
        if b is None:
            continue
        dom = b.dominators(unwind=False)
        clones = [bb for bb, t in b.calls() if t["callee"].get("method") == "clone" and "Waker" in t["callee"]["full"]]
        acc = cell_accesses(b)
        sops = state_ops(b)
        firsts = [a["bb"] for a in acc] + [o["bb"] for o in sops]
        ok = len(clones) == 1 and bool(firsts) and all(clones[0] in dom[x] for x in firsts)
        ctx.ob("R4.clone-before-cell", name, ok, b.loc(), f"Waker::clone at bb{clones} dominates state reads and cell accesses {sorted(set(firsts))}")

    # ---------------- R5
    b = fn["final_poll"]
    sops = state_ops(b)
    acc = cell_accesses(b)
    dom = b.dominators(unwind=False)
    drops = [a for a in acc if a["cell"] == "awaiter" and a["kind"] == "drop"]
    rev = [o for o in sops if o["op"] == "set" and o["val"] == BOUND]
    ok = len(drops) == 1 and len(rev) == 1 and rev[0]["bb"] in dom[drops[0]["bb"]]
    ctx.ob("R5.revert-before-drop", "final_poll.revert-dominates-drop", ok, b.loc(),
           f"state.set(BOUND) {[o['bb'] for o in rev]} dominates the awaiter destruction {[a['bb'] for a in drops]}")
    if drops:
        dis = [o for o in sops if o["op"] == "set" and o["val"] == DISCONNECTED]
        gets = [o["bb"] for o in sops if o["op"] == "get"]
        ok2 = bool(dis)
        for o in dis:
            okp, _ = b.must_pass(b.term_succ(drops[0]["bb"], False), gets, [o["bb"]])
            ok2 = ok2 and okp
            # and the value the match uses is that fresh read
        ctx.ob("R5.revert-before-drop", "final_poll.reread-after-drop", ok2, b.loc(),
               "every path from the awaiter destruction to state.set(DISCONNECTED) passes a state.get()")
        # the switch deciding the outcome uses a read that is not before the drop
        outs = [(bb, p, s) for bb, p, s in return_sites(b)]
        ok3 = True
        for bb, p, s in outs:
            for g in switch_guards(b, bb):
                src = g["src"]
                if src.get("kind") == "call" and callee_key(src["term"]["callee"]).endswith("Cell::get"):
                    rb = src["bb"]
                    if rb in dom[drops[0]["bb"]] and len(g["listed"]) >= 2:
                        ok3 = False
        ctx.ob("R5.revert-before-drop", "final_poll.outcome-uses-fresh-read", ok3, b.loc(),
               "the outcome match is not driven by a state value read before the awaiter destruction")

    # ---------------- R6
    ALLOWED = {
        "events_once::core::local_sender::LocalSenderCore::send",
        "<events_once::core::local_sender::LocalSenderCore<E, T> as std::ops::Drop>::drop",
        "<events_once::core::local_receiver::LocalReceiverCore<E, T> as futures::Future>::poll",
        "<events_once::core::local_receiver::LocalReceiverCore<E, T> as std::future::Future>::poll",
        "events_once::core::local_receiver::LocalReceiverCore::into_value",
        "<events_once::core::local_receiver::LocalReceiverCore<E, T> as std::ops::Drop>::drop",
    }
    by_fn = {}
    for bd in prog.bodies:
        for bb, t in bd.calls():
            c = t["callee"]
            if c.get("method") == "release_event" and (c.get("trait") or "").endswith("local_refs::LocalRef"):
                by_fn.setdefault(bd.key, []).append((bd, bb, t))
    for k, sites in sorted(by_fn.items()):
        bd = sites[0][0]
        ctx.fn(bd)
        pc = path_count(bd, [bb for _, bb, _ in sites])
        ok = k in ALLOWED and pc is not None and pc[1] <= 1
        ctx.ob("R6.release-and-waker-balance", "release|" + short(k), ok, bd.loc(), f"in endpoint table: {k in ALLOWED}; release_event calls per path {pc}")
    ctx.ob("R6.release-and-waker-balance", "release|caller-count", len([k for k in by_fn if k in ALLOWED]) >= 5, "",
           f"{len(by_fn)} functions call LocalRef::release_event")
    for name in ("poll_bound", "poll_awaiting"):
        b = fn.get(name)
        if b is None:
            continue
        clones = [(bb, t) for bb, t in b.calls() if t["callee"].get("method") == "clone" and "Waker" in t["callee"]["full"]]
        if len(clones) != 1:
            ctx.ob("R6.release-and-waker-balance", f"waker-balance|{name}", False, b.loc(), f"{len(clones)} clone sites")
            continue
        wl = clones[0][1]["dest"]["l"]
        alias = {wl}
        ch = True
        while ch:
            ch = False
            for blk in b.blocks:
                for s in blk.stmts:
                    if s["k"] == "assign" and s["rv"]["k"] == "use" and s["rv"]["op"].get("k") == "move" and not s["rv"]["op"]["place"]["p"] \
                            and s["rv"]["op"]["place"]["l"] in alias and not s["place"]["p"] and s["place"]["l"] not in alias:
                        alias.add(s["place"]["l"])
                        ch = True
        sinks = []
        for blk in b.blocks:
            if blk.cleanup:
                continue
            t = blk.term
            if t["k"] == "drop" and t["place"]["l"] in alias and not t["place"]["p"]:
                sinks.append(blk.idx)
            if t["k"] == "call" and any(a.get("k") == "move" and not a["place"]["p"] and a["place"]["l"] in alias for a in t["args"]):
                sinks.append(blk.idx)
        pc = path_count(b, sinks, start=clones[0][0])
        ctx.ob("R6.release-and-waker-balance", f"waker-balance|{name}", pc == (1, 1), b.loc(),
               f"the cloned waker is stored or dropped exactly once on every path after the clone: sinks {sorted(set(sinks))}, per path {pc}")

    # ---------------- R7 typestate
    table = {
        ("value", "write"): ({"set"}, None),
        ("value", "read"): ({"poll_set", "final_poll"}, {SET}),
        ("value", "drop"): ({"set"}, {DISCONNECTED}),
        ("awaiter", "write"): ({"poll_bound", "poll_awaiting"}, None),
        ("awaiter", "read"): ({"set", "sender_dropped_without_set", "poll_awaiting"}, {AWAITING}),
        ("awaiter", "drop"): ({"final_poll"}, {AWAITING}),
    }
    for name, b in sorted(fn.items()):
        sops = state_ops(b)
        for a in cell_accesses(b):
            fns, want = table[(a["cell"], a["kind"])]
            ok = name in fns
            det = f"{a['cell']} {a['kind']} in {name} (sanctioned: {sorted(fns)})"
            if ok and want is not None and name != "poll_set":
                obs = observed(b, a["bb"], sops)
                ok = obs is not None and bool(obs) and obs <= want
                det += f"; under observed state {sorted(obs) if obs is not None else 'UNGUARDED'} (required {sorted(want)})"
            if ok and (a["cell"], a["kind"]) == ("awaiter", "write"):
                obs = observed(b, a["bb"], sops)
                want2 = {BOUND} if name == "poll_bound" else {AWAITING}
                ok = obs == want2
                det += f"; under observed state {sorted(obs) if obs is not None else 'UNGUARDED'} (required {sorted(want2)})"
            ctx.ob("R7.state-guards-cell", f"{a['cell']}.{a['kind']}@{name}", ok, b.loc(a["term"]["span"]), det)
    for b2, bb, t in who_calls(prog, "local::LocalEvent::poll_set"):
        obs = observed(b2, bb, state_ops(b2))
        ctx.ob("R7.state-guards-cell", f"poll_set<-{b2.name}", obs == {SET}, b2.loc(t["span"]),
               f"payload read entered under observed state {sorted(obs) if obs is not None else 'UNGUARDED'}")
    # value write precedes the state store in set()
    b = fn.get("set")
    if b is not None:
        dom = b.dominators(unwind=False)
        wr = [a for a in cell_accesses(b) if a["cell"] == "value" and a["kind"] == "write"]
        sets = [o for o in state_ops(b) if o["op"] in ("set", "replace")]
        ok = len(wr) == 1 and bool(sets) and all(wr[0]["bb"] in dom[o["bb"]] for o in sets)
        ctx.ob("R7.state-guards-cell", "value.write<state.set", ok, b.loc(), "the payload is written before the state is changed")


def endpoint_no_use_after_finish(ctx, prog, rid, event_prefix, finish=("set", "sender_dropped_without_set")):
    """Callers of the sender's finishing transitions (the endpoint layer): once `set` / `sender_dropped_without_set` has returned the
    receiver may already have released the storage (its waker ran inside the call), so the only things the caller may still do
    with its event reference are `release_event` (when the call granted the cleanup) and dropping the reference object itself."""
    from ..analysis import who_calls as _who
    ALLOWED = {"release_event", "drop_in_place", "drop"}
    n = 0
    for b, bb, t in _who(prog, *[event_prefix + f for f in finish]):
        if b.key.startswith(event_prefix.rstrip(":")) or b.blocks[bb].cleanup:
            continue
        n += 1
        ctx.fn(b)
        after = b.reachable(b.term_succ(bb, False), unwind=False)
        uses = []
        for a in sorted(after):
            blk = b.blocks[a]
            if blk.cleanup or blk.term["k"] != "call":
                continue
            t2 = blk.term
            m = t2["callee"].get("method") or callee_key(t2["callee"]).split("::")[-1]
            for o in t2["args"]:
                sl = Slice(b, through_calls=False).run(o)
                if any(f.endswith("::event_ref") for f in sl["fields"]):
                    if m not in ALLOWED:
                        uses.append(f"{m}@{b.loc(t2['span'])}")
                    break
        fname = callee_key(t["callee"]).split("::")[-1]
        ctx.ob(rid, f"{b.key.split('::core::')[-1]}->{fname}", not uses, b.loc(t["span"]),
               f"uses of the event reference after {fname}() returned, other than release_event / dropping the reference: {sorted(set(uses)) or 'none'}"
               + (" - the receiver's waker ran inside that call and may have released the storage" if uses else ""))
    if n == 0:
        ctx.missing(rid, f"endpoint callers of {event_prefix}{{{', '.join(finish)}}}")


def endpoint_receiver_drop(ctx, prog, rid, event_prefix, recv_suffix):
    """The receiver endpoint's Drop: (1) `final_poll` is reached on every path on which an event reference was taken - the only
    sanctioned skip is the `Option` of the reference being empty; (2) after `final_poll` the event is released on every path
    except the one where its result is `Ok(None)` - decided by THAT result, not by an earlier look at the event."""
    from ..analysis import skips_only_via
    drops = [b for b in prog.bodies if b.impl_trait and b.impl_trait.endswith("ops::Drop") and b.impl_adt and b.impl_adt.endswith(recv_suffix) and b.name == "drop"]
    if not drops:
        ctx.missing(rid, f"Drop for {recv_suffix}")
        return
    d = drops[0]
    ctx.fn(d)
    fp = [(bb, t) for bb, t in d.calls() if callee_key(t["callee"]).startswith(event_prefix.rstrip(":")) and t["callee"].get("method") == "final_poll"]
    rel = [(bb, t) for bb, t in d.calls() if t["callee"].get("method") == "release_event" and not d.blocks[bb].cleanup]
    if len(fp) != 1 or not rel:
        ctx.ob(rid, f"{recv_suffix.split('::')[-1]}.drop.shape", False, d.loc(), f"final_poll sites {len(fp)}, release_event sites {len(rel)}")
        return
    fbb, ft = fp[0]

    def only_option_empty(u, v, src, lab):
        # `if let Some(event_ref) = self.event_ref.take()`: the None side
        return src.get("kind") == "discr" and _is_variant0(d, u, lab) and "Option" in str(d.local_ty((src.get("place") or {}).get("l", 0))["s"])
    ok1, _e = skips_only_via(d, [fbb], only_option_empty)
    ctx.ob(rid, f"{recv_suffix.split('::')[-1]}.drop.always-final-poll", ok1, d.loc(ft["span"]),
           f"every path that holds an event reference reaches final_poll: {ok1}" + ("" if ok1 else " - a receiver that goes away without the cancelling transition leaves the sender believing somebody still listens"))
    res = {ft["dest"]["l"]}
    changed = True
    while changed:
        changed = False
        for blk in d.blocks:
            for st in blk.stmts:
                if st["k"] == "assign" and st["rv"]["k"] == "use" and not st["place"]["p"]:
                    pl = op_place(st["rv"]["op"])
                    if pl is not None and pl["l"] in res and not pl["p"] and st["place"]["l"] not in res:
                        res.add(st["place"]["l"])
                        changed = True

    def ok_none_edge(u, v, src, lab):
        pl = src.get("place") or {}
        inner = any(isinstance(e, dict) and e.get("v") == "Ok" for e in pl.get("p", []))
        return src.get("kind") == "discr" and pl.get("l") in res and inner and _is_variant0(d, u, lab)
    rets = d.exits(("return",))
    r = d.reachable(d.term_succ(fbb, False), unwind=False, avoid=[bb for bb, _ in rel],
                    avoid_edges=[(blk.idx, tg) for blk in d.blocks if blk.term["k"] == "switch"
                                 for lab, tg in (blk.term["arms"] + [["otherwise", blk.term["otherwise"]]]) if ok_none_edge(blk.idx, tg, _src(d, blk), lab)])
    ok2 = not [x for x in rets if x in r]
    ctx.ob(rid, f"{recv_suffix.split('::')[-1]}.drop.release-unless-ok-none", ok2, d.loc(rel[0][1]["span"]),
           f"after final_poll every path releases the event except the `Ok(None)` arm of its result: {ok2}" +
           ("" if ok2 else " - a terminal outcome (value waiting, or sender gone) that is not followed by release_event leaks the event; a decision taken from an earlier look at the event is stale once final_poll ran the waker's destructor"))


def protected_reference_rule(ctx, rid, module, adt):
    """A `&Event` function ARGUMENT is protected for the whole call (Stacked/Tree Borrows): the storage it points to must not be
    freed while the function runs. A waker callback may poll the receiver to completion and release the event - so no
    function that holds the event by `&Event` (rather than by `&UnsafeCell<Event>` / raw pointer, which carry no protector)
    may invoke a waker, directly or through helpers. Evaluated on the UN-normalised program (helpers as written), over every
    function of the module: no function name is involved."""
    rp = ctx.raw_prog("events_once")
    n = 0
    wake_reach = {}

    def reaches_wake(b, depth=4, seen=None):
        if b.key in wake_reach:
            return wake_reach[b.key]
        seen = seen or set()
        if b.key in seen or depth == 0:
            return None
        seen = seen | {b.key}
        hit = None
        for bb, t in b.calls():
            if b.blocks[bb].cleanup:
                continue
            if callee_paths(t["callee"]) & WAKE_CALLS:
                hit = b.loc(t["span"])
                break
            cb = rp.body_for_callee(t["callee"])
            if cb is not None and cb.crate == b.crate and not cb.is_closure:
                h = reaches_wake(cb, depth - 1, seen)
                if h:
                    hit = f"{cb.name} -> {h}"
                    break
        wake_reach[b.key] = hit
        return hit

    for b in rp.bodies:
        if not b.key.startswith(module) or "::tests" in b.key or b.is_closure:
            continue
        prot = []
        for i in range(1, b.arg_count + 1):
            ty = b.local_ty(i)
            s_ = ty["s"]
            if ty["k"] in ("ref", "refmut") and re.match(r"^&(?:'\w+ )?(?:mut )?" + re.escape(adt) + r"\b", s_):
                prot.append(i)
        if not prot:
            continue
        n += 1
        hit = reaches_wake(b)
        ctx.ob(rid, f"{b.key.split('::')[-1]}:protected-ref-no-wake", hit is None, b.loc(),
               f"holds the event by reference argument _{prot[0]} ({b.local_ty(prot[0])['s'][:60]}); reaches a waker invocation: {hit or 'no'}" +
               ("" if hit is None else " - the callback may release the event while this function's protected reference is live"))
    if n == 0:
        ctx.missing(rid, f"functions of {module} taking {adt} by reference")


WAKE_CALLS = {"std::task::Waker::wake", "std::task::Waker::wake_by_ref", "core::task::Waker::wake", "core::task::Waker::wake_by_ref",
              "std::task::wake::Waker::wake", "std::task::wake::Waker::wake_by_ref", "core::task::wake::Waker::wake", "core::task::wake::Waker::wake_by_ref"}


def endpoint_receiver_poll(ctx, prog, rid, recv_suffix):
    """The receiver endpoint's Future::poll: whether THIS poll completed the event (so the storage must be released and the
    receiver become inert) is decided by the value the inner `Event::poll` returned - not by a look at the event taken before
    it (the waker's clone callback, run inside the inner poll, may complete the event) and not by one taken after it."""
    ps = [b for b in prog.bodies if b.name == "poll" and b.impl_trait and b.impl_trait.endswith("future::Future") and b.impl_adt
          and b.impl_adt.endswith(recv_suffix)]
    if not ps:
        ctx.missing(rid, f"Future::poll for {recv_suffix}")
        return
    b = ps[0]
    ctx.fn(b)
    name = recv_suffix.split("::")[-1]
    ep = [(bb, t) for bb, t in b.calls() if t["callee"].get("method") == "poll" and "vent" in callee_key(t["callee"]) and not b.blocks[bb].cleanup]
    rel = [(bb, t) for bb, t in b.calls() if t["callee"].get("method") == "release_event" and not b.blocks[bb].cleanup]
    if len(ep) != 1 or len(rel) != 1:
        ctx.ob(rid, f"{name}.poll.shape", False, b.loc(), f"inner poll sites {len(ep)}, release_event sites {len(rel)}")
        return
    ebb, et = ep[0]
    rbb, rt = rel[0]
    dom = b.dominators(unwind=False)
    decided = False
    foreign = []
    for g in switch_guards(b, rbb, dom=dom):
        if g["bb"] not in b.successors_reach(ebb, False) or ebb not in dom[g["bb"]]:
            continue   # tests made before the inner poll (the Option of the reference)
        sl = Slice(b).run(b.blocks[g["bb"]].term["discr"])
        if any(ct is et for _k, _b, ct in sl["calls"]):
            decided = True
        else:
            foreign.append(g["bb"])
    # a guard computed BEFORE the inner poll but tested after it is stale too: every guard after the poll must derive from it
    ok = ebb in dom[rbb] and decided and not foreign
    # and the not-completed side does not release: the release is unreachable when the result is None
    ctx.ob(rid, f"{name}.poll.release-decided-by-inner-result", ok, b.loc(rt["span"]),
           f"release_event after the inner poll: {ebb in dom[rbb]}; guarded by the inner poll's own result: {decided}; other tests between them: {len(foreign)}" +
           ("" if ok else " - completion judged from a separate look at the event misses a completion that happens inside the inner poll (waker clone callback): Ready is returned but the storage is neither released nor the receiver made inert"))


def _is_variant0(d, u, lab):
    """Does edge label `lab` of the switch at block u mean `discriminant == 0` (None / Ok)? Either the listed arm 0, or the
    `otherwise` arm of a two-variant switch that lists only 1."""
    listed = [v for v, _t in d.blocks[u].term["arms"]]
    return lab == 0 or (lab == "otherwise" and listed == [1])


def _src(d, blk):
    from ..analysis import discr_source
    l = op_local(blk.term["discr"])
    return discr_source(d, l) if l is not None else {}


def endpoint_sender_drop(ctx, prog, rid, event_prefix, sender_suffix):
    """The sender endpoint's Drop performs the disconnect transition exactly once on every path (no early exit, e.g. while
    panicking): a sender that vanishes silently leaves the receiver waiting forever."""
    drops = [b for b in prog.bodies if b.impl_trait and b.impl_trait.endswith("ops::Drop") and b.impl_adt and b.impl_adt.endswith(sender_suffix) and b.name == "drop"]
    if not drops:
        ctx.missing(rid, f"Drop for {sender_suffix}")
        return
    d = drops[0]
    ctx.fn(d)
    fin = [(bb, t) for bb, t in d.calls() if t["callee"].get("method") == "sender_dropped_without_set" and not d.blocks[bb].cleanup]
    pc = path_count(d, [bb for bb, _ in fin]) if fin else (0, 0)
    ctx.ob(rid, f"{sender_suffix.split('::')[-1]}.drop.always-disconnects", pc == (1, 1), d.loc(),
           f"sender_dropped_without_set calls per normal path (min,max)={pc}")

"""C20 - statistics: every reported p-value lies in [1e-15, 1]; non-finite -> no evidence (cbh_stats) - one clause."""
from ..analysis import (path_count, Slice, switch_guards, UserCode, calls_to, who_calls, field_assigns)
from ..evtflow import return_sites
from ..mir import callee_key, callee_paths, op_local, op_place, strip_generics, op_access_path, place_fields, resolve_const

EXPL = ("Only the range clause of C20 is decided: every reported p-value lies in the documented reportable range [1e-15, 1] "
        "and non-finite intermediates become 'no evidence'. A small abstract interpretation over the MIR of cbh_stats "
        "computes, for every f64-valued function, closure, p-valued struct field and container element, a pair (lower "
        "bound >= 1e-15 known, upper bound <= 1 known): constants by value, clamp_p_value -> both, f64::min/max/clamp by "
        "their lattice rules, calls by callee summary (least fixpoint), struct fields by the meet over every construction "
        "site, Vec/Option elements by the closure or constant that produced them; any arithmetic result is unbounded "
        "until it passes the sanitiser. (R1) every p-value of the public surface (table below, confirmed by reading) must "
        "come out as (true, true); (R2) the sanitiser itself: not-finite -> constant 1.0, otherwise f64::clamp with the "
        "constants 1e-15 and 1.0; (R3) the exact/approximate switch-over predicate is applied to the two complementary "
        "side sizes at every call site (sibling agreement).")
NOT = ("Not decided: exactness of the rank tests and estimators against their definitions, invariances, Benjamini-Hochberg "
       "decisions (numerical).")

LO, HI = 1e-15, 1.0
P_FIELDS = {  # struct -> p-valued fields (public surface + internal carriers)
    "cbh_stats::stats::ChangePoint": ["p_value"],
    "cbh_stats::stats::MannKendall": ["p_value"],
    "cbh_stats::stats::MannWhitneyU": ["two_sided_p"],
    "cbh_stats::selection::SelectionAdjustedChangePoint": ["tainted_p", "adjusted_p"],
    "cbh_stats::selection::SelectedScore": ["p"],
}
P_FUNCS = ["stats::MannWhitneyU::two_sided_p_value", "stats::mann_whitney_u_pvalue", "student_t::student_t_two_sided_p",
           "normal::two_sided_p_from_z", "stats::normal_mann_whitney_p", "stats::exact_two_sided_p",
           "selection::SplitScorer::p_for_subset"]
ACCESSORS = {"get", "copied", "cloned", "and_then", "first", "last", "flatten", "as_ref", "as_deref", "iter", "deref", "index",
             "get_or_insert_with", "as_slice", "unwrap", "expect", "unwrap_unchecked", "borrow", "as_mut", "get_mut", "map"}


def meet(a, b):
    return (a[0] and b[0], a[1] and b[1])


TOP = (True, True)
BOT = (False, False)


class Ranges:
    def __init__(self, prog):
        self.prog = prog
        self.fn = {}       # body.key -> (lo, hi) of returned f64 / of elements of returned container
        self.field = {}    # "Adt::field" -> (lo, hi)
        self.uc = UserCode(prog)
        self._stack = set()
        self.unknown = []  # diagnostics
        self._fix()

    def _fix(self):
        bodies = [b for b in self.prog.bodies if b.crate == "cbh_stats"]
        for b in bodies:
            self.fn[b.key] = TOP
        for adt, fs in P_FIELDS.items():
            for f in fs:
                self.field[f"{adt}::{f}"] = TOP
        for _ in range(12):
            changed = False
            for b in bodies:
                new = self.summarize(b)
                if new != self.fn[b.key]:
                    self.fn[b.key] = new
                    changed = True
            for adt, fs in P_FIELDS.items():
                for f in fs:
                    new = self.field_summary(adt, f)
                    if new != self.field[f"{adt}::{f}"]:
                        self.field[f"{adt}::{f}"] = new
                        changed = True
            if not changed:
                break

    def field_summary(self, adt, f):
        res = TOP
        n = 0
        for b in self.prog.bodies:
            for blk in b.blocks:
                for s in blk.stmts:
                    if s["k"] == "assign" and s["rv"]["k"] == "aggr" and s["rv"].get("adt") == adt and f in s["rv"].get("fields", []):
                        i = s["rv"]["fields"].index(f)
                        res = meet(res, self.value(b, s["rv"]["ops"][i]))
                        n += 1
            for bb, i, s in field_assigns(b, adt.split("::")[-1] + "::" + f):
                if s["rv"]["k"] == "use":
                    res = meet(res, self.value(b, s["rv"]["op"]))
                else:
                    res = BOT
        return res if n else BOT

    def summarize(self, b):
        """Range of the value (or of the f64 elements of the container) returned by b."""
        res = None
        for bb, path, s in return_sites(b):
            if "rv" in s:  # assignment to _0
                rv = s["rv"]
                if rv["k"] == "use":
                    v = self.value(b, rv["op"])
                elif rv["k"] == "aggr":
                    # Option/Result/struct wrappers around the value: meet of f64-ish operands
                    v = TOP
                    any_ = False
                    for o in rv["ops"]:
                        v = meet(v, self.value(b, o))
                        any_ = True
                    if not any_:
                        v = TOP
                else:
                    v = BOT
            else:  # call writing _0
                v = self.call_value(b, bb, s)
            res = v if res is None else meet(res, v)
        return res if res is not None else TOP

    def value(self, b, op, depth=0):
        if op is None or depth > 40:
            return BOT
        if op.get("k") == "const":
            if "fval" in op:
                fv = op["fval"]
                if isinstance(fv, str):
                    return BOT
                return (fv >= LO, fv <= HI)
            if op.get("ty") in ("()", "bool") or "val" in op:
                return TOP  # not a float: irrelevant operand (e.g. usize index)
            return TOP
        pl = op_place(op)
        if pl is None:
            return BOT
        fs = place_fields(pl)
        for f in reversed(fs):
            if f in self.field:
                return self.field[f]
        l = pl["l"]
        key = (b.key, l)
        if key in self._stack:
            return TOP   # cycle (loop-carried): optimistic, resolved by the other definitions
        ty = b.local_ty(l)["s"]
        if l != 0 and 1 <= l <= b.arg_count:
            # parameter: unknown unless it is a non-float
            if "f64" not in ty:
                return TOP
            return self.param_value(b, l)
        defs = b.defs().get(l, [])
        # assignments to projections of l are definitions too (struct locals); keep simple
        if not defs:
            # closure upvar / unknown
            if b.is_closure and l == 1:
                return self.upvar_value(b, pl)
            return BOT
        self._stack.add(key)
        try:
            res = None
            for dbb, di, kind, payload in defs:
                if kind == "call":
                    v = self.call_value(b, dbb, payload, depth + 1)
                else:
                    v = self.rvalue(b, payload["rv"], depth + 1)
                res = v if res is None else meet(res, v)
            return res if res is not None else BOT
        finally:
            self._stack.discard(key)

    def param_value(self, b, l):
        """An f64 parameter is as good as the meet of the actual arguments over all call sites in the crate."""
        if b.is_closure:
            return BOT
        key = ("param", b.key, l)
        if key in self._stack:
            return TOP
        self._stack.add(key)
        try:
            res = None
            for caller in self.prog.bodies:
                for bb, t in caller.calls():
                    cb = self.prog.body_for_callee(t["callee"])
                    if cb is not None and cb.key == b.key and len(t["args"]) >= l:
                        v = self.value(caller, t["args"][l - 1])
                        res = v if res is None else meet(res, v)
            return res if res is not None else BOT
        finally:
            self._stack.discard(key)

    def upvar_value(self, b, pl):
        # captured by reference/value from the parent: find the capture operand
        from ..analysis import closure_capture_ops
        parent = self.prog.by_key.get(strip_generics(b.root))
        idx = None
        for e in pl["p"]:
            if isinstance(e, dict) and "f" in e:
                idx = e["i"]
                break
        # search the enclosing bodies for the aggregate creating this closure
        for cand in self.prog.bodies:
            if cand.crate != b.crate or not (b.key.startswith(cand.key + "::{closure")):
                continue
            for _bb, ops in closure_capture_ops(cand, b.key):
                if idx is not None and idx < len(ops):
                    return self.value(cand, ops[idx])
        return BOT

    def rvalue(self, b, rv, depth):
        k = rv["k"]
        if k in ("use", "cast"):
            if k == "cast" and "f64" not in rv["to"]["s"] and "f64" not in rv["from"]["s"]:
                return TOP
            if k == "cast" and rv["ck"] in ("IntToFloat",):
                return BOT
            return self.value(b, rv["op"], depth)
        if k in ("ref", "rawptr"):
            return self.value(b, {"k": "copy", "place": rv["place"]}, depth)
        if k == "aggr":
            v = TOP
            for o in rv["ops"]:
                v = meet(v, self.value(b, o, depth))
            return v
        if k in ("binop", "unop"):
            return BOT
        if k == "discr":
            return TOP
        return BOT

    def call_value(self, b, bb, t, depth=0):
        c = t["callee"]
        k = callee_key(c)
        m = c.get("method") or k.split("::")[-1]
        args = t["args"]
        if k.endswith("p_value::clamp_p_value"):
            return TOP
        cb = self.prog.body_for_callee(c)
        if cb is not None and cb.crate == "cbh_stats":
            return self.fn.get(cb.key, BOT)
        ftxt = c.get("full", "")
        if m in ("min", "max") and ("f64" in ftxt) and len(args) == 2:
            a = self.value(b, args[0], depth)
            x = self.value(b, args[1], depth)
            if m == "min":
                return (a[0] and x[0], a[1] or x[1])
            return (a[0] or x[0], a[1] and x[1])
        if m == "clamp" and "f64" in ftxt and len(args) == 3:
            lo = resolve_const(b, args[1])
            hi = resolve_const(b, args[2])
            return (bool(lo) and isinstance(lo.get("fval"), float) and lo["fval"] >= LO, bool(hi) and isinstance(hi.get("fval"), float) and hi["fval"] <= HI)
        if m in ("unwrap_or",) and len(args) == 2:
            return meet(self.value(b, args[0], depth), self.value(b, args[1], depth))
        if m in ("map_or",) and len(args) == 3:
            v = self.value(b, args[1], depth)
            for cl in self.uc.linked_closures(b, t):
                v = meet(v, self.fn.get(cl.key, BOT))
            return v
        if m in ("and_then", "map", "get_or_insert_with", "unwrap_or_else", "map_or_else", "fold") and args:
            cls = self.uc.linked_closures(b, t)
            if m in ("get_or_insert_with",):
                v = TOP
                for cl in cls:
                    v = meet(v, self.fn.get(cl.key, BOT))
                return v
            if m in ("and_then", "map"):
                # accessor closures (row.get(i)) propagate the receiver's elements; computing closures give their own summary
                v = self.value(b, args[0], depth)
                for cl in cls:
                    cv = self.fn.get(cl.key, BOT)
                    if self.closure_is_accessor(cl):
                        continue
                    v = cv
                return v
        if m == "collect" or m == "from_iter" or m == "into_iter" or m in ("rev", "take", "skip", "enumerate", "zip", "chain", "peekable"):
            return self.value(b, args[0], depth) if args else BOT
        if m in ("from_elem",) and args:
            return self.value(b, args[0], depth)
        if m in ACCESSORS and args:
            return self.value(b, args[0], depth)
        if m in ("to_vec", "clone", "to_owned") and args:
            return self.value(b, args[0], depth)
        self.unknown.append(f"{b.key}: {k}")
        return BOT

    def closure_is_accessor(self, cl):
        for bb, t in cl.calls():
            m = t["callee"].get("method")
            if m not in ACCESSORS:
                return False
        return True


def run(ctx):
    ctx.explanation = EXPL
    ctx.not_decided = NOT
    prog = ctx.prog("cbh_stats")
    ctx.rule("R1.sanitised-surface", "every p-value of the public surface and its carriers is bounded below by 1e-15 and above by 1 (abstract interpretation; arithmetic is unbounded until clamp_p_value)", floor=10)
    ctx.rule("R2.sanitiser", "clamp_p_value: !is_finite -> constant 1.0; else f64::clamp(p, 1e-15, 1.0)", floor=2)
    ctx.rule("R3.switch-over-agreement", "exact_mw_feasible receives the two complementary side sizes at every call site", floor=3, shape_dependent=True)

    ctx.rule("R7.float-order-is-numeric", "every sort of measured values (slices whose elements contain f64) orders them numerically: the comparator is f64::total_cmp / partial_cmp on the values, never a key made of the bit pattern (to_bits orders negative numbers backwards and after the positive ones) - ranks, medians, tie groups and the step-up order all depend on it", floor=3)
    ctx.rule("R8.tie-term-always-applied", "the tie correction handed to the normal approximation is the unconditional result of mann_whitney_tie_term for the ranked data (or the scorer's stored copy of it): no shortcut decides from the ranks that 'there are no ties'", floor=2)
    ctx.rule("R9.non-finite-guard-first", "a function that maps a non-finite statistic to 'no evidence' (an `is_finite` test of a parameter) makes that test before ANY other computation receives the parameter: a branch taken ahead of the guard (a fast path for huge degrees of freedom, say) turns an infinite statistic into the most significant p-value instead of 1", floor=2)
    ctx.rule("R10.theil-sen-every-pair", "theil_sen_line records one slope for EVERY pair i<j (the median of all pairwise slopes is the definition): no pair is filtered out between the inner loop's element and the push - an overflowing pair saturates to +-inf, which is exactly its place in the ordering", floor=1)
    ctx.rule("R5.median-needs-total-order", "median_in_place reads its (one or two) middle positions from a totally sorted slice", floor=1)
    ctx.rule("R6.step-up-scans-every-rank", "benjamini_hochberg: sort, then one scan over every ordered p-value keeps the largest passing rank; no return before the scan", floor=1)
    ctx.rule("R4.memo-independent-of-call-arguments", "a lazily filled cache (Option::get_or_insert_with / OnceCell::get_or_init on a field of self) is computed from self's state only, never from the arguments of the call that happens to fill it", floor=1)
    memo_rule(ctx, prog)
    order_statistic_rules(ctx, prog)
    float_order_and_tie_rules(ctx, prog)
    non_finite_guard_rule(ctx, prog)
    theil_sen_rule(ctx, prog)
    tie_predicate_rule(ctx, prog)

    R = Ranges(prog)
    ctx.extra["unknown_calls_in_range_analysis"] = sorted(set(R.unknown))[:20]
    for adt, fs in P_FIELDS.items():
        if adt not in prog.adts:
            ctx.missing("R1.sanitised-surface", adt)
            continue
        for f in fs:
            v = R.field[f"{adt}::{f}"]
            a = prog.adts[adt]
            ctx.ob("R1.sanitised-surface", f"field {adt.split('::')[-1]}::{f}", v == TOP, f"{a['span']['file']}:{a['span']['line']}",
                   f"over all construction sites: lower bound >= 1e-15 established: {v[0]}; upper bound <= 1 established: {v[1]}")
    for fn in P_FUNCS:
        b = prog.one(fn)
        if b is None:
            ctx.missing("R1.sanitised-surface", fn)
            continue
        ctx.fn(b)
        v = R.fn[b.key]
        ctx.ob("R1.sanitised-surface", f"fn {fn.split('::', 1)[1]}", v == TOP, b.loc(),
               f"over all return sites: lower bound >= 1e-15 established: {v[0]}; upper bound <= 1 established: {v[1]}")
    # container producers
    for fn in ("stats::exact_tail_p_values", "stats::exact_rank_sum_p_values"):
        b = prog.one(fn)
        if b is None:
            ctx.missing("R1.sanitised-surface", fn)
            continue
        ctx.fn(b)
        v = R.fn[b.key]
        ctx.ob("R1.sanitised-surface", f"elements of {fn.split('::', 1)[1]}", v == TOP, b.loc(),
               f"every element placed in the returned table: lower bound established: {v[0]}; upper bound established: {v[1]}")

    # ---------------- R2
    cp = prog.one("p_value::clamp_p_value")
    if cp is None:
        ctx.missing("R2.sanitiser", "p_value::clamp_p_value")
    else:
        ctx.fn(cp)
        fin = [(bb, t) for bb, t in cp.calls() if t["callee"].get("method") == "is_finite"]
        cl = [(bb, t) for bb, t in cp.calls() if t["callee"].get("method") == "clamp" and "f64" in t["callee"]["full"]]
        ok = len(fin) == 1 and len(cl) == 1
        det = f"is_finite sites {len(fin)}, f64::clamp sites {len(cl)}"
        if ok:
            lo = resolve_const(cp, cl[0][1]["args"][1])
            hi = resolve_const(cp, cl[0][1]["args"][2])
            ok = bool(lo) and lo.get("fval") == 1e-15 and bool(hi) and hi.get("fval") == 1.0
            src = Slice(cp, through_calls=False).run(cl[0][1]["args"][0])
            ok = ok and src["args"] == {1} and not src["binops"]
            det += f"; clamp bounds ({lo.get('fval') if lo else None}, {hi.get('fval') if hi else None}) applied to the parameter unchanged: {ok}"
            # clamp only on the finite arm; other arm returns the constant 1.0
            gs = switch_guards(cp, cl[0][0])
            fin_arm = any(g["src"].get("kind") == "call" and g["src"].get("bb") == fin[0][0] and 0 not in g["allowed"] for g in gs) or \
                any(g["src"].get("kind") == "unop" and (g["src"].get("inner") or {}).get("bb") == fin[0][0] and g["allowed"] == {0} for g in gs)
            ok = ok and fin_arm
            det += f"; clamp reached only when is_finite: {fin_arm}"
        ctx.ob("R2.sanitiser", "clamp-with-documented-bounds", ok, cp.loc(), det)
        consts = []
        for bb, path, s in return_sites(cp):
            if "rv" in s and s["rv"]["k"] == "use":
                c = resolve_const(cp, s["rv"]["op"])
                if c is not None and "fval" in c:
                    consts.append(c["fval"])
        ctx.ob("R2.sanitiser", "non-finite-maps-to-no-evidence", consts == [1.0], cp.loc(), f"constant returns of the sanitiser: {consts} (must be exactly the 'no evidence' value 1.0)")

    # ---------------- R3
    sites = who_calls(prog, "stats::exact_mw_feasible")
    n = 0
    for b, bb, t in sites:
        n += 1
        ctx.fn(b)
        a0 = Slice(b).run(t["args"][0])
        a1 = Slice(b).run(t["args"][1])
        f0 = {f.split("::")[-1] for f in a0["fields"]}
        f1 = {f.split("::")[-1] for f in a1["fields"]}
        k1 = {k.split("::")[-1] for k, _, _ in a1["calls"]}
        same_operand = op_local(t["args"][0]) is not None and _root(b, t["args"][0]) == _root(b, t["args"][1])
        complementary = ("n1" in f0 and "n2" in f1) or \
                        (bool({"saturating_sub", "checked_sub", "wrapping_sub"} & k1) or any(o.startswith("Sub") for o in a1["binops"])) and bool(a0["locals"] & a1["locals"]) or \
                        same_operand
        ctx.ob("R3.switch-over-agreement", f"{b.key.replace('cbh_stats::', '')}#{n}", complementary, b.loc(t["span"]),
               f"arguments: first from fields {sorted(f0) or '-'}, second from fields {sorted(f1) or '-'} via {sorted(k1) or '-'}; "
               f"second = (total - first), the sibling field n2, or the same half: {complementary}")


def float_order_and_tie_rules(ctx, prog):
    SORTS = ("sort_by", "sort_unstable_by", "sort_by_key", "sort_unstable_by_key", "sort_by_cached_key", "select_nth_unstable_by", "select_nth_unstable_by_key",
             "binary_search_by", "max_by", "min_by")
    n = 0
    for b in prog.bodies:
        if "::tests" in b.key or b.crate != "cbh_stats":
            continue
        for bb, t in b.calls():
            c = t["callee"]
            if c.get("method") not in SORTS or b.blocks[bb].cleanup:
                continue
            full = c.get("full", "")
            head = full.split("::" + c["method"])[0]
            if "f64" not in head and "f32" not in head:
                continue
            n += 1
            ctx.fn(b)
            names, bits = set(), False
            for ta in c.get("targs", []):
                for ck in ta.get("closures", []):
                    cb = (prog.by_key.get(strip_generics(ck)) or [None])[0]
                    if cb is not None:
                        for _b2, t2 in cb.calls():
                            names.add(t2["callee"].get("method"))
                for fd in ta.get("fndefs", []):
                    names.add(strip_generics(fd).split("::")[-1])
            for a in t["args"]:
                if a.get("k") == "const" and a.get("fndef"):
                    names.add(strip_generics(a["fndef"]).split("::")[-1])
            bits = bool(names & {"to_bits", "to_ne_bits", "to_le_bytes", "to_be_bytes", "to_ne_bytes", "transmute"})
            numeric = bool(names & {"total_cmp", "partial_cmp"})
            ok = numeric and not bits
            ctx.ob("R7.float-order-is-numeric", f"{b.key.split('::')[-1]}.{c['method']}", ok, b.loc(t["span"]),
                   f"comparator / key uses {sorted(x for x in names if x)}: numeric order {numeric}; bit-pattern key {bits}")
    if n == 0:
        ctx.missing("R7.float-order-is-numeric", "sorts over f64-valued slices in cbh_stats")
    from ..analysis import who_calls
    m = 0
    for b, bb, t in who_calls(prog, "stats::normal_mann_whitney_p"):
        if "::tests" in b.key or len(t["args"]) < 4:
            continue
        m += 1
        sl = Slice(b, through_calls=False).run(t["args"][3])
        calls = [k.split("::")[-1] for k, _b, _t in sl["calls"]]
        flds = sorted(f.split("::")[-1] for f in sl["fields"])
        ok = not sl["consts"] and (calls == ["mann_whitney_tie_term"] or (not calls and flds == ["tie_term"]))
        ctx.ob("R8.tie-term-always-applied", b.key.split("::")[-2] + "::" + b.key.split("::")[-1], ok, b.loc(t["span"]),
               f"tie term derives from calls {calls}, fields {flds}, constants {[c_.get('text') for c_ in sl['consts']]}" +
               ("" if ok else " - a constant alternative means some tied data is approximated without the tie correction (tie groups of odd size leave every doubled rank even)"))
    if m == 0:
        ctx.missing("R8.tie-term-always-applied", "calls of stats::normal_mann_whitney_p")


def non_finite_guard_rule(ctx, prog):
    n = 0
    for b in prog.bodies:
        if b.crate != "cbh_stats" or "::tests" in b.key or b.is_closure or not b.arg_count:
            continue
        guards = {}
        for bb, t in b.calls():
            if t["callee"].get("method") == "is_finite" and t["args"] and not b.blocks[bb].cleanup:
                sl = Slice(b, through_calls=False).run(t["args"][0])
                if len(sl["args"]) == 1 and not sl["calls"] and not sl["binops"]:
                    guards.setdefault(next(iter(sl["args"])), []).append(bb)
        if not guards:
            continue
        dom = b.dominators(unwind=False)
        for prm, gbbs in sorted(guards.items()):
            n += 1
            early = []
            for bb, t in b.calls():
                if bb in gbbs or b.blocks[bb].cleanup or t["callee"].get("method") in ("is_finite", "is_nan", "is_infinite"):
                    continue
                if any(prm in Slice(b, through_calls=False).run(a)["args"] for a in t["args"] if a.get("k") in ("copy", "move")):
                    if not any(g in dom[bb] for g in gbbs):
                        early.append(f"{callee_key(t['callee']).split('::')[-1]}@{b.loc(t['span'])}")
            ctx.fn(b)
            ctx.ob("R9.non-finite-guard-first", f"{b.key.split('::')[-1]}:_{prm}", not early, b.loc(),
                   f"computations that receive parameter _{prm} without the is_finite test before them: {early or 'none'}")
    if n == 0:
        ctx.missing("R9.non-finite-guard-first", "is_finite guards on parameters in cbh_stats")


def tie_predicate_rule(ctx, prog):
    b = prog.one("stats::same")
    if b is None:
        return
    ctx.fn(b)
    calls = sorted({t["callee"].get("method") for bb, t in b.calls() if not b.blocks[bb].cleanup})
    arith = sorted({st["rv"]["op"] for blk in b.blocks for st in blk.stmts if st["k"] == "assign" and st["rv"]["k"] == "binop" and
                    st["rv"]["op"] in ("Sub", "Mul", "Div", "Add", "Le", "Lt", "Ge", "Gt")})
    ok = set(calls) <= {"total_cmp", "eq", "ne", "partial_cmp", "is_eq"} and not arith
    ctx.ob("R7.float-order-is-numeric", "same.ties-are-exact", ok, b.loc(),
           f"the tie predicate uses {calls} and float arithmetic {arith or 'none'}: two values are tied iff they compare equal - a tolerance makes ties non-transitive and turns a strictly increasing map that compresses gaps into ties")


def theil_sen_rule(ctx, prog):
    b = prog.one("stats::theil_sen_line")
    if b is None:
        ctx.missing("R10.theil-sen-every-pair", "stats::theil_sen_line")
        return
    ctx.fn(b)
    pushes = [bb for bb, t in b.calls() if t["callee"].get("method") in ("push", "push_within_capacity") and "Vec" in callee_key(t["callee"]) and b.in_loop(bb)]
    ok, det = False, f"in-loop Vec::push sites {len(pushes)}"
    if len(pushes) == 1:
        pb = pushes[0]
        # the innermost loop around the push: the `next` whose Some arm reaches the push and which the push reaches back without
        # passing another such `next`
        nxts = [(bb, t) for bb, t in b.calls() if t["callee"].get("method") == "next" and b.in_loop(bb) and pb in b.successors_reach(bb, False) and bb in b.successors_reach(pb, False)]
        inner = [(bb, t) for bb, t in nxts if bb in b.reachable(b.term_succ(pb, False), unwind=False, avoid=[x for x, _ in nxts if x != bb])]
        if inner:
            nb = inner[0][0]
            dest = b.blocks[nb].term["dest"]["l"]
            some_t = []
            for blk in b.blocks:
                t = blk.term
                if t["k"] == "switch":
                    l = op_local(t["discr"])
                    d = b.unique_def(l) if l is not None else None
                    if d and d[2] == "assign" and d[3]["rv"]["k"] == "discr" and d[3]["rv"]["place"]["l"] == dest:
                        some_t = [tg for v, tg in t["arms"] if v == 1] or ([t["otherwise"]] if all(v == 0 for v, _ in t["arms"]) else [])
            if some_t:
                okp, _off = b.must_pass(some_t, [pb], [nb] + b.exits(("return",)))
                ok = okp
                det += f"; every path from an element of the inner loop back to its `next` passes the push: {okp}"
    ctx.ob("R10.theil-sen-every-pair", "theil_sen_line", ok, b.loc(), det)


def order_statistic_rules(ctx, prog):
    """Two shape clauses about order statistics: (R5) a median that reads two middle positions needs a totally ordered slice
    (a selection orders only around one index); (R6) the Benjamini-Hochberg step-up cutoff is the LARGEST passing rank, so the
    rank scan must look at every ordered p-value and nothing may decide the outcome before it."""
    from ..analysis import loop_visits_all, POSITIONAL_CUT
    SORTS = ("sort", "sort_unstable", "sort_by", "sort_unstable_by", "sort_by_key", "sort_unstable_by_key", "sort_by_cached_key", "sort_floats")
    b = prog.one("stats::median_in_place")
    if b is None:
        ctx.missing("R5.median-needs-total-order", "stats::median_in_place")
    else:
        ctx.fn(b)
        gets = [(bb, t) for bb, t in b.calls() if t["callee"].get("method") in ("get", "get_unchecked", "index") and "slice" in callee_key(t["callee"]) and not b.blocks[bb].cleanup]
        sorts = [(bb, t) for bb, t in b.calls() if t["callee"].get("method") in SORTS]
        sels = [(bb, t) for bb, t in b.calls() if (t["callee"].get("method") or "").startswith("select_nth")]
        dom = b.dominators(unwind=False)
        two = len(gets) >= 2
        ok = bool(sorts) and all(any(sb in dom[gb] for sb, _ in sorts) for gb, _ in gets)
        if not sorts and sels and not two:
            ok = True   # one selection, one position read
        ctx.ob("R5.median-needs-total-order", "median_in_place", ok, b.loc(),
               f"positions read: {len(gets)}; total sorts dominating them: {[t['callee'].get('method') for _b, t in sorts]}; selections: {[t['callee'].get('method') for _b, t in sels]}"
               + ("" if ok else " - select_nth orders the slice around ONE index only; the other middle element read is then not an order statistic"))
    bh = prog.one("stats::benjamini_hochberg")
    if bh is None:
        ctx.missing("R6.step-up-scans-every-rank", "stats::benjamini_hochberg")
        return
    ctx.fn(bh)
    sorts = [(bb, t) for bb, t in bh.calls() if t["callee"].get("method") in SORTS]
    # the scan: a loop whose body compares a p-value with a threshold (Le/Lt/Ge/Gt on floats) and assigns the rank
    scans = []
    for bb, t in bh.calls():
        if t["callee"].get("method") != "next" or not bh.in_loop(bb) or bh.blocks[bb].cleanup:
            continue
        from ..analysis import loop_blocks
        lp = loop_blocks(bh, bb)
        cmps = [st for x in lp for st in bh.blocks[x].stmts if st["k"] == "assign" and st["rv"]["k"] == "binop" and st["rv"]["op"] in ("Le", "Lt", "Ge", "Gt")
                and "f64" in bh.local_ty(op_local(st["rv"]["a"]) if op_local(st["rv"]["a"]) is not None else 0)["s"]]
        if cmps:
            scans.append((bb, t))
    # adaptor spelling: the comparison lives in a closure handed to fold / for_each over the ordered values
    ad_scan = None
    if not scans:
        from ..analysis import _closure_receiver_call, _consumed_totally, iter_chain
        for c in prog.closures_of(bh):
            cm = [st for blk in c.blocks for st in blk.stmts if st["k"] == "assign" and st["rv"]["k"] == "binop" and st["rv"]["op"] in ("Le", "Lt", "Ge", "Gt")
                  and op_local(st["rv"]["a"]) is not None and "f64" in c.local_ty(op_local(st["rv"]["a"]))["s"]]
            rc = _closure_receiver_call(prog, bh, c) if cm else None
            if rc is not None and rc[1]["callee"].get("method") in ("fold", "for_each", "map", "filter", "filter_map", "rposition", "rfind"):
                ad_scan = rc
    if ad_scan is not None:
        abb, at = ad_scan
        tot, how = _consumed_totally(bh, at)
        chain = iter_chain(bh, at["args"][0]) if at["args"] else []
        cut = sorted(set(chain) & POSITIONAL_CUT)
        from ..analysis import skips_only_via

        def _empty_exit2(u, v, src, lab):
            return src.get("kind") == "call" and src["term"]["callee"].get("method") == "is_empty" and lab != 0
        okp, _e = skips_only_via(bh, [abb], _empty_exit2)
        dom = bh.dominators(unwind=False)
        sorted_first = any(x in dom[abb] for x, _ in sorts)
        ok = tot and not cut and okp and sorted_first
        ctx.ob("R6.step-up-scans-every-rank", "benjamini_hochberg", ok, bh.loc(),
               f"adaptor form: closure handed to `{at['callee'].get('method')}` ({how}), positional cuts {cut or 'none'}; every return passes it: {okp}; runs over the sorted values: {sorted_first}")
        return
    ok = len(scans) == 1 and len(sorts) >= 1
    det = f"sorted first: {bool(sorts)}; threshold scans: {len(scans)}"
    if ok:
        sbb = scans[0][0]
        okv, dv = loop_visits_all(bh, sbb, cutters=POSITIONAL_CUT)
        from ..analysis import skips_only_via

        def _empty_exit(u, v, src, lab):
            # an early answer for an empty input decides nothing
            if src.get("kind") == "call" and src["term"]["callee"].get("method") == "is_empty":
                return lab != 0
            return False
        okp, _edges = skips_only_via(bh, [sbb], _empty_exit)
        dom = bh.dominators(unwind=False)
        sorted_first = any(x in dom[sbb] for x, _ in sorts)
        ok = okv and okp and sorted_first
        det += f"; {dv}; every return passes the scan: {okp}; the scan runs over the sorted values: {sorted_first}"
    ctx.ob("R6.step-up-scans-every-rank", "benjamini_hochberg", ok, bh.loc(), det +
           ("" if ok else " - the step-up cutoff is the largest rank that clears (k/m)q: a decision taken before or without the full scan misses a later rank that passes"))


def _root(b, op):
    l = op_local(op)
    for _ in range(6):
        d = b.unique_def(l) if l is not None else None
        if d and d[2] == "assign" and d[3]["rv"]["k"] == "use" and op_local(d[3]["rv"]["op"]) is not None:
            l = op_local(d[3]["rv"]["op"])
        else:
            break
    return l



def memo_rule(ctx, prog):
    from ..analysis import closure_capture_ops
    n = 0
    for b in prog.bodies:
        if b.is_closure or "::tests::" in b.key:
            continue
        for bb, t in b.calls():
            m = t["callee"].get("method")
            k = callee_key(t["callee"])
            if m not in ("get_or_insert_with", "get_or_init", "get_or_try_init", "get_or_insert") or not t["args"]:
                continue
            if "Entry" in k or "hash_map" in k or "btree_map" in k:
                continue   # keyed by an argument on purpose
            root, fields = op_access_path(b, t["args"][0])
            if root != 1 or not fields:
                continue   # not a cache stored in self
            n += 1
            ctx.fn(b)
            deps = set()
            for a in t["args"][1:]:
                sl = Slice(b).run(a)
                deps |= sl["args"]
                l = op_local(a)
                if l is not None:
                    for ck in b.local_ty(l).get("closures", []):
                        for cb in prog.closures_of(b):
                            if cb.key == strip_generics(ck) or strip_generics(ck).startswith(cb.key):
                                for _bb, cops in closure_capture_ops(b, cb.key):
                                    for o in cops:
                                        deps |= Slice(b).run(o)["args"]
            bad = sorted(d for d in deps if d != 1)
            ctx.ob("R4.memo-independent-of-call-arguments", f"{b.key.split('::', 1)[1]}|{fields[-1].split('::')[-1]}", not bad, b.loc(t["span"]),
                   f"cache initialiser depends on self only: {not bad}" + (f"; also on parameter(s) {[b.local_name(d) or d for d in bad]}" if bad else ""))
    if n == 0:
        ctx.missing("R4.memo-independent-of-call-arguments", "lazily filled caches in cbh_stats")

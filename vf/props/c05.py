"""C05 - one-shot event: the payload is delivered exactly once or dropped exactly once (events_once, sync)."""
from ..analysis import (path_count, Slice, switch_guards, UserCode, guard_src_place, calls_to, who_calls,
                        atomic_events, acquireish, releaseish, WAKER_FNS)
from ..evtflow import Flow, summaries_for, return_sites
from ..mir import callee_key, callee_paths, op_local, op_place, resolve_const, strip_generics, op_access_path, place_fields
from .. import facts as F

EXPL = ("Decides structural necessary conditions of C05 on MIR of events_once::core::sync: (R1) state-guards-cell typestate "
        "table: every access class of the two MaybeUninit cells (value write / read / drop, awaiter write / take / drop) "
        "sits in its one sanctioned function and under the dominating observation of the state byte that makes it "
        "defined; (R2) publish order: the value write dominates the sender's first atomic operation, the awaiter write "
        "dominates the bound->awaiting CAS; (R3) every Waker::wake is dominated by a store of a terminal state and not "
        "followed by any event access; (R4) every failure arm of the registration CAS destroys the unpublished waker; "
        "(R5) endpoint types are Send and not Sync (trait matrix); (R6) every switch on a state value handles exactly "
        "the values the protocol allows there and diverges otherwise; (R7) transition table: the set of atomic "
        "operations on the state byte, with their constant operands, is exactly the protocol's (a receiver never writes "
        "the state unconditionally); (R8) the payload is read only on paths whose last state read is acquire-ish.")
NOT = ("Not decided: the outcome / exactly-once / wake-up guarantees over all interleavings and weak-memory executions "
       "(these need a memory-model-aware exploration, a different technique).")

STATE = "sync::Event::state"
EV = "events_once::core::sync::Event::"
BOUND, SET, AWAITING, SIGNALING, DISCONNECTED = 0, 1, 2, 3, 4

# R7: function -> multiset of (op, constant operands) on the state byte
TRANSITIONS = {
    "set": [("fetch_add", (1,)), ("store", (SET,))],
    "sender_dropped_without_set": [("swap", (SIGNALING,)), ("store", (DISCONNECTED,)), ("store", (DISCONNECTED,))],
    "poll": [("load", ())],
    "poll_bound": [("compare_exchange", (BOUND, AWAITING))],
    "poll_awaiting": [("compare_exchange", (AWAITING, BOUND))],
    "poll_signaling": [("load", ())],
    "is_set": [("load", ())],
    "final_poll": [("compare_exchange", (AWAITING, BOUND)), ("load", ()), ("compare_exchange", (None, DISCONNECTED))],
}
# R6: function -> allowed handled-value sets for switches on a state value
SWITCH_TABLE = {
    "set": [{BOUND, AWAITING, DISCONNECTED}],
    "sender_dropped_without_set": [{BOUND, AWAITING, DISCONNECTED}],
    "poll": [{BOUND, SET, AWAITING, SIGNALING, DISCONNECTED}],
    "poll_bound": [{SET, SIGNALING, DISCONNECTED}],
    "poll_awaiting": [{SET, SIGNALING, DISCONNECTED}],
    "poll_signaling": [{SET, DISCONNECTED}],
    "final_poll": [{BOUND, SET, DISCONNECTED}],
}


def short(k):
    return k.replace("events_once::", "")


def cell_of(body, op):
    """'value' / 'awaiter' if the operand derives from that UnsafeCell field of the event."""
    sl = Slice(body).run(op)
    fs = {f.split("::")[-1] for f in sl["fields"] if f.startswith(EV)}
    if "value" in fs and "awaiter" not in fs:
        return "value"
    if "awaiter" in fs and "value" not in fs:
        return "awaiter"
    return None


def state_guard_values(body, bb):
    """Set of state values that can reach bb according to dominating switches whose discriminant derives from an
    atomic operation on the state byte (or a copy of its result); None if no such guard."""
    vals = None
    for g in switch_guards(body, bb):
        dl = g.get("discr_local")
        src = g["src"]
        root = None
        if src.get("kind") == "call":
            c = src["term"]["callee"]
            if "atomic::Atomic" in c.get("path", ""):
                root = "atomic"
        elif src.get("kind") in ("place",) and src.get("place"):
            # payload of Result<u8,u8> from compare_exchange: ((res as Err).0)
            pl = src["place"]
            d = body.unique_def(pl["l"])
            if d and d[2] == "call" and "atomic::Atomic" in d[3]["callee"].get("path", ""):
                root = "atomic"
        elif src.get("kind") == "local":
            # a plain local (loop-carried / phi of loads)
            sl = Slice(body, through_calls=False).run({"k": "copy", "place": {"l": src["local"], "p": []}})
            if any("atomic::Atomic" in k for k, _, _ in sl["calls"]):
                root = "atomic"
        if root is None and dl is not None:
            sl = Slice(body, through_calls=False).run({"k": "copy", "place": {"l": dl, "p": []}})
            if any("atomic::Atomic" in k for k, _, _ in sl["calls"]) and src.get("kind") not in ("discr", "cmp", "binop", "unop"):
                root = "atomic"
        if root is None:
            continue
        a = set(g["allowed"])
        if "otherwise" in a:
            continue
        vals = a if vals is None else (vals & a)
    return vals


def run(ctx):
    ctx.explanation = EXPL
    ctx.not_decided = NOT
    prog = ctx.prog("events_once")
    ctx.rule("R1.state-guards-cell", "each cell access class occurs only in its sanctioned function and under the state observation that makes it defined", floor=14)
    ctx.rule("R2.publish-order", "cell write dominates the atomic operation that publishes it", floor=2)
    ctx.rule("R3.terminal-before-wake", "Waker::wake is dominated by a store of SET/DISCONNECTED and followed by no event access", floor=2)
    ctx.rule("R4.no-leak-on-lost-race", "each failure arm of the bound->awaiting CAS passes destroy_awaiter before returning", floor=3)
    ctx.rule("R5.endpoint-exclusivity", "endpoint types: Send (payload Send), never Sync", floor=6)
    ctx.rule("R6.exhaustive-switch", "switches on a state value handle exactly the protocol's values for that point; other values diverge", floor=7)
    ctx.rule("R7.transition-table", "atomic operations on the state byte per function equal the protocol table (operation and constant operands)", floor=8)
    ctx.rule("R10.weak-cas-only-in-retry-loop", "every compare_exchange on the state byte is strong, or weak with its failure side looping back to the exchange (a spurious failure reports the expected value)", floor=4)
    ctx.rule("R11.pending-only-after-registration", "a literal Pending (None) result of the poll family is produced only on the success side of the CAS to AWAITING", floor=1)
    ctx.rule("R9.transition-on-every-path", "the sender's set / drop and the receiver's cancel perform a state transition (RMW or store) on every normal path: no exit leaves the peer waiting on a state that will never change", floor=3)
    ctx.rule("R8.acquire-before-payload-read", "every call of the payload read is reached with the last state read acquire-ish or fenced", floor=5)

    fn = {b.name: b for b in prog.bodies if b.key.startswith(EV) and not b.is_closure}
    for need in TRANSITIONS:
        if need not in fn:
            ctx.missing("R7.transition-table", f"Event::{need}")
    if "set" not in fn or "poll_bound" not in fn:
        return
    for b in fn.values():
        ctx.fn(b)

    # ---------------- R9
    for name in ("set", "sender_dropped_without_set", "final_poll"):
        b = fn.get(name)
        if b is None:
            continue
        rmw = [e["bb"] for e in atomic_events(b) if e["field"] and e["field"].endswith(STATE) and e["op"] not in ("load",)]
        pc = path_count(b, rmw)
        ctx.ob("R9.transition-on-every-path", name, bool(rmw) and pc[0] >= 1, b.loc(),
               f"state transitions (swap/CAS/store) per normal path (min,max)={pc}")

    # ---------------- R10 weak CAS only inside a retry loop
    from .c06 import failure_side
    for name, b in sorted(fn.items()):
        for e in atomic_events(b):
            if not (e["field"] and e["field"].endswith(STATE) and e["op"].startswith("compare_exchange")):
                continue
            if e["op"] == "compare_exchange":
                ctx.ob("R10.weak-cas-only-in-retry-loop", f"{name}:CAS{tuple(e['vals'])}", True, b.loc(e["term"]["span"]), "strong compare_exchange: a failure always reports a value different from the expected one")
                continue
            fs = failure_side(b, e)
            retry = e["bb"] in b.reachable(sorted(fs), unwind=False) if fs else False
            ctx.ob("R10.weak-cas-only-in-retry-loop", f"{name}:CAS_weak{tuple(e['vals'])}", retry, b.loc(e["term"]["span"]),
                   "compare_exchange_weak may fail spuriously and then reports the EXPECTED value; its failure side re-enters the exchange: "
                   f"{retry}" + ("" if retry else " - a single-shot weak exchange lets a state that `cannot happen` reach the failure arms (unreachable!/wrong outcome)"))

    # ---------------- R11 Pending only after a successful registration
    for name, b in sorted(fn.items()):
        if not name.startswith("poll") and name != "final_poll":
            continue
        rty = b.local_ty(0)["s"]
        if not rty.startswith("std::option::Option<std::result::Result<"):
            continue
        cas = [e for e in atomic_events(b) if e["op"].startswith("compare_exchange") and e["field"] and e["field"].endswith(STATE)
               and len(e["vals"]) >= 2 and e["vals"][1] == AWAITING]
        dom = b.dominators(unwind=False)
        for blk in b.blocks:
            if blk.cleanup:
                continue
            for st in blk.stmts:
                if st["k"] == "assign" and st["rv"]["k"] == "aggr" and st["rv"].get("variant") == "None" and st["place"]["l"] == 0 and not st["place"]["p"]:
                    if name == "final_poll":
                        continue  # the cancelling poll returns None for "nothing to clean up", not for Pending
                    ok = any(e["bb"] in dom[blk.idx] and blk.idx not in failure_side(b, e) and blk.idx != e["bb"] for e in cas)
                    ctx.ob("R11.pending-only-after-registration", f"{name}:None", ok, b.loc(st["span"]),
                           "a Pending (None) result is only produced on the success side of the exchange that publishes the waker (-> AWAITING): "
                           f"{ok}" + ("" if ok else " - the caller's waker is not registered on this path, so nobody will wake this task"))

    # ---------------- R7 transition table
    for name, b in sorted(fn.items()):
        evs = [e for e in atomic_events(b) if e["field"] and e["field"].endswith(STATE)]
        # loads are observations, not transitions: how often a function reads the state is not part of the protocol
        got = sorted(((e["op"].replace("_weak", ""), tuple(e["vals"])) for e in evs if e["op"] != "load"), key=str)
        want = TRANSITIONS.get(name)
        if want is not None:
            want = [w for w in want if w[0] != "load"]
        if want is None:
            if got:
                ctx.ob("R7.transition-table", f"{name}", False, b.loc(), f"function not in the protocol table performs {got} on the state byte")
            continue
        wants = sorted(want, key=str)
        ok = len(got) == len(wants)
        if ok:
            for (go, gv), (wo, wv) in zip(got, wants):
                if go != wo or len(gv) != len(wv) or any(w is not None and g != w for g, w in zip(gv, wv)):
                    ok = False
        ctx.ob("R7.transition-table", name, ok, b.loc(), f"operations on state: {got}; protocol: {wants}")
    # nobody outside Event (and the documented into_value peek) touches the state byte
    outside = []
    for b in prog.bodies:
        if b.key.startswith(EV):
            continue
        for e in atomic_events(b):
            if e["field"] and e["field"].endswith(STATE):
                outside.append((short(b.key), e["op"]))
    ok = all(op == "load" and k.endswith("ReceiverCore::into_value") for k, op in outside)
    ctx.ob("R7.transition-table", "no-outside-writer", ok, "", f"accesses to the state byte outside Event: {outside}")

    # ---------------- R1 typestate table
    # access classification by callee on a pointer/ref derived from one of the two cells
    accesses = []   # (body, bb, term, cell, kind)
    for b in prog.bodies:
        if not (b.key.startswith(EV)):
            continue
        for bb, t in b.calls():
            if b.blocks[bb].cleanup or not t["args"]:
                continue
            m = t["callee"].get("method") or ""
            k = callee_key(t["callee"])
            kind = None
            if m == "write" and ("MaybeUninit" in k or "ptr" in k):
                kind = "write"
            elif m in ("assume_init_read", "read", "assume_init", "assume_init_ref", "assume_init_mut"):
                kind = "read"
            elif m in ("assume_init_drop", "drop_in_place"):
                kind = "drop"
            if kind is None:
                continue
            cell = cell_of(b, t["args"][0])
            if cell:
                accesses.append((b, bb, t, cell, kind))
    table = {
        ("value", "write"): ("set", None),
        ("value", "read"): ("poll_set", None),
        ("value", "drop"): ("destroy_value", None),
        ("awaiter", "write"): ("poll_bound", None),
        ("awaiter", "read"): (("set", "sender_dropped_without_set"), {AWAITING}),
        ("awaiter", "drop"): ("destroy_awaiter", None),
    }
    # An accessor whose whole body is the cell access may also appear inlined at its call site (the helper was merged, made
    # generic or removed): the access is then judged by the obligation its call site carries.
    ACCESSOR = {("value", "read"): "poll_set", ("value", "drop"): "destroy_value", ("awaiter", "drop"): "destroy_awaiter"}
    inline_sites = {"poll_set": [], "destroy_value": [], "destroy_awaiter": []}
    for b, bb, t, cell, kind in accesses:
        want_fn, want_vals = table.get((cell, kind), (None, None))
        names = want_fn if isinstance(want_fn, tuple) else (want_fn,)
        acc = ACCESSOR.get((cell, kind))
        if acc and b.name not in names and not any(x.key.endswith(f"sync::Event::{acc}") for x in prog.bodies):
            inline_sites[acc].append((b, bb, t))
            continue
        ok = b.name in names
        det = f"{cell} {kind} in {b.name} (sanctioned: {names})"
        if ok and want_vals is not None:
            vals = state_guard_values(b, bb)
            ok = vals is not None and vals <= want_vals and bool(vals)
            det += f"; guarded by previous state in {sorted(vals) if vals is not None else None} (required subset of {sorted(want_vals)})"
        ctx.ob("R1.state-guards-cell", f"{cell}.{kind}@{b.name}", ok, b.loc(t["span"]), det)
    # a single-purpose accessor performs its access on EVERY path (no type- or size-dependent shortcut: a zero-sized payload
    # still has a destructor to run, an awaiter still owns a waker)
    for (cell, kind), acc in ACCESSOR.items():
        ab = fn.get(acc)
        if ab is None:
            continue
        sites = [bb for (bd, bb, t, c2, k2) in accesses if bd is ab and c2 == cell and k2 == kind]
        pc = path_count(ab, sites)
        ctx.ob("R1.state-guards-cell", f"{acc}.always-{kind}s", pc == (1, 1), ab.loc(),
               f"{acc}() {kind}s the {cell} cell exactly once on every normal path: per path {pc}" +
               ("" if pc == (1, 1) else " - a path that skips it leaks the payload / waker (never destroyed) or, for a read, returns an uninitialised value"))
    # call sites of the single-purpose accessors must be guarded
    guards = {
        "poll_set": {SET},
        "destroy_value": {DISCONNECTED},
    }
    for acc, want in guards.items():
        for b, bb, t in list(who_calls(prog, f"sync::Event::{acc}")) + inline_sites[acc]:
            vals = state_guard_values(b, bb)
            ok = vals is not None and bool(vals) and vals <= want
            ctx.ob("R1.state-guards-cell", f"{acc}<-{b.name}", ok, b.loc(t["span"]),
                   f"{acc}() called from {b.name} under observed state {sorted(vals) if vals is not None else 'UNGUARDED'} (required {sorted(want)})")
    # destroy_awaiter: receiver only, after its own CAS outcome
    destroy_awaiter_sites = list(who_calls(prog, "sync::Event::destroy_awaiter")) + inline_sites["destroy_awaiter"]
    for b, bb, t in destroy_awaiter_sites:
        ok = b.name in ("poll_bound", "poll_awaiting", "final_poll")
        det = f"destroy_awaiter() called from {b.name}"
        if ok:
            # dominated by a compare_exchange of this function and control-dependent on its result
            cas = [e for e in atomic_events(b) if e["op"].startswith("compare_exchange") and e["field"] and e["field"].endswith(STATE)]
            dom = b.dominators(unwind=False)
            first = [e for e in cas if e["bb"] in dom[bb]]
            ok = bool(first)
            if ok:
                e = first[0]
                # failure arm in poll_bound (own unpublished write); success arm (awaiting->bound) elsewhere
                f = Flow(b, STATE)
                sts = f.in_states.get(bb, set())
                ok = bool(sts) and all(s[3] is None for s in sts)   # outcome already branched on
                det += f"; after CAS{tuple(e['vals'])} whose outcome has been tested: {ok}"
        ctx.ob("R1.state-guards-cell", f"destroy_awaiter<-{b.name}", ok, b.loc(t["span"]), det)
    # poll_bound (which writes the awaiter) may only be entered with the state observed BOUND or just CAS-ed to BOUND
    for b, bb, t in who_calls(prog, "sync::Event::poll_bound"):
        if b.name == "poll":
            vals = state_guard_values(b, bb)
            ok = vals == {BOUND}
            det = f"entered from poll under observed state {sorted(vals) if vals else vals}"
        elif b.name == "poll_awaiting":
            f = Flow(b, STATE)
            e = [x for x in atomic_events(b) if x["op"].startswith("compare_exchange")]
            ok = len(e) == 1 and tuple(e[0]["vals"]) == (AWAITING, BOUND)
            # success edge: the block must not be reachable from the Err arm
            from .c06 import failure_side
            ok = ok and bb not in failure_side(b, e[0])
            det = "entered from poll_awaiting on the success arm of CAS(awaiting->bound)"
        else:
            ok = False
            det = f"entered from unexpected function {b.name}"
        ctx.ob("R1.state-guards-cell", f"poll_bound<-{b.name}", ok, b.loc(t["span"]), det)

    # ---------------- R2 publish order
    b = fn["set"]
    dom = b.dominators(unwind=False)
    wr = [(bb, t) for (bd, bb, t, cell, kind) in accesses if bd is b and cell == "value" and kind == "write"]
    evs = [e for e in atomic_events(b) if e["field"] and e["field"].endswith(STATE)]
    ok = len(wr) == 1 and bool(evs) and all(wr[0][0] in dom[e["bb"]] for e in evs)
    if ok:
        sl = Slice(b).run(wr[0][1]["args"][1])
        ok = 2 in sl["args"]
    ctx.ob("R2.publish-order", "value-write<fetch_add", ok, b.loc(), "the payload (parameter) is written to the value cell before any atomic operation on the state")
    b = fn["poll_bound"]
    dom = b.dominators(unwind=False)
    wr = [(bb, t) for (bd, bb, t, cell, kind) in accesses if bd is b and cell == "awaiter" and kind == "write"]
    evs = [e for e in atomic_events(b) if e["field"] and e["field"].endswith(STATE)]
    ok = len(wr) == 1 and bool(evs) and all(wr[0][0] in dom[e["bb"]] for e in evs)
    if ok:
        sl = Slice(b).run(wr[0][1]["args"][1])
        ok = any(ct["callee"].get("method") == "clone" and "Waker" in ct["callee"]["full"] for k, _, ct in sl["calls"]) and 2 in sl["args"]
    ctx.ob("R2.publish-order", "awaiter-write<cas", ok, b.loc(), "a clone of the caller's waker is written to the awaiter cell before the bound->awaiting CAS")

    # ---------------- R3 terminal before wake
    for name in ("set", "sender_dropped_without_set"):
        b = fn.get(name)
        if b is None:
            continue
        wakes = [(bb, t) for bb, t in b.calls() if callee_paths(t["callee"]) & WAKER_FNS and not b.blocks[bb].cleanup]
        dom = b.dominators(unwind=False)
        for bb, t in wakes:
            stores = [e for e in atomic_events(b) if e["op"] == "store" and e["field"] and e["field"].endswith(STATE) and e["bb"] in dom[bb]]
            term = [e for e in stores if e["vals"] and e["vals"][0] in (SET, DISCONNECTED)]
            ok = bool(term) and len(stores) == len(term)
            # nothing touches the event afterwards
            after = b.successors_reach(bb, unwind=False)
            later = []
            for x in after:
                tt = b.blocks[x].term
                if tt["k"] == "call":
                    for o in tt["args"]:
                        pl = op_place(o)
                        if pl is not None and b.local_ty(pl["l"])["k"] in ("ref", "refmut", "ptrmut", "ptrconst"):
                            sl = Slice(b).run(o)
                            if 1 in sl["args"] and any(fl.startswith(EV) for fl in sl["fields"]):
                                later.append(callee_key(tt["callee"]).split("::")[-1])
            ok = ok and not later
            # the waker local was moved out of the cell before the terminal store
            ctx.ob("R3.terminal-before-wake", name, ok, b.loc(t["span"]),
                   f"dominating stores to state: {[e['vals'] for e in stores]}; event accesses after the wake: {later or 'none'}")

    # ---------------- R4
    b = fn["poll_bound"]
    cas = [e for e in atomic_events(b) if e["op"].startswith("compare_exchange")]
    da = [bb for bd, bb, t in destroy_awaiter_sites if bd is b]
    if len(cas) == 1:
        from .c06 import failure_side
        fs = failure_side(b, cas[0])
        rets = return_sites(b)
        n = 0
        for bb, path, s in rets:
            if bb not in fs:
                continue
            n += 1
            # every path from the CAS to this return (within the failure side) passes destroy_awaiter
            okp, off = b.must_pass(b.term_succ(cas[0]["bb"], False), da, [bb])
            vals = state_guard_values(b, bb)
            ctx.ob("R4.no-leak-on-lost-race", f"poll_bound|arm:{sorted(vals) if vals else '?'}", okp, b.loc(s.get("span")),
                   f"failure arm returning {path[:2]} passes destroy_awaiter: {okp}")
        if n == 0:
            ctx.missing("R4.no-leak-on-lost-race", "failure arms of the registration CAS")
    else:
        ctx.missing("R4.no-leak-on-lost-race", "single compare_exchange in poll_bound")

    # ---------------- R6 exhaustive switches
    for name, allowed_sets in SWITCH_TABLE.items():
        b = fn.get(name)
        if b is None:
            continue
        found = 0
        for blk in b.blocks:
            t = blk.term
            if t["k"] != "switch" or blk.cleanup:
                continue
            dl = op_local(t["discr"])
            dpl = op_place(t["discr"])
            if dpl is None:
                continue
            if dl is not None:
                if b.local_ty(dl)["s"] != "u8":
                    continue
            else:
                # payload of the Result<u8,u8> returned by compare_exchange
                if b.local_ty(dpl["l"])["s"] != "std::result::Result<u8, u8>":
                    continue
            sl = Slice(b, through_calls=False).run(t["discr"])
            if not any("atomic::Atomic" in k for k, _, _ in sl["calls"]):
                continue
            listed = {a[0] for a in t["arms"]}
            if len(listed) < 2:
                continue   # `state != SIGNALING` style tests are comparisons, handled elsewhere
            found += 1
            # otherwise arm must diverge
            r = b.reachable([t["otherwise"]], unwind=False)
            div = not (set(b.exits(("return",))) & r)
            ok = listed in allowed_sets and div
            ctx.ob("R6.exhaustive-switch", f"{name}|{sorted(listed)}", ok, b.loc(t["span"]),
                   f"handled values {sorted(listed)} (protocol: {[sorted(s) for s in allowed_sets]}); default arm diverges: {div}")
        if found == 0:
            ctx.ob("R6.exhaustive-switch", f"{name}|none", False, b.loc(), "no switch on the observed state found")

    # ---------------- R8
    summ = summaries_for(list(fn.values()), STATE)
    for b, bb, t in who_calls(prog, "sync::Event::poll_set"):
        f = Flow(b, STATE, summ)
        a = f.acq_at_entry(bb)
        ctx.ob("R8.acquire-before-payload-read", f"poll_set<-{b.name}", a == "A", b.loc(t["span"]),
               f"payload read reached with last state read {'acquire-ish/fenced' if a == 'A' else 'NOT acquire-ish'}"
               + (" (the helper's caller establishes it)" if False else ""))

    # ---------------- R5 trait matrix
    pf = F.probe_facts("events_once_probe", ["events_once"], repo=ctx.repo, log=ctx.log)
    rows = {p["id"]: p for p in pf["probes"]}
    for pid, r in sorted(rows.items()):
        kind, payload = pid.split("|")[0], pid.split("|")[-1]
        if kind == "control":
            continue
        psend = payload in ("SS", "SnS")
        if kind == "sync":
            ok = (r["Send"] == psend or (not psend and not r["Send"])) and not r["Sync"]
            if psend:
                ok = ok and r["Send"]
            ctx.ob("R5.endpoint-exclusivity", pid, ok, r["ty"], f"Send={r['Send']} Sync={r['Sync']} Clone={r['Clone']} (payload Send={psend})")
        elif kind == "local":
            ctx.ob("R5.endpoint-exclusivity", pid, not r["Send"] and not r["Sync"], r["ty"], f"Send={r['Send']} Sync={r['Sync']}")
        if kind in ("sync", "local"):
            ctx.ob("R5.endpoint-exclusivity", pid + "|not-clone", not r["Clone"] and not r["Copy"], r["ty"], f"Clone={r['Clone']} Copy={r['Copy']} (an endpoint cannot be duplicated)")

    # ---------------- rules shared with C06 (anchored in the same functions of core/sync.rs)
    ctx.import_rules("C06", {
        "R7.grant-only-on-terminal": "an endpoint that takes ownership of the event without having observed a terminal state races the other endpoint for the payload: delivered twice or dropped while being read",
        "R3.no-access-after-handover": "after the hand-over the other endpoint may free the storage; a later access reads a freed payload / waker",
        "R6.sibling-agreement": "set() and the sender's drop are the two ways the sender leaves; a step present in one and missing in the other loses the wake-up or the payload on that path",
        "R4.release-discipline": "a receiver that goes away without final_poll (or without releasing after a terminal outcome) leaves a sent payload undelivered AND undestroyed",
        "R1.acquire-before-release": "every arm on which the receiver goes on to release the event (value taken OR sender disconnected) must have acquired the sender's accesses: the disconnect arm too reads/frees cells the sender touched",
    })

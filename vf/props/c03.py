"""C03 - thread-safe pools: the 'safe programs' half (auto-trait matrix) and structure (infinity_pool)."""
from ..analysis import who_calls, calls_to
from ..mir import callee_key
from .. import facts as F

EXPL = ("Decides, with rustc's trait solver as the decision procedure, the 'safe code can never reach one payload from "
        "two threads unless the payload permits sharing, nor move it unless it permits sending' clause of C03: for every "
        "public handle type x payload class (Send/Sync present or absent, unit-erased, trait objects) the probe crate's "
        "instantiations are answered with Send/Sync/Clone/Deref/DerefMut facts and checked against a soundness rule "
        "(R1), not a frozen table. Also: (R2) census of every `unsafe impl Send/Sync` with its where-clauses against a "
        "justified table; (R3) storage is kept alive by type: every managed handle (transitively) owns an "
        "Arc<Mutex<..pool..>>, every local one an Rc<RefCell<..>>, and every safe insertion API of the thread-safe pools "
        "requires T: Send; (R4) single removal authority for the managed family. The rows violating R1 on the pinned "
        "tree are a genuine, reproduced defect (one root cause: `unsafe impl<T: ?Sized> Sync for SlabHandle<T>`), listed "
        "as known findings.")
NOT = "Not decided: exactly-once destruction and quiescent len under all interleavings of reference-count decrements."

PAYLOAD = {  # class -> (Send, Sync) of the concrete payload behind the handle, worst case
    "SS": (True, True), "SnS": (True, False), "NSs": (False, True), "NN": (False, False),
    # erased: the concrete payload was inserted under `T: Send`; nothing is known about Sync, but there is no access
    "unit": (True, None),
    # trait objects are produced by casting a handle whose payload was inserted under `T: Send`;
    # sharing is permitted only if the object type says so
    "DynPlain": (True, False), "DynSend": (True, False), "DynSS": (True, True),
}
MANAGED = ("Pooled", "PooledMut", "BlindPooled", "BlindPooledMut")
LOCAL = ("LocalPooled", "LocalPooledMut", "LocalBlindPooled", "LocalBlindPooledMut")
RAW = ("RawPooled", "RawPooledMut", "RawBlindPooled", "RawBlindPooledMut")
REACHABLE = ("SS", "SnS", "unit", "DynPlain", "DynSend", "DynSS")  # payload classes that can sit in a thread-safe pool in safe code

UNSAFE_IMPL_TABLE = {
    # (trait, self type) -> (allowed where-clauses beyond Sized, justification)
        ("std::marker::Sync", "infinity_pool::handles::managed::Remover"): ((), "type-erased handle, never touches the payload"),
    ("std::marker::Sync", "infinity_pool::pinned::pool_managed::PinnedPool<T>"): (("T: std::marker::Send",), "all access under the mutex; payloads only need Send"),
    ("std::marker::Send", "infinity_pool::pinned::pool_raw::RawPinnedPool<T>"): (("T: std::marker::Send",), "owns the payloads"),
    ("std::marker::Sync", "infinity_pool::pinned::pool_raw::RawPinnedPool<T>"): ((), "&self API exposes no payload access without unsafe"),
    ("std::marker::Send", "infinity_pool::opaque::slab_handle::SlabHandle<T>"): (("T: std::marker::Send",), "handle may be used to move/drop the payload elsewhere"),
    ("std::marker::Sync", "infinity_pool::opaque::slab_handle::SlabHandle<T>"): ((), "ROOT CAUSE of the R1 findings: no T: Sync bound (kept in the table as it is on the pinned tree; R1 reports its consequences)"),
    ("std::marker::Send", "infinity_pool::opaque::pool_raw_thread_safe::RawOpaquePoolThreadSafe"): ((), "constructor is unsafe: caller promises only Send payloads"),
    ("std::marker::Sync", "infinity_pool::opaque::pool_raw_thread_safe::RawOpaquePoolThreadSafe"): ((), "only reachable behind a Mutex"),
}


def run(ctx):
    ctx.explanation = EXPL
    ctx.not_decided = NOT
    prog = ctx.prog("infinity_pool")
    ctx.rule("R1.matrix", "soundness rule over the trait matrix: (a) H:Deref & H<P>:Sync => P:Sync; (b) H<P>:Send => P:Send; (c) H:Clone+Deref & H<P>:Send => P:Sync; (d) H:Clone & H<P>:Sync => P:Send; (e) Local* handles/pools are never Send/Sync; (f) managed H<Send+Sync> and the thread-safe pools are Send+Sync; raw handles: only (b)", floor=100)
    ctx.rule("R1.typestate", "only *PooledMut handles implement DerefMut; none of them is Clone; shared handles have no DerefMut", floor=24)
    ctx.rule("R1.controls", "positive controls: the driver's answers for plain std types match the language rules", floor=5)
    ctx.rule("R2.unsafe-impl-census", "every unsafe impl of Send/Sync is in the justified table with exactly the listed where-clauses", floor=8)
    ctx.rule("R3.storage-by-type", "managed handles own Arc<Mutex<pool>> (directly or through their Remover), local ones Rc<RefCell<pool>>; safe insertion APIs of thread-safe pools require T: Send; RawOpaquePoolThreadSafe::new is unsafe", floor=12)
    ctx.rule("R5.last-drop-destroys", "the Drop of every managed unique handle / managed Remover takes the pool lock unconditionally (blocking `lock`) and reaches the removal on every normal path", floor=4)
    ctx.rule("R6.one-critical-section-per-decision", "in the thread-safe pools no decision taken under one acquisition of the pool mutex guards an action under a later acquisition (check-then-act: the pool may change in between)", floor=25)
    ctx.rule("R7.shrink-keeps-live", "shrink_to_fit only drops trailing EMPTY slabs: a non-empty slab dropped destroys objects before their last handle is dropped (same rule as C01.R3 / C02.R9)", floor=1, shape_dependent=True)
    ctx.rule("R8.counts-are-not-positions", "no slab index, scan bound or iterator cursor derives from an object count (same rule as C02.R12): a live object above a hole would be skipped or dropped early", floor=10)
    ctx.rule("R4.single-remover", "RawOpaquePoolThreadSafe::remove/remove_unpin are called only from the managed unique handles' Drop/into_inner and the managed Removers' Drop", floor=6)

    pf = F.probe_facts("infinity_pool_probe", ["infinity_pool"], repo=ctx.repo, log=ctx.log)
    rows = {p["id"]: p for p in pf["probes"]}
    ctx.extra["probe_rows"] = len(rows)

    # controls
    for cid, (snd, syn) in (("control|SS", (True, True)), ("control|SnS", (True, False)), ("control|NSs", (False, True)),
                            ("control|NN", (False, False)), ("control|DynSend", (True, False))):
        r = rows.get(cid)
        if r is None:
            ctx.missing("R1.controls", cid)
            continue
        ctx.ob("R1.controls", cid, r["Send"] == snd and r["Sync"] == syn, "probes/infinity_pool_probe/src/lib.rs",
               f"{r['ty']}: Send={r['Send']} Sync={r['Sync']} (expected {snd}/{syn})")

    def row(h, p):
        return rows.get(f"{h}|{p}")

    for h in MANAGED + LOCAL + RAW:
        for p, (psend, psync) in PAYLOAD.items():
            r = row(h, p)
            if r is None:
                ctx.missing("R1.matrix", f"{h}|{p}")
                continue
            where = f"{r['ty']}"
            facts = f"Send={r['Send']} Sync={r['Sync']} Clone={r['Clone']} Deref={r['Deref']} DerefMut={r['DerefMut']}"
            if h in LOCAL:
                ctx.ob("R1.matrix", f"{h}|{p}|local-confined", not r["Send"] and not r["Sync"], where, facts)
                continue
            armed = p in REACHABLE or h in RAW
            if h in RAW:
                ok = (not r["Send"]) or psend
                if p in ("NSs", "NN"):
                    ctx.ob("R1.matrix", f"{h}|{p}|b-send", ok, where, facts + f"; payload Send={psend}")
                else:
                    ctx.ob("R1.matrix", f"{h}|{p}|b-send", ok, where, facts + f"; payload Send={psend}")
                continue
            if not armed:
                # reported, not armed: !Send payloads cannot reach a thread-safe pool in safe code (R3 checks T: Send)
                ctx.samples.append({"rule": "R1.matrix", "instance": f"{h}|{p}|unarmed", "where": where, "established": facts})
                continue
            deref_access = r["Deref"] and p != "unit"
            # (a)
            if deref_access:
                ctx.ob("R1.matrix", f"{h}|{p}|a-sync-needs-payload-sync", (not r["Sync"]) or bool(psync), where,
                       facts + f"; payload Sync={psync}: two threads holding &{h} both get &payload")
            # (b)
            ctx.ob("R1.matrix", f"{h}|{p}|b-send-needs-payload-send", (not r["Send"]) or psend, where, facts + f"; payload Send={psend}")
            # (c)
            if r["Clone"] and deref_access:
                ctx.ob("R1.matrix", f"{h}|{p}|c-clone-send-needs-payload-sync", (not r["Send"]) or bool(psync), where,
                       facts + f"; payload Sync={psync}: a clone sent to another thread shares the payload")
            # (d)
            if r["Clone"]:
                ctx.ob("R1.matrix", f"{h}|{p}|d-clone-sync-needs-payload-send", (not r["Sync"]) or psend, where, facts + f"; payload Send={psend}")
            # (f)
            if p == "SS":
                ctx.ob("R1.matrix", f"{h}|SS|f-usable-across-threads", r["Send"] and r["Sync"], where, facts)
        # typestate
        for p in PAYLOAD:
            r = row(h, p)
            if r is None:
                continue
            is_mut = h.endswith("Mut")
            if h in RAW:
                ctx.ob("R1.typestate", f"{h}|{p}", (not r["DerefMut"]) and (not r["Deref"]) and (r["Clone"] != is_mut), r["ty"],
                       f"raw handle: Deref={r['Deref']} DerefMut={r['DerefMut']} Clone={r['Clone']}")
            else:
                ok = (not r["Clone"]) if is_mut else (not r["DerefMut"])
                ctx.ob("R1.typestate", f"{h}|{p}", ok, r["ty"],
                       f"Clone={r['Clone']} DerefMut={r['DerefMut']} (unique handles are not Clone; shared handles never give &mut)")
    for pid, want in (("pool|OpaquePool", True), ("pool|BlindPool", True), ("pool|PinnedPool|SS", True), ("pool|PinnedPool|SnS", True),
                      ("pool|LocalOpaquePool", False), ("pool|LocalBlindPool", False), ("pool|LocalPinnedPool|SS", False)):
        r = rows.get(pid)
        if r is None:
            ctx.missing("R1.matrix", pid)
            continue
        ok = (r["Send"] and r["Sync"]) if want else (not r["Send"] and not r["Sync"])
        ctx.ob("R1.matrix", pid + ("|f-thread-safe" if want else "|e-local-confined"), ok, r["ty"], f"Send={r['Send']} Sync={r['Sync']}")
    for pid, psend in (("pool|RawPinnedPool|SS", True), ("pool|RawPinnedPool|SnS", True), ("pool|RawPinnedPool|NSs", False), ("pool|RawPinnedPool|NN", False)):
        r = rows.get(pid)
        if r is None:
            ctx.missing("R1.matrix", pid)
            continue
        ctx.ob("R1.matrix", pid + "|b-send", (not r["Send"]) or psend, r["ty"], f"Send={r['Send']}; payload Send={psend}")

    # ---------------- R2
    seen = set()
    for im in prog.impls:
        if not im.get("unsafe") or im.get("trait") not in ("std::marker::Send", "std::marker::Sync"):
            continue
        key = (im["trait"], im["self"])
        seen.add(key)
        preds = tuple(sorted(p for p in im["preds"] if not p.endswith(": std::marker::Sized") and not p.endswith(": std::marker::MetaSized")))
        ent = UNSAFE_IMPL_TABLE.get(key)
        where = f"{im['span']['file']}:{im['span']['line']}"
        if ent is None:
            ctx.ob("R2.unsafe-impl-census", f"{im['trait'].split('::')[-1]} for {im['self']}", False, where,
                   f"unsafe impl not in the justified table (where-clauses {preds})")
        else:
            ctx.ob("R2.unsafe-impl-census", f"{im['trait'].split('::')[-1]} for {im['self']}", preds == tuple(sorted(ent[0])), where,
                   f"where-clauses {preds} (table: {ent[0]}; {ent[1]})")
    for key in UNSAFE_IMPL_TABLE:
        if key not in seen:
            # a removed impl is fine for soundness; rule (f) guards usability. Informational only.
            ctx.notes.append(f"table entry no longer present: {key}")

    # ---------------- R3
    def owns(adt_path, needle, depth=4, seen=None):
        seen = seen or set()
        if adt_path in seen or depth == 0:
            return False
        seen.add(adt_path)
        adt = prog.adts.get(adt_path)
        if not adt:
            return False
        for v in adt["variants"]:
            for f in v["fields"]:
                s = f["ty"]["s"]
                if all(n in s for n in needle) and not s.startswith("&") and not s.startswith("*"):
                    return True
                for a in f["ty"].get("owned", []):
                    if a.startswith("infinity_pool::") and owns(a, needle, depth - 1, seen):
                        return True
        return False

    for h, mod in (("Pooled", "managed"), ("PooledMut", "managed_mut"), ("BlindPooled", "blind_managed"), ("BlindPooledMut", "blind_managed_mut")):
        p = f"infinity_pool::handles::{mod}::{h}"
        ok = owns(p, ("std::sync::Arc<", "Mutex<"))
        ctx.ob("R3.storage-by-type", f"{h}.owns-Arc<Mutex>", ok, p, "handle (transitively) owns an Arc<..Mutex<pool storage>..>")
    for h, mod in (("LocalPooled", "local"), ("LocalPooledMut", "local_mut"), ("LocalBlindPooled", "blind_local"), ("LocalBlindPooledMut", "blind_local_mut")):
        p = f"infinity_pool::handles::{mod}::{h}"
        ok = owns(p, ("std::rc::Rc<", "RefCell<"))
        ctx.ob("R3.storage-by-type", f"{h}.owns-Rc<RefCell>", ok, p, "handle (transitively) owns an Rc<..RefCell<pool storage>..>")
    ts_new = prog.fns.get("infinity_pool::opaque::pool_raw_thread_safe::RawOpaquePoolThreadSafe::new")
    ctx.ob("R3.storage-by-type", "RawOpaquePoolThreadSafe::new.unsafe", bool(ts_new and ts_new["unsafe"]), "", "constructor of the Send+Sync raw wrapper is an unsafe fn")
    for path, f in prog.fns.items():
        name = path.split("::")[-1]
        if name.startswith("insert") and (path.startswith("infinity_pool::opaque::pool_managed::OpaquePool::") or
                                          path.startswith("infinity_pool::blind::pool_managed::BlindPool::")):
            if "Public" not in f["vis"]:
                continue
            ok = any(p.endswith(": std::marker::Send") and not p.startswith("F") for p in f["preds"])
            ctx.ob("R3.storage-by-type", f"{path.split('::')[-2]}::{name}.requires-Send", ok, f"{f['span']['file']}:{f['span']['line']}",
                   f"where-clauses: {[p for p in f['preds'] if 'Sized' not in p]}")
    pp = prog.adts.get("infinity_pool::pinned::pool_managed::PinnedPool")
    # struct-level bound is visible in impls' predicates
    ok = any(im.get("self", "").startswith("infinity_pool::pinned::pool_managed::PinnedPool<T>") and "T: std::marker::Send" in im["preds"] for im in prog.impls)
    ctx.ob("R3.storage-by-type", "PinnedPool<T>.requires-Send", ok and pp is not None, "", "PinnedPool's impls carry T: Send (struct-level bound)")

    # ---------------- R4
    ALLOWED = {
        "<infinity_pool::handles::managed_mut::PooledMut<T> as std::ops::Drop>::drop",
        "infinity_pool::handles::managed_mut::PooledMut::into_inner",
        "<infinity_pool::handles::managed::Remover as std::ops::Drop>::drop",
        "<infinity_pool::handles::blind_managed_mut::BlindPooledMut<T> as std::ops::Drop>::drop",
        "infinity_pool::handles::blind_managed_mut::BlindPooledMut::into_inner",
        "<infinity_pool::handles::blind_managed::Remover as std::ops::Drop>::drop",
    }
    seen_i = set()
    from ..analysis import Slice
    for b, bb, t in who_calls(prog, "opaque::pool_raw::RawOpaquePool::remove", "opaque::pool_raw::RawOpaquePool::remove_unpin"):
        sl = Slice(b).run(t["args"][0])
        if not any(k.endswith("Mutex::lock") for k, _, _ in sl["calls"]):
            continue   # not a removal from a mutex-protected (thread-safe) pool
        inst = f"{b.key}->{callee_key(t['callee']).split('::')[-1]}"
        if inst in seen_i:
            continue
        seen_i.add(inst)
        ctx.fn(b)
        ctx.ob("R4.single-remover", inst, b.key in ALLOWED, b.loc(t["span"]),
               "caller is a managed unique handle's Drop/into_inner or a managed Remover's Drop" if b.key in ALLOWED else
               "another function removes objects from a thread-safe pool: with reference-counted handles this is a second remover")

    # ---------------- R5: drop of the last handle always destroys (no try_lock / early return)
    from ..analysis import path_count
    for key in sorted(k for k in ALLOWED if k.endswith("::drop")):
        cands = [b for b in prog.bodies if b.key == key]
        if not cands:
            ctx.missing("R5.last-drop-destroys", key)
            continue
        b = cands[0]
        ctx.fn(b)
        rem = [(bb, t) for bb, t in b.calls() if callee_key(t["callee"]).split("::")[-1] in ("remove", "remove_unpin", "remove_unchecked")
               and "pool" in callee_key(t["callee"]).lower()]
        locks = [(bb, t) for bb, t in b.calls() if t["callee"].get("method") in ("lock", "try_lock", "get_mut", "into_inner", "is_poisoned")
                 and callee_key(t["callee"]).rsplit("::", 1)[0].endswith("Mutex")]
        lock_names = sorted({t["callee"].get("method") for _bb, t in locks})
        pc = path_count(b, [bb for bb, _ in rem])
        ok = pc == (1, 1) and lock_names == ["lock"]
        ctx.ob("R5.last-drop-destroys", key.split("::handles::")[-1], ok, b.loc(),
               f"removal calls per normal path (min,max)={pc}; mutex methods used: {lock_names} (need exactly the blocking `lock`)")

    # ---------------- R6: check-then-act across two acquisitions of the pool mutex
    from ..analysis import LockSections

    def is_lock(t):
        return t["callee"].get("method") in ("lock", "try_lock") and callee_key(t["callee"]).rsplit("::", 1)[0].endswith("Mutex")

    ls = LockSections(prog, is_lock)
    for b in prog.bodies:
        if b.is_closure or not ls.locks(b):
            continue
        ctx.fn(b)
        pairs, sites = ls.check_then_act(b)
        det = f"{len(sites)} critical-section site(s)"
        if pairs:
            bb1, t1, bb2, t2, gbb = pairs[0]
            det += (f"; the result of `{callee_key(t1['callee']).split('::')[-1]}` (one acquisition, line {t1['span']['line']}) decides at line "
                    f"{b.blocks[gbb].term.get('span', {}).get('line', '?')} whether `{callee_key(t2['callee']).split('::')[-1]}` (another acquisition, line {t2['span']['line']}) runs: "
                    f"another thread can change the pool between the two")
        ctx.ob("R6.one-critical-section-per-decision", b.key.replace("infinity_pool::", ""), not pairs, b.loc(), det)

    # ---------------- R7 (= C01.R3): objects are not destroyed before their last handle is dropped
    from .c01 import shrink_rule
    shrink_rule(ctx, prog, "R7.shrink-keeps-live")
    from .c02 import counts_are_not_positions
    counts_are_not_positions(ctx, prog, "R8.counts-are-not-positions")

    # ---------------- rules shared with the sibling properties anchored in the same functions
    ctx.import_rules("C04", {
        "R5.containment": "a guard still live when a user panic is re-raised poisons the pool mutex; the drop of the last handle then panics instead of removing the object",
    })
    ctx.import_rules("C02", {
        "R2.remove-drops-once": "the thread-safe pools remove through the same Slab::remove",
        "R3.double-remove-guard": "same",
        "R4.pool-length": "quiescent len() is this counter",
        "R7.removal-authority": "a second remover destroys an object while other handles exist",
        "R14.free-list-head": "a corrupted free list places a new object over a live one (or outside the slab) in the thread-safe pools too",
        "R5.vacancy": "the vacancy tracker is told a slab is full exactly when the slab says so: a tracker that still advertises a full slab sends the next insert of a thread-safe pool one slot past the slab's allocation",
    })
    ctx.import_rules("C01", {
        "R10.checked-entry-points-check": "the checked insertion of the thread-safe pools is what makes a wrong-layout insert a panic instead of two live objects sharing memory",
        "R11.twin-agreement": "same: the checked entry point must differ from its unchecked twin by the verification only",
        "R4.handle-provenance": "a handle whose slab/slot coordinates are not those of its object makes the last drop destroy a different, still referenced object",
        "R12.prefault-only-on-fresh-memory": "reserve() of the thread-safe pools creates slabs through the same constructor: storage wiped after construction is invalid for every later insert",
    })

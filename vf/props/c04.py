"""C04 - pools stay usable and consistent when user code they run panics or re-enters (infinity_pool)."""
from ..analysis import (path_count, Slice, switch_guards, UserCode, guard_src_place, field_assigns, calls_to,
                        who_calls, GuardLiveness, guard_target, CATCH_UNWIND)
from ..mir import callee_key, callee_paths, op_local, op_place, resolve_const, strip_generics, op_access_path, place_fields

EXPL = ("Decides the repository's own callback-safety rule (docs/callback-safety.md rule 1, NEVER_POISONED) on MIR of "
        "infinity_pool, over every function: (R1) no user code (payload destructor via the type-erased dropper, user "
        "closure, generic/dyn dispatch) runs at a program point where a guard on pool state (MutexGuard / RefMut / Ref) "
        "is live - otherwise a destructor or closure that touches the same pool self-deadlocks or hits BorrowMutError; "
        "(R2) no user code that is not inside catch_unwind runs while a MutexGuard is live - otherwise an escaping panic "
        "poisons the mutex and every later operation panics; (R3) no pool/slab operation performs persistent writes "
        "both before and after a may-unwind user-code point; (R4) Slab::remove finishes all its bookkeeping before it "
        "destroys the payload and does nothing afterwards; (R5) where containment is promised (thread-safe insert_with* "
        "/ with_iter) the closure is only reachable inside catch_unwind and the guard is no longer live when the "
        "panic is re-raised. Violations that exist on the pinned tree are genuine, reproduced defects listed in "
        "known_findings.jsonl; any new site is reported.")
NOT = "Not decided: that the pool 'still works' after every fault sequence (behaviour), only the structural preconditions."

BENIGN_SITES = [
    # write-back on the double-remove arm: the value dropped is the Vacant tag written by mem::replace 3 statements earlier
    ("infinity_pool::opaque::slab::Slab::remove", "drop *infinity_pool::opaque::slot_meta::SlotMeta"),
    ("infinity_pool::opaque::slab::Slab::remove_unpin", "drop *infinity_pool::opaque::slot_meta::SlotMeta"),
]
# R3 exception table: callee whose writes before the user initialiser are a complete, self-consistent transition
R3_BEFORE_OK = {"infinity_pool::opaque::pool_raw::RawOpaquePool::index_of_slab_to_insert_into",
                "infinity_pool::opaque::pool_raw::RawOpaquePool::allocate_slab_for_insert"}


def short(k):
    return k.replace("infinity_pool::", "")


def persistent_write_stmts(body):
    """Assignments through a reference/pointer (place starts with a deref) - i.e. to memory that outlives the call."""
    out = []
    for blk in body.blocks:
        if blk.cleanup:
            continue
        for i, s in enumerate(blk.stmts):
            if s["k"] == "assign" and s["place"]["p"] and s["place"]["p"][0] == "*":
                out.append((blk.idx, i, s))
    return out


def run(ctx):
    ctx.explanation = EXPL
    ctx.not_decided = NOT
    prog = ctx.prog("infinity_pool")
    uc = UserCode(prog, benign_sites=BENIGN_SITES)
    ctx.rule("R1.reentry", "no user-code point while a pool guard (MutexGuard/RefMut/Ref) is live", floor=20)
    ctx.rule("R2.poison", "no user-code point outside catch_unwind while a MutexGuard is live", floor=8)
    ctx.rule("R3.split-update", "no persistent writes both before and after an uncontained user-code point inside one pool/slab operation", floor=4)
    ctx.rule("R3.before-ok-premise", "the callees whose writes before the user initialiser are excused (R3 exception table) leave the pool self-consistent: every slab-vector change is followed in the same function by update_slab_count(slabs.len())", floor=1)
    ctx.rule("R6.refcell-guarded-access", "the single-threaded pools reach their RefCell-protected state only through borrow()/borrow_mut() guards: an unguarded view held across user code lets a re-entrant mutation go undetected", floor=10)
    ctx.rule("R4.restore-before-destroy", "Slab::remove: tag, free-list and count writes dominate the payload destruction; nothing persistent follows it", floor=2)
    ctx.rule("R5.containment", "thread-safe insert_with*/with_iter: closure only reachable through catch_unwind; no pool guard live at resume_unwind", floor=7)

    # ---------------- R1 / R2: sweep every body
    n_bodies = 0
    for b in prog.bodies:
        gl = GuardLiveness(b)
        if not gl.guard_locals:
            continue
        n_bodies += 1
        ctx.fn(b)
        for blk in b.blocks:
            if blk.cleanup:
                continue
            live = gl.live_at_term(blk.idx)
            if not live:
                continue
            s = uc.site(b, blk.idx)
            t = blk.term
            if t["k"] not in ("call", "drop", "tailcall"):
                continue
            kinds = sorted({gl.guard_locals[l] for l in live})
            tgt = sorted({short(guard_target(b.local_ty(l)["s"])) for l in live})
            if s is None:
                # a discharged obligation: a call/drop under a live guard that runs no user code
                if t["k"] == "call":
                    ctx.ob("R1.reentry", f"{short(b.key)}|{'+'.join(kinds)}|{short(callee_key(t['callee']))}", True, b.loc(t["span"]),
                           "no user code reachable from this call while the guard is live")
                continue
            inst = f"{short(b.key)}|{'+'.join(kinds)}|{s['kind']}"
            det = (f"{s['kind']} ({short(s['what'])}) runs while {kinds} on {tgt} is live; a callback that touches the same pool "
                   f"{'self-deadlocks (Mutex)' if 'MutexGuard' in kinds else 'panics with BorrowMutError on re-entrant mutation (RefCell)'}"
                   + (f"; chain: {short(s['chain'])}" if s.get("chain") else ""))
            ctx.ob("R1.reentry", inst, False, b.loc(t["span"]), det)
            if "MutexGuard" in kinds:
                ctx.ob("R2.poison", inst, s["contained"], b.loc(t["span"]),
                       "user code is confined to catch_unwind while the MutexGuard is live" if s["contained"] else
                       f"{s['kind']} ({short(s['what'])}) can unwind while the MutexGuard on {tgt} is live: the mutex is poisoned and every later "
                       f"operation panics in expect(NEVER_POISONED)")
    ctx.extra["bodies_with_guards"] = n_bodies

    # ---------------- R3 split update (opaque::{pool_raw, slab, vacancy_*})
    scope = [b for b in prog.bodies if b.key.startswith("infinity_pool::opaque::pool_raw::RawOpaquePool::")
             or b.key.startswith("infinity_pool::opaque::slab::Slab::")
             or b.key.startswith("infinity_pool::blind::pool_raw::RawBlindPool::")
             or b.key.startswith("infinity_pool::pinned::pool_raw::RawPinnedPool::")
             or b.key.startswith("infinity_pool::opaque::pool_raw_thread_safe::RawOpaquePoolThreadSafe::")]
    scope = [b for b in scope if not b.is_closure]
    # writes summary: function (transitively) performs a persistent write
    writes = {}
    for b in prog.bodies:
        if persistent_write_stmts(b):
            writes[b.key] = True
    wcalls = ("std::mem::replace", "core::mem::replace", "std::ptr::write", "core::ptr::write", "std::mem::swap", "core::mem::swap")
    changed = True
    while changed:
        changed = False
        for b in prog.bodies:
            if b.key in writes:
                continue
            for bb, t in b.calls():
                if b.blocks[bb].cleanup:
                    continue
                k = callee_key(t["callee"])
                cb = prog.body_for_callee(t["callee"])
                if (cb is not None and cb.key in writes) or k in wcalls or \
                        (k.startswith("std::vec::Vec") and k.split("::")[-1] in ("push", "truncate", "extend", "pop", "clear", "resize")):
                    writes[b.key] = True
                    changed = True
                    break

    def write_blocks(b, skip_callees=()):
        out = set(bb for bb, _, _ in persistent_write_stmts(b))
        for bb, t in b.calls():
            if b.blocks[bb].cleanup:
                continue
            k = callee_key(t["callee"])
            cb = prog.body_for_callee(t["callee"])
            if cb is not None and cb.key in skip_callees:
                continue
            if (cb is not None and cb.key in writes) or k in wcalls or \
                    (k.startswith("std::vec::Vec") and k.split("::")[-1] in ("push", "truncate", "extend", "pop", "clear", "resize")):
                out.add(bb)
        return out

    # per function: does it write before / after its (uncontained) user point?
    w_before = {}
    w_after = {}

    def user_sites(b):
        out = []
        for blk in b.blocks:
            if blk.cleanup:
                continue
            s = uc.site(b, blk.idx)
            if s and not s["contained"]:
                out.append((blk.idx, s))
        return out

    order = list(prog.bodies)
    for _ in range(6):
        for b in order:
            us = user_sites(b)
            if not us:
                continue
            wb = write_blocks(b, skip_callees=R3_BEFORE_OK)
            for ubb, s in us:
                before = {w for w in wb if w != ubb and ubb in b.successors_reach(w, unwind=False)}
                after = {w for w in wb if w != ubb and w in b.successors_reach(ubb, unwind=False)}
                t = b.blocks[ubb].term
                cb = prog.body_for_callee(t["callee"]) if t["k"] == "call" else None
                if before or (cb is not None and w_before.get(cb.key)):
                    w_before[b.key] = True
                if after or (cb is not None and w_after.get(cb.key)):
                    w_after[b.key] = True
    for b in scope:
        us = user_sites(b)
        if not us:
            continue
        ctx.fn(b)
        wb = write_blocks(b, skip_callees=R3_BEFORE_OK)
        for ubb, s in us:
            t = b.blocks[ubb].term
            cb = prog.body_for_callee(t["callee"]) if t["k"] == "call" else None
            before = sorted(w for w in wb if w != ubb and ubb in b.successors_reach(w, unwind=False))
            after = sorted(w for w in wb if w != ubb and w in b.successors_reach(ubb, unwind=False))
            cb_before = bool(cb is not None and w_before.get(cb.key))
            cb_after = bool(cb is not None and w_after.get(cb.key))
            bad = (bool(before) or cb_before) and (bool(after) or cb_after) and (bool(before) or bool(after))
            what = short(s["what"]) if s["kind"].startswith("U5") else s["kind"]
            ctx.ob("R3.split-update", f"{short(b.key)}|{what}", not bad, b.loc(t["span"]),
                   f"user-code point {s['kind']} ({short(s['what'])}); persistent writes before it: own blocks {before}, inside the callee: {cb_before}; "
                   f"after it: own blocks {after}, inside the callee: {cb_after}" +
                   ("; an unwind at that point leaves the counters/vacancy index disagreeing with the slabs" if bad else ""))

    from .c02 import slab_vector_pairing
    slab_vector_pairing(ctx, prog, "R3.before-ok-premise", ("allocate_slab_for_insert",))

    # ---------------- R4
    rem = prog.one("opaque::slab::Slab::remove")
    if rem is None:
        ctx.missing("R4.restore-before-destroy", "Slab::remove")
    else:
        ctx.fn(rem)
        us = user_sites(rem)
        ok = len(us) == 1
        det = f"user-code points in Slab::remove: {[(bb, s['kind']) for bb, s in us]}"
        if ok:
            ubb = us[0][0]
            dom = rem.dominators(unwind=False)
            cnt = field_assigns(rem, "Slab::count")
            nfs = field_assigns(rem, "Slab::next_free_slot_index")
            rep = calls_to(rem, "std::mem::replace", "core::mem::replace")
            pre = [bb for bb, _, _ in cnt + nfs] + [bb for bb, _ in rep]
            ok1 = bool(cnt) and bool(nfs) and bool(rep) and all(p in dom[ubb] for p in pre)
            ctx.ob("R4.restore-before-destroy", "bookkeeping-dominates-destruction", ok1, rem.loc(),
                   f"tag write {[bb for bb,_ in rep]}, free-list {[bb for bb,_,_ in nfs]} and count {[bb for bb,_,_ in cnt]} writes dominate the destruction at bb{ubb}")
            after = [w for w in write_blocks(rem) if w in rem.successors_reach(ubb, unwind=False)]
            ctx.ob("R4.restore-before-destroy", "nothing-after-destruction", not after, rem.loc(),
                   f"persistent writes reachable after the destruction: {after or 'none'}")
        else:
            ctx.ob("R4.restore-before-destroy", "single-destruction-point", False, rem.loc(), det)

    # ---------------- R5
    entry = []
    for b in prog.bodies:
        if b.is_closure:
            continue
        if b.name in ("insert_with", "insert_with_unchecked", "with_iter") and b.impl_adt and \
                b.impl_adt.split("::")[-1] in ("OpaquePool", "PinnedPool", "BlindPool"):
            entry.append(b)
    for b in entry:
        ctx.fn(b)
        cu = [(bb, t) for bb, t in b.calls() if callee_paths(t["callee"]) & CATCH_UNWIND]
        sites = [(blk.idx, uc.site(b, blk.idx)) for blk in b.blocks if not blk.cleanup and uc.site(b, blk.idx)]
        unc = [(bb, s) for bb, s in sites if not s["contained"]]
        ok = len(cu) == 1 and not unc and any(bb == cu[0][0] for bb, _ in sites)
        ctx.ob("R5.containment", f"{short(b.key)}.closure-inside-catch_unwind", ok, b.loc(),
               f"catch_unwind sites {len(cu)}; user-code points outside it: {[(bb, s['kind']) for bb, s in unc] or 'none'}")
        gl = GuardLiveness(b)
        ru = [(bb, t) for bb, t in b.calls() if callee_key(t["callee"]).endswith("panic::resume_unwind")]
        # `result.unwrap_or_else(|p| resume_unwind(p))`: the panic is re-raised inside the adaptor call that receives the closure
        from ..analysis import _closure_receiver_call
        for c in prog.closures_of(b):
            if any(callee_key(t["callee"]).endswith("panic::resume_unwind") for _bb, t in c.calls()):
                rc = _closure_receiver_call(prog, b, c)
                if rc is not None:
                    ru.append(rc)
        ok = len(ru) >= 1
        live_at = []
        for bb, t in ru:
            live = gl.live_at_term(bb)
            if live:
                ok = False
                live_at.append((bb, sorted(gl.guard_locals[l] for l in live)))
        ctx.ob("R5.containment", f"{short(b.key)}.guard-released-before-resume", ok, b.loc(ru[0][1]["span"]) if ru else b.loc(),
               f"resume_unwind sites {len(ru)}; guards live there: {live_at or 'none'}" +
               ("" if ok else " - the guard is dropped by the unwinder while panicking, which poisons the mutex"))

    # ---------------- rules shared with the sibling properties anchored in the same functions
    ctx.import_rules("C03", {
        "R5.last-drop-destroys": "a handle dropped while a user panic unwinds must still take the pool lock unconditionally and remove its object: a `try_lock`-and-give-up leaves the object alive and counted after the panic was contained",
    })
    ctx.import_rules("C02", {
        "R1.dropper-pairing": "a dropper armed before the user initialiser runs the payload destructor on uninitialised memory when the initialiser panics",
        "R4.slab-count": "a counter or free-list write made before the user initialiser survives its panic",
        "R4.pool-length": "same, at pool level",
        "R5.vacancy": "vacancy bookkeeping split around user code leaves the tracker and the slabs disagreeing after a panic",
        "R8.slab-drop": "a slab dropped while a user panic unwinds must not raise its own panic (the non-empty-drop policy assertion is guarded by !thread::panicking()): a second panic aborts the process instead of propagating the user's",
    })

    # ---------------- R6: RefCell access discipline of the Local* pools
    ALLOWED = {"borrow", "borrow_mut", "try_borrow", "try_borrow_mut", "new", "clone", "fmt", "default"}
    n6 = 0
    for b in prog.bodies:
        if "::tests" in b.key or not b.key.startswith("infinity_pool::"):
            continue
        for bb, t in b.calls():
            k = callee_key(t["callee"])
            if not k.rsplit("::", 1)[0].endswith("cell::RefCell"):
                continue
            m = t["callee"].get("method")
            n6 += 1
            ctx.ob("R6.refcell-guarded-access", f"{short(b.key)}|RefCell::{m}", m in ALLOWED, b.loc(t["span"]),
                   f"RefCell::{m}" + ("" if m in ALLOWED else " hands out a view of the pool that the borrow flag does not protect: user code running while it is used can mutate the pool underneath"))
    if n6 == 0:
        ctx.missing("R6.refcell-guarded-access", "RefCell accesses in infinity_pool")

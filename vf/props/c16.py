"""C16 - metrics reports account for every observation exactly once (nm_impl). DESIGN.md section 3/C16.

Only the bookkeeping *shape* is decided (which counter is written from which operand, on which paths,
under which lock); totals over histories are not."""
from ..analysis import (path_count, Slice, atomic_events, closure_capture_ops, GuardLiveness, switch_guards,
                        calls_to, discr_source)
from ..mir import (strip_generics, callee_key, callee_paths, op_local, op_place, resolve_const, op_access_path, access_path,
                   place_fields)

EXPL = ("Decides structural necessary conditions of C16 on MIR of nm_impl: (R1) in the single-threaded bag every "
        "bucket increment is followed on every path by a dirty mark computed from the same bucket index through "
        "min(index, K) and 1<<bit OR-ed into the old bitmap; the constants K of the marker, of the overflow mask and "
        "of the overflow drain's start agree; (R2) both `insert` siblings add the batch size to `count`, "
        "magnitude*batch to `sum` and the batch size to the *first* bucket whose bound satisfies magnitude <= bound, "
        "and have no exit other than the sanctioned ones before doing so; (R3) push copies count, sum, the overflow "
        "range and every dirty bucket from the same index of the local bag and consumes the bitmap exactly once; "
        "(R4) archive/report merging is additive on every field; (R5) the pusher skips a pair only on "
        "count()==last_pushed, otherwise copies and remembers the count it compared, and the bag registered for "
        "reports is the one the pusher writes; (R6) thread teardown archives under the same write guard that removes "
        "the thread's bags, reports read thread bags and archive under one read guard; (R7) the batch size and the "
        "magnitude reach `insert` unchanged from every observe entry point; a report copies count/sum from the "
        "merged snapshot and derives the overflow bucket as count - sum(buckets).")
NOT = ("Not decided: the totals themselves over all observation histories, thread interleavings, torn reads during "
       "concurrent reports, wrapping arithmetic at the extremes, bucket-bound ordering of user configurations.")

OBS = "nm_impl::observations::"
INS_L = "<nm_impl::observations::ObservationBag as nm_impl::observations::Observations>::insert"
INS_S = "<nm_impl::observations::ObservationBagSync as nm_impl::observations::Observations>::insert"
FIRST_MATCH = {"find_map", "position", "find"}


def short(fields):
    return [f.split("::")[-1] for f in fields]


def recv(body, t, i=0):
    """(root local, [short field names]) of argument i of a call."""
    root, fields = op_access_path(body, t["args"][i])
    return root, short(fields)


def has_field(fs, name):
    return name in fs


def elem_index_op(body, op, depth=12):
    """If `op` denotes (a reference to) a slice element obtained through get_unchecked/get/get_mut/index,
    return the index operand of that accessor; else None."""
    while depth:
        depth -= 1
        pl = op_place(op)
        if pl is None:
            return None
        for e in pl["p"]:
            if isinstance(e, dict) and "idx" in e:
                return {"k": "copy", "place": {"l": e["idx"], "p": []}}
        d = body.unique_def(pl["l"])
        if not d:
            return None
        _bb, _i, kind, payload = d
        if kind == "assign":
            rv = payload["rv"]
            if rv["k"] in ("ref", "rawptr"):
                op = {"k": "copy", "place": rv["place"]}
                if rv["place"]["l"] == pl["l"]:
                    return None
                continue
            if rv["k"] in ("use", "cast"):
                op = rv["op"]
                continue
            return None
        c = payload["callee"]
        m = c.get("method")
        if m in ("get_unchecked", "get_unchecked_mut", "get", "get_mut", "index", "index_mut") and len(payload["args"]) >= 2:
            return payload["args"][1]
        if m in ("expect", "unwrap", "unwrap_unchecked", "deref", "deref_mut", "as_ref", "as_mut") and payload["args"]:
            op = payload["args"][0]
            continue
        return None
    return None


def same_local(body, a, b):
    """Do two operands read the same single-definition value (through plain copies)?"""
    def root(o):
        for _ in range(8):
            l = op_local(o)
            if l is None:
                return None
            d = body.unique_def(l)
            if d and d[2] == "assign" and d[3]["rv"]["k"] in ("use", "cast") and op_local(d[3]["rv"]["op"]) is not None \
                    and not (1 <= l <= body.arg_count):
                o = d[3]["rv"]["op"]
                continue
            return l
        return None
    ra, rb = root(a), root(b)
    return ra is not None and ra == rb


def writes(body):
    """Counter writes of a body: list of dicts {bb, op ('set'|'store'|'fetch_add'|...), root, fields, val (operand), term}."""
    out = []
    for bb, t in body.calls():
        c = t["callee"]
        k = callee_key(c)
        m = c.get("method")
        if k.startswith("std::cell::Cell") and m in ("set", "replace", "update") and len(t["args"]) >= 2:
            r, fs = recv(body, t)
            out.append({"bb": bb, "op": m, "root": r, "fields": fs, "val": t["args"][1], "term": t})
    for e in atomic_events(body):
        if e["op"] in ("store", "fetch_add", "fetch_sub", "swap", "fetch_or", "fetch_and", "fetch_max", "fetch_min"):
            out.append({"bb": e["bb"], "op": e["op"], "root": e.get("root"), "fields": short(e["fields"]),
                        "val": e["term"]["args"][1], "term": e["term"]})
    return out


def reads_in_slice(body, sl):
    """Counter reads (Cell::get / atomic load) in a slice: list of (root, fields, term)."""
    out = []
    for key, _bb, t in sl["calls"]:
        m = t["callee"].get("method")
        if (key.startswith("std::cell::Cell") and m == "get") or ("sync::atomic::Atomic" in key and m == "load"):
            r, fs = recv(body, t)
            out.append((r, fs, t))
    return out


def call_names(sl):
    return [k.split("::")[-1] for k, _bb, _t in sl["calls"]]


def run(ctx):
    ctx.explanation = EXPL
    ctx.not_decided = NOT
    prog = ctx.prog("nm_impl")
    R = ctx.rule
    R("R1.dirty-mark-follows-bucket-write", "every bucket increment of ObservationBag::insert is followed on every normal path by a write of dirty_buckets", floor=1)
    R("R1.dirty-mark-value", "the mark is old_bitmap | (1 << min(bucket_index, K)) for the index of the bucket written", floor=1)
    R("R1.overflow-constant-agreement", "marker K, overflow mask shift and overflow drain start are the same constant, below the bitmap width", floor=1)
    R("R2.count", "insert adds the batch size to `count` exactly once per data-changing path", floor=2)
    R("R2.sum", "insert adds magnitude*batch to `sum` exactly once per data-changing path", floor=2)
    R("R2.bucket-add", "insert adds the batch size to exactly one bucket on the path where a bucket was selected", floor=2)
    R("R2.bucket-select", "the bucket is the first (forward scan) whose bound satisfies magnitude <= bound", floor=2)
    R("R2.exits", "the only exits that skip a counter are: batch size 0 (single-threaded bag), no buckets configured, no bound matched", floor=2)
    R("R3.copy-scalars", "copy_from stores the local count into count and the local sum into sum, once each, on every path", floor=2)
    R("R3.take-dirty", "copy_from consumes the dirty bitmap exactly once per call; take_dirty_buckets returns the old bitmap and resets it to 0", floor=2)
    R("R3.copy-dirty-buckets", "every dirty bit i copies local bucket i into published bucket i; bits come from the taken bitmap minus the overflow bit", floor=1)
    R("R3.overflow-drain", "with the overflow bit set every bucket from K to len is copied index-for-index and only the overflow bit is cleared; otherwise the bitmap is returned unchanged", floor=2)
    R("R4.merge-additive", "merge_from adds (never overwrites) count, sum and every bucket from the same field/index of the other bag", floor=6)
    R("R5.push-skip", "push copies a pair unless local.count() == last_pushed_count, and then stores the compared count", floor=3)
    R("R5.pair-wiring", "the published bag registered for reports is the bag the pusher copies into; the local bag is the event's bag; last_pushed starts at 0", floor=3)
    R("R6.archive-under-lock", "unregister_thread removes the thread's bags and merges each into the archive while one write guard of the registry state is live", floor=3)
    R("R6.teardown", "dropping a thread's registry always unregisters the thread", floor=1)
    R("R6.inspect-one-guard", "inspect visits every thread map and the archive under a single read guard of the registry state", floor=2)
    R("R6.register", "registration reaches the per-thread map insertion exactly once per path and keeps the Arc the event writes to", floor=3)
    R("R7.batch-size", "every observe entry point passes the batch size field (Event::*: the constant 1) and the magnitude unchanged to insert", floor=8)
    R("R7.report-merge", "Report::collect snapshots every bag visited and merges or inserts it under its event name", floor=2)
    R("R7.report-fields", "EventMetrics::new copies count and sum from the merged snapshot; overflow bucket = count - sum(bucket counts), clamped at 0 (a concurrent report may see the buckets ahead of the count)", floor=3)

    ins_l = prog.one(INS_L)
    ins_s = prog.one(INS_S)
    if ins_l is None:
        ctx.missing("R2.count", INS_L)
    if ins_s is None:
        ctx.missing("R2.count", INS_S)

    K = {}  # role -> constant value

    # ------------------------------------------------------------------ R1 / R2 on both inserts
    for tag, b in (("ObservationBag", ins_l), ("ObservationBagSync", ins_s)):
        if b is None:
            continue
        ctx.fn(b)
        where = b.loc()
        ws = writes(b)
        sync = tag.endswith("Sync")
        want_op = "fetch_add" if sync else "set"

        def field_writes(name):
            return [w for w in ws if w["root"] == 1 and has_field(w["fields"], name)]

        # zero-batch early exit (allowed for the single-threaded bag only: nothing would change anyway)
        zero_exit_edges = []
        for blk in b.blocks:
            t = blk.term
            if t["k"] != "switch":
                continue
            src = discr_source(b, op_local(t["discr"]))
            if src.get("kind") == "cmp" and src.get("op") in ("Eq", "Ne") and src.get("const") == 0 and \
                    src.get("lhs", {}).get("kind") == "local" and src["lhs"].get("local") == 3:
                for v, tgt in t["arms"]:
                    zero_exit_edges.append((blk.idx, tgt))
                zero_exit_edges.append((blk.idx, t["otherwise"]))

        for fld, rid in (("count", "R2.count"), ("sum", "R2.sum")):
            fw = field_writes(fld)
            pc = path_count(b, [w["bb"] for w in fw])
            ok = bool(fw) and all(w["op"] == want_op for w in fw) and pc[1] == 1 and (pc[0] == 1 or not sync)
            det = [f"writes of `{fld}` per path (min,max)={pc}, ops={[w['op'] for w in fw]}"]
            for w in fw:
                sl = Slice(b).run(w["val"])
                names = call_names(sl)
                if fld == "count":
                    okv = sl["args"] - {1} == {3} and "wrapping_mul" not in names and not [c for c in sl["consts"] if "val" in c]
                    det.append(f"operand derives from parameters {sorted(sl['args'] - {1})} (expected batch size only)")
                else:
                    okv = sl["args"] - {1} == {2, 3} and "wrapping_mul" in names
                    det.append(f"operand derives from parameters {sorted(sl['args'] - {1})} via {sorted(set(names))} (expected magnitude*batch)")
                if not sync:
                    rd = reads_in_slice(b, sl)
                    okr = any(r == 1 and has_field(fs, fld) for r, fs, _t in rd) and \
                        any(n in ("wrapping_add", "saturating_add", "checked_add") for n in names) or "Add" in sl["binops"]
                    okv = okv and okr
                    det.append(f"adds to the old value of `{fld}`: {okr}")
                ok = ok and okv
            ctx.ob(rid, tag, ok, where, "; ".join(det))

        # exits: every path that skips the `count` write must take the zero-batch edge (single-threaded bag only)
        cw = [w["bb"] for w in field_writes("count")]
        rets = b.exits(("return",))
        skip = b.reachable([0], unwind=False, avoid=cw)
        skipping = [r for r in rets if r in skip]
        if skipping and not sync and zero_exit_edges:
            skip2 = b.reachable([0], unwind=False, avoid=cw, avoid_edges=zero_exit_edges)
            ok = not [r for r in rets if r in skip2]
            det = f"paths skipping the count write exist only through the batch==0 test: {ok}"
        else:
            ok = not skipping
            det = f"return reachable without writing count: {bool(skipping)}" + \
                  ("" if not sync else " (the atomic bag has no sanctioned early exit)")
        # bucket write skipped only on is_empty / None arms
        bw = field_writes("bucket_counts")
        bw_bbs = [w["bb"] for w in bw]
        sel = [(bb, t) for bb, t in b.calls() if t["callee"].get("method") in FIRST_MATCH | {"rposition", "rfind", "last", "max_by_key", "binary_search", "partition_point", "binary_search_by"}
               and "iter" in callee_key(t["callee"]).lower() or t["callee"].get("method") in ("binary_search", "partition_point")]
        if bw and sel:
            sbb = sel[0][0]
            # from the selector, every path on which the selector produced Some must write a bucket
            guards = switch_guards(b, bw_bbs[0])
            g_ok = any(g["src"].get("kind") == "discr" for g in guards)
            ok = ok and g_ok
            det += f"; bucket write guarded by the selector's discriminant: {g_ok}"
        if bw and cw:
            # after the count was written, the only ways past the bucket write are: no buckets configured (is_empty / first / last
            # yielding None) or the first-match scan finding no bucket (None) - never a shortcut decided by comparing the magnitude
            from ..analysis import skips_only_via

            def sanctioned(u, v, src, lab):
                if src.get("kind") == "call" and src["term"]["callee"].get("method") == "is_empty":
                    return lab != 0
                if src.get("kind") == "discr":
                    pl = src.get("place") or {}
                    psl = Slice(b, through_calls=False).run({"k": "copy", "place": {"l": pl.get("l", 0), "p": []}})
                    meths = {t["callee"].get("method") for _k, _b, t in psl["calls"]}
                    listed = [x for x, _t in b.blocks[u].term["arms"]]
                    none_edge = lab == 0 or (lab == "otherwise" and listed == [1])
                    # `scan.map_or(NoBucket, Bucket)`: the Option was re-labelled as a private two-state enum; its "none" label
                    # is the variant given as the default
                    d0 = b.unique_def(pl.get("l", 0)) if not pl.get("p") else None
                    for _hop in range(6):   # through the moves a spliced-in helper's return leaves behind
                        if d0 and d0[2] == "assign" and d0[3]["rv"]["k"] == "use" and op_local(d0[3]["rv"]["op"]) is not None:
                            d0 = b.unique_def(op_local(d0[3]["rv"]["op"]))
                        else:
                            break
                    if d0 and d0[2] == "call" and d0[3]["callee"].get("method") == "map_or" and len(d0[3]["args"]) == 3:
                        dflt = d0[3]["args"][1]
                        nl = None
                        c0 = resolve_const(b, dflt)
                        if c0 is not None and isinstance(c0.get("val"), int) and c0.get("variant"):
                            nl = c0["val"]
                        else:
                            dd = b.unique_def(op_local(dflt)) if op_local(dflt) is not None else None
                            if dd and dd[2] == "assign" and dd[3]["rv"]["k"] == "aggr" and "vidx" in dd[3]["rv"] and not dd[3]["rv"]["ops"]:
                                nl = dd[3]["rv"]["vidx"]
                        ctor = d0[3]["args"][2]
                        is_ctor = ctor.get("k") == "const" and bool(ctor.get("fndef")) and not prog.by_key.get(strip_generics(ctor.get("fndef")))
                        none_edge = nl is not None and is_ctor and (lab == nl or (lab == "otherwise" and nl not in listed))
                        meths = meths | {t["callee"].get("method") for _k, _b, t in Slice(b, through_calls=False).run(d0[3]["args"][0])["calls"]}
                    return none_edge and bool(meths & (FIRST_MATCH | {"last", "first", "next", "get", "checked_sub", "split_last", "split_first"}))
                return False
            only, _e = skips_only_via(b, bw_bbs, sanctioned, start=cw[0])
            ok = ok and only
            det += f"; bucket write skipped only when there are no buckets or no bucket matches: {only}"
        ctx.ob("R2.exits", tag, ok, where, det)

        # bucket add
        pc = path_count(b, bw_bbs)
        ok = bool(bw) and pc == (0, 1) and all(w["op"] == want_op for w in bw)
        det = [f"bucket writes per path={pc}, ops={[w['op'] for w in bw]}"]
        idx_ops = []
        for w in bw:
            sl = Slice(b, stop_calls={"core::slice::<impl [T]>::get_unchecked"}).run(w["val"])
            okv = 3 in sl["args"] and 2 not in sl["args"] - {2} if False else (sl["args"] >= {3})
            # the value must not depend on the magnitude except through the index (handled separately)
            vsl = Slice(b, through_calls=False).run(w["val"])
            okv = vsl["args"] == {3} or (not sync and 3 in Slice(b).run(w["val"])["args"])
            det.append(f"increment derives from parameters {sorted(vsl['args'])} (expected batch size)")
            io = elem_index_op(b, w["term"]["args"][0])
            if io is None:
                okv = False
                det.append("bucket element is not obtained through an index accessor")
            idx_ops.append(io)
            ok = ok and okv
        ctx.ob("R2.bucket-add", tag, ok, where, "; ".join(det))

        # bucket select
        ok = False
        det = "no first-match scan found"
        for io in idx_ops:
            if io is None:
                continue
            sl = Slice(b).run(io)
            scans = [(k, bb, t) for k, bb, t in sl["calls"] if t["callee"].get("method") in
                     ("find_map", "position", "find", "rposition", "rfind", "filter_map", "last", "binary_search",
                      "binary_search_by", "partition_point", "max_by_key", "min_by_key", "rev")]
            names = [t["callee"].get("method") for _k, _bb, t in scans]
            if not scans:
                lok, ldet = loop_first_match_le(b, sl)
                if lok is not None:
                    ok, det = lok, ldet
                    if ok:
                        break
                    continue
                det = f"index derives from calls {sorted(set(call_names(sl)))}: no scan recognised"
                continue
            bad = [n for n in names if n not in FIRST_MATCH]
            fm = [(k, bb, t) for k, bb, t in scans if t["callee"].get("method") in FIRST_MATCH]
            if bad or len(fm) != 1:
                det = f"scan methods {names}: only a single forward first-match (find_map/position/find) is accepted"
                continue
            _k, sbb, st = fm[0]
            # source slice: self.bucket_magnitudes, not reversed
            ssl = Slice(b).run(st["args"][0])
            src_ok = any(f.endswith("::bucket_magnitudes") for f in ssl["fields"]) and "rev" not in call_names(ssl)
            # predicate closure
            cl = None
            for a in st["args"][1:]:
                l = op_local(a)
                if l is not None:
                    for c in b.local_ty(l).get("closures", []):
                        cl = prog.bodies_by_key.get(c) if hasattr(prog, "bodies_by_key") else None
                        if cl is None and prog.by_key.get(strip_generics(c)):
                            # the scan sits in a helper spliced into several callers: its closure keeps the helper's path
                            cl = prog.by_key[strip_generics(c)][0]
                        if cl is None:
                            for cb in prog.closures_of(b):
                                if cb.key == c or c.startswith(cb.key) or cb.key.startswith(c):
                                    cl = cb
            if cl is None:
                cls = prog.closures_of(b)
                cl = cls[0] if len(cls) == 1 else None
            pred_ok, pdet = closure_pred_le(b, cl)
            ok = src_ok and pred_ok
            det = f"{names[0]} over self.bucket_magnitudes (forward: {src_ok}); predicate: {pdet}"
        ctx.ob("R2.bucket-select", tag, ok, where, det)

        # R1 (single-threaded bag only: the atomic bag has no bitmap)
        if not sync:
            dw = field_writes("dirty_buckets")
            dbbs = [w["bb"] for w in dw]
            okp = bool(bw) and bool(dw)
            for bb in bw_bbs:
                okp = okp and b.must_pass([bb], dbbs, rets, unwind=False)
            pcd = path_count(b, dbbs)
            ctx.ob("R1.dirty-mark-follows-bucket-write", tag, okp and pcd[1] == 1, where,
                   f"bucket writes at {[b.loc(w['term']['span']) for w in bw]}; dirty writes per path={pcd}; "
                   f"every path from a bucket write to return passes a dirty write: {okp}")
            for w in dw:
                ok, det = dirty_value_ok(b, w, idx_ops, K)
                ctx.ob("R1.dirty-mark-value", tag, ok, b.loc(w["term"]["span"]), det)
            if not dw:
                ctx.ob("R1.dirty-mark-value", tag, False, where, "no write of dirty_buckets in insert")

    # ------------------------------------------------------------------ R3
    cf = prog.one(OBS + "ObservationBagSync::copy_from")
    td = prog.one(OBS + "ObservationBag::take_dirty_buckets")
    dr = prog.one(OBS + "ObservationBagSync::drain_overflow_buckets")
    if cf is None:
        ctx.missing("R3.copy-scalars", "ObservationBagSync::copy_from")
    else:
        ctx.fn(cf)
        ws = writes(cf)
        for fld in ("count", "sum"):
            fw = [w for w in ws if w["root"] == 1 and w["fields"] == [fld]]
            pc = path_count(cf, [w["bb"] for w in fw])
            ok = pc == (1, 1) and all(w["op"] == "store" for w in fw)
            det = [f"stores to self.{fld} per path={pc}"]
            for w in fw:
                sl = Slice(cf).run(w["val"])
                rd = reads_in_slice(cf, sl)
                okv = len(rd) == 1 and rd[0][0] == 2 and rd[0][1] == [fld] and not sl["binops"]
                det.append(f"value read from {[('_%s' % r, fs) for r, fs, _ in rd]} (expected data.{fld}, unmodified)")
                ok = ok and okv
            ctx.ob("R3.copy-scalars", f"copy_from.{fld}", ok, cf.loc(), "; ".join(det))
        tds = calls_to(cf, "ObservationBag::take_dirty_buckets")
        pc = path_count(cf, [bb for bb, _ in tds])
        okr = all(recv(cf, t)[0] == 2 for _bb, t in tds)
        ctx.ob("R3.take-dirty", "copy_from", pc == (1, 1) and okr, cf.loc(),
               f"take_dirty_buckets(data) calls per path={pc}; receiver is the local bag: {okr}")
        # dirty loop
        bws = [w for w in ws if w["root"] == 1 and has_field(w["fields"], "bucket_counts")]
        ok = bool(bws)
        det = [f"{len(bws)} bucket store(s)"]
        for w in bws:
            okw = w["op"] == "store" and cf.in_loop(w["bb"])
            di = elem_index_op(cf, w["term"]["args"][0])
            sl = Slice(cf).run(w["val"])
            rd = reads_in_slice(cf, sl)
            okw = okw and len(rd) == 1 and rd[0][0] == 2 and has_field(rd[0][1], "bucket_counts")
            si = elem_index_op(cf, rd[0][2]["args"][0]) if rd else None
            same = di is not None and si is not None and same_local(cf, di, si)
            okw = okw and same
            det.append(f"store in loop={cf.in_loop(w['bb'])}, source=data.bucket_counts: {bool(rd) and rd[0][0] == 2}, same index: {same}")
            if di is not None:
                isl = Slice(cf).run(di)
                names = call_names(isl)
                drain_folded = any(k.endswith("drain_overflow_buckets") for k in prog.folded)
                flow = "trailing_zeros" in names and "take_dirty_buckets" in names and ("drain_overflow_buckets" in names or drain_folded)
                if drain_folded and not flow and "next" in names and "trailing_zeros" not in names:
                    # this is the K..len copy loop of the inlined drain helper, judged under R3.overflow-drain
                    det.append("store of the inlined overflow drain (index from the K..len range)")
                    ok = ok and okw
                    continue
                okw = okw and flow
                det.append(f"index = trailing_zeros of the bitmap returned by take_dirty_buckets via drain_overflow_buckets: {flow}")
            ok = ok and okw
        ctx.ob("R3.copy-dirty-buckets", "copy_from", ok, cf.loc(), "; ".join(det))
    if td is None:
        ctx.missing("R3.take-dirty", "ObservationBag::take_dirty_buckets")
    else:
        ctx.fn(td)
        ws = [w for w in writes(td) if w["root"] == 1 and w["fields"] == ["dirty_buckets"]]
        pc = path_count(td, [w["bb"] for w in ws])
        zero = all((resolve_const(td, w["val"]) or {}).get("val") == 0 for w in ws)
        rsl = Slice(td).run({"k": "copy", "place": {"l": 0, "p": []}})
        rd = reads_in_slice(td, rsl)
        ret_ok = len(rd) == 1 and rd[0][1] == ["dirty_buckets"] and not rsl["binops"]
        # the read must happen before the reset
        order = bool(rd) and bool(ws) and all(
            w["bb"] in td.reachable([b_ for b_ in td.term_succ(_read_bb(td, rd[0][2]), False)], unwind=False) for w in ws)
        ctx.ob("R3.take-dirty", "take_dirty_buckets", pc == (1, 1) and zero and ret_ok and order, td.loc(),
               f"resets per path={pc}, reset value 0: {zero}, returns the bitmap read: {ret_ok}, read precedes reset: {order}")
    if dr is None:
        ctx.missing("R3.overflow-drain", "ObservationBagSync::drain_overflow_buckets")
    elif cf is not None and dr.key == cf.key:
        # the drain helper was inlined into copy_from by a refactoring: its parameter/return shape no longer exists to be matched.
        # What can still be said on the merged body: some in-loop store copies data.bucket_counts[i] to self.bucket_counts[i] over a
        # range ending at a bucket_counts length (checked below); the mask/return-shape sub-rules are not re-derived.
        ws2 = [w for w in writes(cf) if w["root"] == 1 and has_field(w["fields"], "bucket_counts")]
        rng_ok = False
        for blk in cf.blocks:
            for st in blk.stmts:
                if st["k"] == "assign" and st["rv"]["k"] == "aggr" and str(st["rv"].get("adt", "")).endswith("ops::Range"):
                    c0 = resolve_const(cf, st["rv"]["ops"][0])
                    esl = Slice(cf).run(st["rv"]["ops"][1])
                    if c0 and "val" in c0 and "len" in call_names(esl) and any(f.endswith("::bucket_counts") for f in esl["fields"]):
                        rng_ok = True
                        K["drain"] = c0["val"]
        for blk in cf.blocks:
            for st in blk.stmts:
                if st["k"] == "assign" and st["rv"]["k"] == "binop" and st["rv"]["op"] == "Shl":
                    a_, b_ = resolve_const(cf, st["rv"]["a"]), resolve_const(cf, st["rv"]["b"])
                    if a_ and a_.get("val") == 1 and b_ and "val" in b_:
                        K["mask"] = b_["val"]
        if len(ws2) >= 2 and rng_ok:
            ctx.inconclusive("R3.overflow-drain", "drain.copies", cf.loc(), "drain_overflow_buckets was inlined into copy_from; a K..len copy loop is present, the guard shape is not re-derived")
            ctx.inconclusive("R3.overflow-drain", "drain.returns", cf.loc(), "drain_overflow_buckets was inlined into copy_from; there is no helper return value to classify")
        else:
            ctx.ob("R3.overflow-drain", "drain.copies", False, cf.loc(), f"drain helper inlined into copy_from but no K..len copy loop found (bucket stores {len(ws2)}, range {rng_ok})")
    else:
        ctx.fn(dr)
        drain_rules(ctx, dr, K)

    # constants
    ks = {k: v for k, v in K.items()}
    vals = set(ks.values())
    ok = len(ks) == 3 and len(vals) == 1 and None not in vals and all(isinstance(v, int) and 0 <= v <= 63 for v in vals)
    ctx.ob("R1.overflow-constant-agreement", "K", ok, (ins_l.loc() if ins_l else ""),
           f"marker/min={ks.get('marker')}, mask shift={ks.get('mask')}, drain start={ks.get('drain')} (need all three, equal, <= 63)")

    # ------------------------------------------------------------------ R4
    for key, selfkind in ((OBS + "ObservationBagSync::merge_from", "atomic"), (OBS + "ObservationBagSnapshot::merge_from", "plain")):
        b = prog.one(key)
        if b is None:
            ctx.missing("R4.merge-additive", key)
            continue
        ctx.fn(b)
        merge_rules(ctx, b, selfkind)

    # ------------------------------------------------------------------ R5
    push_rules(ctx, prog)
    # ------------------------------------------------------------------ R6
    registry_rules(ctx, prog)
    # ------------------------------------------------------------------ R7
    entry_rules(ctx, prog)
    report_rules(ctx, prog)


def _read_bb(body, term):
    for bb, t in body.calls():
        if t is term:
            return bb
    return 0


def loop_first_match_le(b, sl):
    """The `for (i, bound) in bounds.iter().enumerate() { if magnitude <= bound { found = Some(i); break; } }` spelling of the
    first-match scan. Returns (None, "") when the index does not come from such a loop; else (ok, detail)."""
    from ..analysis import iter_chain
    cands = []
    dom = b.dominators(unwind=False)
    for blk in b.blocks:
        if blk.cleanup or blk.idx not in dom:
            continue
        for st in blk.stmts:
            if st["k"] == "assign" and st["rv"]["k"] == "aggr" and st["rv"].get("variant") == "Some" and st["place"]["l"] in sl["locals"] and \
                    any(t["callee"].get("method") == "next" and b.in_loop(bb) and bb in dom[blk.idx] for bb, t in b.calls()):
                cands.append((blk.idx, st))
    if not cands:
        return None, ""
    if len(cands) != 1:
        return False, f"{len(cands)} assignments of Some(index) inside loops"
    sbb, st = cands[0]
    nexts = [(bb, t) for bb, t in b.calls() if t["callee"].get("method") == "next" and sbb in b.successors_reach(bb, False) and bb in b.successors_reach(sbb, True)]
    nx_all = [(bb, t) for bb, t in b.calls() if t["callee"].get("method") == "next" and b.in_loop(bb) and bb in dom[sbb]]
    if len(nx_all) != 1:
        return False, f"the Some(index) assignment is inside {len(nx_all)} iterator loops"
    nbb, nt = nx_all[0]
    brk = nbb not in b.successors_reach(sbb, False)
    chain = iter_chain(b, nt["args"][0])
    src = Slice(b).run(nt["args"][0])
    src_ok = any(f.endswith("::bucket_magnitudes") for f in src["fields"]) and "enumerate" in chain and "rev" not in chain
    # the guarding comparison
    eff = None
    for g in switch_guards(b, sbb):
        dl = g.get("discr_local")
        d = b.unique_def(dl) if dl is not None else None
        if not d or d[2] != "assign" or d[3]["rv"]["k"] != "binop" or d[3]["rv"]["op"] not in ("Le", "Ge", "Lt", "Gt"):
            continue
        rv = d[3]["rv"]
        sa, sb_ = Slice(b).run(rv["a"]), Slice(b).run(rv["b"])
        a_el = any(ct is nt for _k, _b, ct in sa["calls"])
        b_el = any(ct is nt for _k, _b, ct in sb_["calls"])
        a_mag = 2 in sa["args"] and not a_el
        b_mag = 2 in sb_["args"] and not b_el
        if a_mag and b_el:
            norm = rv["op"]
        elif b_mag and a_el:
            norm = {"Le": "Ge", "Ge": "Le", "Lt": "Gt", "Gt": "Lt"}[rv["op"]]
        else:
            continue
        truthy = 0 not in g["allowed"]
        eff = norm if truthy else {"Le": "Gt", "Gt": "Le", "Ge": "Lt", "Lt": "Ge"}[norm]
    idx_sl = Slice(b).run(st["rv"]["ops"][0])
    idx_ok = any(ct is nt for _k, _b, ct in idx_sl["calls"]) and not idx_sl["binops"]
    ok = brk and src_ok and eff == "Le" and idx_ok
    return ok, (f"loop form: forward enumerate over self.bucket_magnitudes {src_ok}; hit iff magnitude {eff} bound (need Le); index is the enumerate counter {idx_ok}; "
                f"the loop is left right after the first hit {brk}")


def closure_pred_le(parent, cl):
    """The scan predicate: yields a hit exactly on the arm where (captured magnitude) <= (element bound)."""
    if cl is None:
        return False, "predicate closure not found"
    for blk in cl.blocks:
        t = blk.term
        if t["k"] != "switch":
            continue
        l = op_local(t["discr"])
        d = cl.unique_def(l) if l is not None else None
        if not d or d[2] != "assign" or d[3]["rv"]["k"] != "binop":
            continue
        rv = d[3]["rv"]
        op = rv["op"]
        if op not in ("Le", "Ge", "Lt", "Gt"):
            continue
        sa, sb = Slice(cl).run(rv["a"]), Slice(cl).run(rv["b"])
        a_mag = bool(sa["upvars"]) and 2 not in sa["args"]
        b_mag = bool(sb["upvars"]) and 2 not in sb["args"]
        a_el = 2 in sa["args"]
        b_el = 2 in sb["args"]
        if a_mag and b_el:
            norm = op
        elif b_mag and a_el:
            norm = {"Le": "Ge", "Ge": "Le", "Lt": "Gt", "Gt": "Lt"}[op]
        else:
            return False, f"comparison operands are not (captured magnitude, scanned bound): {op}"
        # which arm is the hit (returns Some / true)?
        true_tgt = t["otherwise"]
        false_tgt = None
        for v, tgt in t["arms"]:
            if v == 0:
                false_tgt = tgt
        hit_true = _arm_is_hit(cl, true_tgt)
        hit_false = _arm_is_hit(cl, false_tgt) if false_tgt is not None else False
        if hit_true and not hit_false:
            eff = norm
        elif hit_false and not hit_true:
            eff = {"Le": "Gt", "Gt": "Le", "Ge": "Lt", "Lt": "Ge"}[norm]
        else:
            return False, "cannot tell which arm of the comparison is the hit"
        # also the magnitude captured must be parameter 2 of the parent
        cap_ok = False
        for _bb, ops in closure_capture_ops(parent, cl.key):
            for o in ops:
                if 2 in Slice(parent).run(o)["args"]:
                    cap_ok = True
        return eff == "Le" and cap_ok, f"hit iff magnitude {eff} bound (need Le); captures the magnitude parameter: {cap_ok}"
    # `position(|&bound| magnitude <= bound)`: the closure's result IS the comparison
    for blk in cl.blocks:
        for st in blk.stmts:
            if st["k"] == "assign" and st["place"]["l"] == 0 and not st["place"]["p"] and st["rv"]["k"] == "binop" and st["rv"]["op"] in ("Le", "Ge", "Lt", "Gt"):
                rv = st["rv"]
                sa, sb = Slice(cl).run(rv["a"]), Slice(cl).run(rv["b"])
                a_mag = bool(sa["upvars"]) and 2 not in sa["args"]
                b_mag = bool(sb["upvars"]) and 2 not in sb["args"]
                if a_mag and 2 in sb["args"]:
                    eff = rv["op"]
                elif b_mag and 2 in sa["args"]:
                    eff = {"Le": "Ge", "Ge": "Le", "Lt": "Gt", "Gt": "Lt"}[rv["op"]]
                else:
                    return False, f"comparison operands are not (captured magnitude, scanned bound): {rv['op']}"
                cap_ok = False
                for _bb, ops in closure_capture_ops(parent, cl.key):
                    for o in ops:
                        if 2 in Slice(parent).run(o)["args"]:
                            cap_ok = True
                return eff == "Le" and cap_ok, f"hit iff magnitude {eff} bound (need Le); captures the magnitude parameter: {cap_ok}"
    return False, "no comparison found in the predicate closure"


def _arm_is_hit(cl, bb):
    """Does the arm starting at bb assign Some(..)/true to the return place (before merging)?"""
    seen = set()
    while bb is not None and bb not in seen:
        seen.add(bb)
        blk = cl.blocks[bb]
        for s in blk.stmts:
            if s["k"] == "assign" and s["place"]["l"] == 0 and not s["place"]["p"]:
                rv = s["rv"]
                if rv["k"] == "aggr" and rv.get("variant") in ("Some", "None"):
                    return rv["variant"] == "Some"
                if rv["k"] == "use" and rv["op"].get("k") == "const" and "val" in rv["op"]:
                    return bool(rv["op"]["val"])
        t = blk.term
        if t["k"] == "goto":
            bb = t["target"]
        else:
            return False
    return False


def dirty_value_ok(b, w, idx_ops, K):
    sl = Slice(b).run(w["val"])
    names = call_names(sl)
    rd = reads_in_slice(b, sl)
    old = any(r == 1 and fs == ["dirty_buckets"] for r, fs, _ in rd)
    has_or = "BitOr" in sl["binops"]
    has_shl = "Shl" in sl["binops"]
    # the shift: const 1 << amount
    shl_ok = False
    amt = None
    for blk in b.blocks:
        for s in blk.stmts:
            if s["k"] == "assign" and s["rv"]["k"] == "binop" and s["rv"]["op"] == "Shl" and s["place"]["l"] in sl["locals"]:
                c = resolve_const(b, s["rv"]["a"])
                if c and c.get("val") == 1:
                    shl_ok = True
                    amt = s["rv"]["b"]
    min_ok = False
    same_idx = False
    if amt is not None:
        asl = Slice(b).run(amt)
        for key, _bb, t in asl["calls"]:
            if t["callee"].get("method") == "min" and len(t["args"]) == 2:
                cs = [resolve_const(b, a) for a in t["args"]]
                cv = [c.get("val") for c in cs if c and "val" in c]
                var = [a for a, c in zip(t["args"], cs) if not (c and "val" in c)]
                if len(cv) == 1 and len(var) == 1:
                    min_ok = True
                    K["marker"] = cv[0]
                    same_idx = any(io is not None and same_local(b, var[0], io) for io in idx_ops)
    ok = old and has_or and shl_ok and min_ok and same_idx
    return ok, (f"ORs into the old bitmap: {old and has_or}; 1 << amount: {shl_ok and has_shl}; amount = min(index, K): {min_ok} "
                f"(K={K.get('marker')}); index is the index of the bucket written: {same_idx}")


def drain_rules(ctx, dr, K):
    where = dr.loc()
    # mask = 1 << K
    mask_local = None
    for blk in dr.blocks:
        for s in blk.stmts:
            if s["k"] == "assign" and s["rv"]["k"] == "binop" and s["rv"]["op"] == "Shl":
                a, bq = resolve_const(dr, s["rv"]["a"]), resolve_const(dr, s["rv"]["b"])
                if a and a.get("val") == 1 and bq and "val" in bq:
                    K["mask"] = bq["val"]
                    mask_local = s["place"]["l"]
    # range start
    for blk in dr.blocks:
        for s in blk.stmts:
            if s["k"] == "assign" and s["rv"]["k"] == "aggr" and str(s["rv"].get("adt", "")).endswith("ops::Range"):
                c = resolve_const(dr, s["rv"]["ops"][0])
                if c and "val" in c:
                    K["drain"] = c["val"]
                esl = Slice(dr).run(s["rv"]["ops"][1])
                end_ok = "len" in call_names(esl) and any(f.endswith("::bucket_counts") for f in esl["fields"])
                K["_end_ok"] = end_ok
    end_ok = K.pop("_end_ok", False)
    ws = [w for w in writes(dr) if w["root"] == 1 and has_field(w["fields"], "bucket_counts")]
    ok = bool(ws) and end_ok
    det = [f"range end is a bucket_counts length: {end_ok}"]
    for w in ws:
        di = elem_index_op(dr, w["term"]["args"][0])
        sl = Slice(dr).run(w["val"])
        rd = reads_in_slice(dr, sl)
        si = elem_index_op(dr, rd[0][2]["args"][0]) if rd else None
        same = di is not None and si is not None and same_local(dr, di, si)
        okw = w["op"] == "store" and dr.in_loop(w["bb"]) and len(rd) == 1 and rd[0][0] == 2 and \
            has_field(rd[0][1], "bucket_counts") and same
        if di is not None:
            isl = Slice(dr).run(di)
            okw = okw and "next" in call_names(isl)
        # guarded by (dirty & mask) != 0
        gs = switch_guards(dr, w["bb"])
        g_ok = False
        for g in gs:
            s = g["src"]
            if s.get("kind") == "cmp" and s.get("const") == 0 and s.get("op") in ("Eq", "Ne"):
                ll = s.get("lhs_local")
                if ll is not None:
                    gsl = Slice(dr).run({"k": "copy", "place": {"l": ll, "p": []}})
                    if "BitAnd" in gsl["binops"] and 3 in gsl["args"] and (mask_local in gsl["locals"]):
                        want = {0} if s["op"] == "Eq" else {1, "otherwise"}
                        g_ok = g_ok or bool(g["allowed"]) and (g["allowed"] <= (want | ({"otherwise"} if s["op"] == "Ne" else set())))
        okw = okw and g_ok
        det.append(f"store in loop over the range, source data.bucket_counts same index: {same}; guarded by dirty & mask != 0: {g_ok}")
        ok = ok and okw
    ctx.ob("R3.overflow-drain", "drain.copies", ok, where, "; ".join(det))
    # return values
    ok = True
    det = []
    rdefs = dr.defs().get(0, [])
    kinds = []
    for _bb, _i, kind, payload in rdefs:
        if kind != "assign":
            ok = False
            continue
        rv = payload["rv"]
        if rv["k"] == "use":
            kinds.append("unchanged" if op_local(rv["op"]) == 3 or 3 in Slice(dr, through_calls=False).run(rv["op"])["args"] and not Slice(dr, through_calls=False).run(rv["op"])["binops"] else "other")
        elif rv["k"] == "binop" and rv["op"] == "BitAnd":
            sa = Slice(dr, through_calls=False).run(rv["a"])
            sb = Slice(dr, through_calls=False).run(rv["b"])
            one = (3 in sa["args"] and "Not" in sb["binops"] and mask_local in sb["locals"]) or \
                  (3 in sb["args"] and "Not" in sa["binops"] and mask_local in sa["locals"])
            kinds.append("cleared" if one else "other")
        else:
            kinds.append("other")
    ok = ok and sorted(kinds) == ["cleared", "unchanged"]
    ctx.ob("R3.overflow-drain", "drain.returns", ok, where,
           f"return definitions: {kinds} (need: bitmap unchanged on the no-overflow arm, bitmap & !mask after draining)")


def merge_rules(ctx, b, selfkind):
    tag = "ObservationBagSync" if selfkind == "atomic" else "ObservationBagSnapshot"
    where = b.loc()
    if selfkind == "atomic":
        ws = [w for w in writes(b) if w["root"] == 1]
        for fld in ("count", "sum", "bucket_counts"):
            fw = [w for w in ws if has_field(w["fields"], fld)]
            if not fw and fld == "bucket_counts":
                # `for (target, other) in self.bucket_counts.iter().zip(&other.bucket_counts)`: the target reference comes out of the
                # zipped iterator; positions agree by construction when both sides are the full, forward, unfiltered sequences
                zok = False
                zw = []
                for w in writes(b):
                    if not b.in_loop(w["bb"]) or not w["term"]["args"]:
                        continue
                    tsl = Slice(b).run(w["term"]["args"][0])
                    vsl = Slice(b).run(w["val"])
                    tn = set(call_names(tsl)) | set(call_names(vsl))
                    cut = tn & {"rev", "skip", "take", "step_by", "filter", "skip_while", "take_while", "chain", "filter_map", "map_while", "nth"}
                    if "zip" in tn and {1, 2} <= (tsl["args"] | vsl["args"]) and any(f.endswith("::bucket_counts") for f in tsl["fields"]) and \
                            any(f.endswith("::bucket_counts") for f in vsl["fields"]) and not cut:
                        zw.append(w)
                if zw:
                    zok = all(w["op"] == "fetch_add" and not Slice(b).run(w["val"])["binops"] for w in zw) and len(zw) == 1
                    ctx.ob("R4.merge-additive", f"{tag}.{fld}", zok, where,
                           f"ops on the zipped (self.bucket_counts, other.bucket_counts) pairs: {[w['op'] for w in zw]}; both sides full forward sequences")
                    continue
            ok = bool(fw) and all(w["op"] == "fetch_add" for w in fw)
            det = [f"ops on self.{fld}: {[w['op'] for w in fw]}"]
            for w in fw:
                sl = Slice(b).run(w["val"])
                rd = reads_in_slice(b, sl)
                if fld == "bucket_counts":
                    it_ok = b.in_loop(w["bb"]) and any(r == 2 or has_field(fs, "bucket_counts") for r, fs, _ in rd) or \
                        (b.in_loop(w["bb"]) and any(f.endswith("::bucket_counts") for f in sl["fields"]))
                    src_other = any(f.endswith("::bucket_counts") for f in Slice(b).run(w["val"])["fields"]) and 2 in sl["args"]
                    di = elem_index_op(b, w["term"]["args"][0])
                    isl = Slice(b).run(di) if di is not None else None
                    idx_ok = isl is not None and "enumerate" in call_names(isl) and 2 in isl["args"]
                    okv = it_ok and src_other and idx_ok and not sl["binops"]
                    det.append(f"in loop over other.bucket_counts: {it_ok and src_other}; target index is the enumeration index: {idx_ok}")
                else:
                    okv = len(rd) == 1 and rd[0][0] == 2 and rd[0][1] == [fld] and not sl["binops"]
                    det.append(f"operand read from other.{fld}: {okv}")
                    pc = path_count(b, [w["bb"]])
                    okv = okv and pc == (1, 1)
                ok = ok and okv
            ctx.ob("R4.merge-additive", f"{tag}.{fld}", ok, where, "; ".join(det))
    else:
        # plain struct: assignments to (*_1).field
        for fld in ("count", "sum"):
            asg = []
            for blk in b.blocks:
                for s in blk.stmts:
                    if s["k"] == "assign" and s["place"]["l"] == 1 and short(place_fields(s["place"])) == [fld]:
                        asg.append((blk.idx, s))
            ok = len(asg) >= 1
            det = [f"{len(asg)} assignment(s) to self.{fld}"]
            pc = path_count(b, [bb for bb, _ in asg])
            ok = ok and pc == (1, 1)
            for _bb, s in asg:
                sl = Slice(b).run(s["rv"]["op"] if s["rv"]["k"] == "use" else {"k": "copy", "place": s["place"]})
                if s["rv"]["k"] == "binop":
                    sl = {"args": set(), "fields": set(), "calls": [], "binops": [s["rv"]["op"]]}
                    for o in (s["rv"]["a"], s["rv"]["b"]):
                        x = Slice(b).run(o)
                        sl["args"] |= x["args"]
                        sl["fields"] |= x["fields"]
                        sl["calls"] += x["calls"]
                names = call_names(sl)
                both = {1, 2} <= sl["args"] and all(any(f.endswith("ObservationBagSnapshot::" + fld) for f in sl["fields"]) for _ in (0,))
                add = any(n in ("wrapping_add", "saturating_add", "checked_add") for n in names) or "Add" in sl["binops"]
                ok = ok and both and add
                det.append(f"value = self.{fld} + other.{fld}: {both and add}")
            ctx.ob("R4.merge-additive", f"{tag}.{fld}", ok, where, "; ".join(det))
        # buckets: *target = target.wrapping_add(other_bucket_count) inside a loop
        asg = []
        for blk in b.blocks:
            for s in blk.stmts:
                if s["k"] == "assign" and s["place"]["p"] == ["*"] and b.in_loop(blk.idx):
                    r, fs = access_path(b, s["place"])
                    # chase through expect(get_mut(..))
                    io = elem_index_op(b, {"k": "copy", "place": {"l": s["place"]["l"], "p": []}})
                    asg.append((blk.idx, s, io))
        ok = len(asg) == 1
        det = [f"{len(asg)} in-loop store(s) through an element reference"]
        for _bb, s, io in asg:
            sl = Slice(b).run(s["rv"]["op"]) if s["rv"]["k"] == "use" else None
            names = call_names(sl) if sl else []
            add = any(n in ("wrapping_add", "saturating_add", "checked_add") for n in names) or (s["rv"]["k"] == "binop" and s["rv"]["op"] == "Add")
            src = sl is not None and {1, 2} <= sl["args"] and "enumerate" in names
            idx_ok = False
            if io is not None:
                isl = Slice(b).run(io)
                idx_ok = "enumerate" in call_names(isl) and 2 in isl["args"]
            if not (src and idx_ok) and sl is not None and "zip" in names:
                # `for (target, &other) in self.bucket_counts.iter_mut().zip(other.bucket_counts.iter())`: positions agree by
                # construction when both sides are the full, forward, unfiltered sequences
                tsl = Slice(b).run({"k": "copy", "place": {"l": s["place"]["l"], "p": []}})
                tn = set(call_names(tsl)) | set(names)
                cut = tn & {"rev", "skip", "take", "step_by", "filter", "skip_while", "take_while", "chain", "filter_map", "map_while", "nth"}
                both_full = "iter_mut" in tn and "zip" in tn and {1, 2} <= (tsl["args"] | sl["args"]) and \
                    sum(1 for f in (tsl["fields"] | sl["fields"]) if f.endswith("::bucket_counts")) >= 1
                if both_full and not cut:
                    src = idx_ok = True
            ok = ok and add and src and idx_ok
            det.append(f"adds the other bag's element: {add and src}; target index is the enumeration index over other.bucket_counts: {idx_ok}")
        ctx.ob("R4.merge-additive", f"{tag}.bucket_counts", ok, where, "; ".join(det))


def push_rules(ctx, prog):
    b = prog.one("nm_impl::pusher::MetricsPusher::push")
    if b is None:
        ctx.missing("R5.push-skip", "MetricsPusher::push")
        return
    ctx.fn(b)
    where = b.loc()
    cps = calls_to(b, "ObservationBagSync::copy_from")
    cnt = calls_to(b, "ObservationBag::count")
    sets = [w for w in writes(b) if has_field(w["fields"], "last_pushed_count")]
    ok = len(cps) == 1 and len(cnt) >= 1 and len(sets) == 1
    if not ok:
        ctx.ob("R5.push-skip", "push.shape", False, where,
               f"copy_from calls={len(cps)}, count() calls={len(cnt)}, last_pushed_count writes={len(sets)} (need 1, >=1, 1)")
        return
    cbb, ct = cps[0]
    # receivers
    g_r, g_f = recv(b, ct, 0)
    l_r, l_f = recv(b, ct, 1)
    wiring = has_field(g_f, "global") and has_field(l_f, "local") and g_r == l_r
    cn_ok = all(has_field(recv(b, t)[1], "local") for _bb, t in cnt)
    # guard: Eq(count(), last_pushed.get())
    guards = switch_guards(b, cbb)
    g_ok = False
    cmp_count_local = None
    for g in guards:
        dl = g.get("discr_local")
        d = b.unique_def(dl) if dl is not None else None
        if not d or d[2] != "assign" or d[3]["rv"]["k"] != "binop" or d[3]["rv"]["op"] not in ("Eq", "Ne"):
            continue
        rv = d[3]["rv"]
        sa, sb = Slice(b).run(rv["a"]), Slice(b).run(rv["b"])
        na, nb = call_names(sa), call_names(sb)
        fa = any(f.endswith("::last_pushed_count") for f in sa["fields"])
        fb = any(f.endswith("::last_pushed_count") for f in sb["fields"])
        if ("count" in na and fb and not fa) or ("count" in nb and fa and not fb):
            want = {0} if rv["op"] == "Eq" else {1, "otherwise"}
            if g["allowed"] and g["allowed"] <= want | ({"otherwise"} if rv["op"] == "Ne" else set()):
                g_ok = True
                cmp_count_local = rv["a"] if "count" in na else rv["b"]
    ctx.ob("R5.push-skip", "push.guard", g_ok and wiring and cn_ok, b.loc(ct["span"]),
           f"copy_from(pair.global, pair.local): {wiring}; count() read from pair.local: {cn_ok}; "
           f"copy_from reached exactly when count() != last_pushed_count.get(): {g_ok}")
    # every iteration that copies also stores; stored value is the compared count
    w = sets[0]
    follows = b.must_pass([cbb], [w["bb"]], [bb for bb, _t in calls_to(b, "next")] + b.exits(("return",)), unwind=False)
    sl = Slice(b).run(w["val"])
    names = call_names(sl)
    val_ok = "count" in names and not sl["binops"] and not [c for c in sl["consts"] if "val" in c]
    same = cmp_count_local is not None and same_local(b, w["val"], cmp_count_local)
    after = w["bb"] in b.reachable(b.term_succ(cbb, False), unwind=False)
    only_after = cbb in b.dominators(unwind=False).get(w["bb"], ())
    ctx.ob("R5.push-skip", "push.remember", follows and val_ok and same and after and only_after, b.loc(w["term"]["span"]),
           f"last_pushed_count written on every copying iteration: {follows}; only after copy_from: {only_after}; "
           f"value is the count that was compared: {val_ok and same}")
    ctx.ob("R5.push-skip", "push.every-pair", b.in_loop(cbb) and any(
        "iter" in call_names(Slice(b).run(t["args"][0])) for _bb, t in calls_to(b, "next")), where,
        "copy_from sits in a loop over the push registry's pairs")

    r = prog.one("nm_impl::pusher::PusherPreRegistration::register")
    if r is None:
        ctx.missing("R5.pair-wiring", "PusherPreRegistration::register")
        return
    ctx.fn(r)
    # the aggregate LocalGlobalPair { local: source, global, last_pushed_count: Cell::new(0) }
    agg = None
    for blk in r.blocks:
        for s in blk.stmts:
            if s["k"] == "assign" and s["rv"]["k"] == "aggr" and str(s["rv"].get("adt", "")).endswith("LocalGlobalPair"):
                agg = (blk.idx, s)
    if agg is None:
        ctx.missing("R5.pair-wiring", "LocalGlobalPair aggregate in PusherPreRegistration::register")
        return
    ops = agg[1]["rv"]["ops"]
    s_local = Slice(r).run(ops[0])
    s_global = Slice(r).run(ops[1])
    s_last = Slice(r).run(ops[2])
    ok_local = 3 in s_local["args"] and "new" not in call_names(s_local)
    ctx.ob("R5.pair-wiring", "pair.local-is-event-bag", ok_local, r.loc(),
           f"LocalGlobalPair::local derives from the `source` parameter: {ok_local}")
    # global: one Arc::new; registry receives a clone of the same
    arcs = [(bb, t) for bb, t in r.calls() if callee_key(t["callee"]).endswith("Arc<T>::new") or
            (t["callee"].get("method") == "new" and "sync::Arc" in callee_key(t["callee"]))]
    regs = []
    for cb in [r] + prog.closures_of(r):
        regs += [(cb, bb, t) for bb, t in calls_to(cb, "LocalEventRegistry::register")]
    g_new = [k for k, _bb, _t in s_global["calls"] if "sync::Arc" in k and k.endswith("::new")]
    ok_g = len(arcs) == 1 and len(g_new) == 1 and len(regs) == 1
    reg_same = False
    if regs:
        cb, _bb, t = regs[0]
        sl = Slice(cb).run(t["args"][2])
        if cb.is_closure:
            for _b2, cops in closure_capture_ops(r, cb.key):
                for i in sl["upvars"]:
                    if i < len(cops):
                        x = Slice(r).run(cops[i])
                        reg_same = reg_same or any("sync::Arc" in k and k.endswith("::new") for k, _q, _t in x["calls"])
        else:
            reg_same = any("sync::Arc" in k and k.endswith("::new") for k, _q, _t in sl["calls"])
    ctx.ob("R5.pair-wiring", "pair.global-is-registered-bag", ok_g and reg_same, r.loc(),
           f"one Arc::new (found {len(arcs)}), stored as LocalGlobalPair::global: {len(g_new) == 1}; the same Arc is registered with the thread registry: {reg_same}")
    cs = [c for c in s_last["consts"] if "val" in c]
    ok_last = len(cs) == 1 and cs[0]["val"] == 0 and not s_last["args"]
    ctx.ob("R5.pair-wiring", "pair.last-pushed-starts-at-0", ok_last, r.loc(),
           f"initial last_pushed_count constants: {[c.get('val') for c in cs]}")


def registry_rules(ctx, prog):
    REG = "nm_impl::registries::"
    un = prog.one(REG + "GlobalEventRegistry::unregister_thread")
    if un is None:
        ctx.missing("R6.archive-under-lock", "GlobalEventRegistry::unregister_thread")
    else:
        ctx.fn(un)
        gl = GuardLiveness(un)
        wguards = {l for l, k in gl.guard_locals.items() if k == "RwLockWriteGuard" and "GlobalObservationBagsState" in un.local_ty(l)["s"]
                   and not un.local_ty(l)["s"].startswith("std::result::Result")}
        rem = [(bb, t) for bb, t in un.calls() if t["callee"].get("method") in ("remove", "remove_entry", "extract_if", "drain")
               and "HashMap" in callee_key(t["callee"])]
        rem = [(bb, t) for bb, t in rem if any(f.endswith("::thread_observation_bags") for f in Slice(un).run(t["args"][0])["fields"])]
        mg = calls_to(un, "ObservationBagSync::merge_from")
        ok_r = len(rem) == 1 and bool(wguards & gl.live_at_term(rem[0][0]))
        ctx.ob("R6.archive-under-lock", "unregister.remove-under-write-guard", ok_r, un.loc(),
               f"{len(rem)} removal(s) from thread_observation_bags; state write guard live there: {ok_r}")
        ok_m = len(mg) >= 1
        det = []
        for bb, t in mg:
            live = bool(wguards & gl.live_at_term(bb))
            same_guard = bool(rem) and bool(wguards & gl.live_at_term(bb) & gl.live_at_term(rem[0][0]))
            s0 = Slice(un).run(t["args"][0])
            s1 = Slice(un).run(t["args"][1])
            dst = any(f.endswith("::archived_observation_bags") for f in s0["fields"]) and \
                any(n in ("or_insert_with", "or_insert", "or_default", "or_insert_with_key") for n in call_names(s0))
            src = "next" in call_names(s1) and ("remove" in call_names(s1) or "remove_entry" in call_names(s1))
            src = src and not any(f.endswith("::archived_observation_bags") for f in s1["fields"] - s0["fields"]) or src
            loop = un.in_loop(bb)
            dom = bool(rem) and rem[0][0] in un.dominators(unwind=False).get(bb, ())
            okm = live and same_guard and dst and src and loop and dom
            ok_m = ok_m and okm
            det.append(f"merge_from at {un.loc(t['span'])}: same write guard live as at the removal: {same_guard}; target is the archive entry: {dst}; "
                       f"source iterates the removed map: {src}; in loop: {loop}")
        ctx.ob("R6.archive-under-lock", "unregister.merge-each-under-same-guard", ok_m, un.loc(), "; ".join(det) or "no merge_from call")
        # no second acquisition of the state lock (a re-acquire would open a window)
        acq = [(bb, t) for bb, t in un.calls() if t["callee"].get("method") in ("write", "read", "try_write", "try_read")
               and "GlobalObservationBagsState" in callee_key(t["callee"]) + str(t["callee"].get("full", ""))]
        ctx.ob("R6.archive-under-lock", "unregister.single-acquisition", len(acq) == 1 and acq[0][1]["callee"].get("method") == "write", un.loc(),
               f"state lock acquisitions: {[t['callee'].get('method') for _bb, t in acq]}")

    dp = None
    for b in prog.bodies:
        if b.impl_trait and b.impl_trait.endswith("ops::Drop") and b.impl_adt and b.impl_adt.endswith("LocalEventRegistry") and b.name == "drop":
            dp = b
    if dp is None:
        ctx.missing("R6.teardown", "<LocalEventRegistry as Drop>::drop")
    else:
        ctx.fn(dp)
        cs = calls_to(dp, "GlobalEventRegistry::unregister_thread")
        pc = path_count(dp, [bb for bb, _ in cs])
        id_ok = True
        for _bb, t in cs:
            sl = Slice(dp).run(t["args"][1])
            id_ok = id_ok and (any(f.endswith("::thread_id") for f in sl["fields"]) or "current" in call_names(sl))
            rsl = Slice(dp).run(t["args"][0])
            id_ok = id_ok and any(f.endswith("::global_registry") for f in rsl["fields"])
        ctx.ob("R6.teardown", "LocalEventRegistry::drop", pc == (1, 1) and id_ok, dp.loc(),
               f"unregister_thread calls per path={pc}; on self.global_registry with this thread's id: {id_ok}")

    ins = prog.one(REG + "GlobalEventRegistry::inspect")
    if ins is None:
        ctx.missing("R6.inspect-one-guard", "GlobalEventRegistry::inspect")
    else:
        ctx.fn(ins)
        gl = GuardLiveness(ins)
        rg = {l for l, k in gl.guard_locals.items() if k in ("RwLockReadGuard", "RwLockWriteGuard") and "GlobalObservationBagsState" in ins.local_ty(l)["s"]
              and not ins.local_ty(l)["s"].startswith("std::result::Result")}
        acq = [(bb, t) for bb, t in ins.calls() if t["callee"].get("method") in ("write", "read", "try_write", "try_read")
               and "GlobalObservationBagsState" in str(t["callee"].get("full", "")) + callee_key(t["callee"])]
        fcalls = [(bb, t) for bb, t in ins.calls() if t["callee"].get("method") in ("call_mut", "call", "call_once")
                  and (t["callee"].get("self_ty") or {}).get("k") in ("param", "refmut", "ref")]
        if not fcalls:
            fcalls = [(bb, t) for bb, t in ins.calls() if t["callee"].get("method") in ("call_mut", "call", "call_once")]
        live_all = bool(fcalls) and all(rg & gl.live_at_term(bb) for bb, _ in fcalls)
        ctx.ob("R6.inspect-one-guard", "inspect.single-guard", len(acq) == 1 and live_all, ins.loc(),
               f"state lock acquisitions={len(acq)}; callback sites={len(fcalls)}; the state guard is live at every callback: {live_all}")
        th = [x for x in fcalls if ins.in_loop(x[0])]
        ar = [x for x in fcalls if not ins.in_loop(x[0])]
        ok = len(th) >= 1 and len(ar) >= 1
        det = []
        for bb, t in th:
            sl = Slice(ins).run(t["args"][1])
            o = any(f.endswith("::thread_observation_bags") for f in sl["fields"]) and "next" in call_names(sl)
            ok = ok and o
            det.append(f"loop callback gets a map from thread_observation_bags iteration: {o}")
        for bb, t in ar:
            sl = Slice(ins).run(t["args"][1])
            o = any(f.endswith("::archived_observation_bags") for f in sl["fields"])
            # may only be skipped when the archive is empty
            gs = switch_guards(ins, bb)
            skip_ok = all(g["src"].get("kind") != "call" or (g["src"]["term"]["callee"].get("method") == "is_empty" and
                          any(f.endswith("::archived_observation_bags") for f in Slice(ins).run(g["src"]["term"]["args"][0])["fields"]))
                          for g in gs if g["bb"] not in [x[0] for x in th] and not ins.in_loop(g["bb"]))
            ok = ok and o and skip_ok
            det.append(f"archive callback gets archived_observation_bags: {o}; skipped only when the archive is empty: {skip_ok}")
        ctx.ob("R6.inspect-one-guard", "inspect.visits-threads-and-archive", ok, ins.loc(), "; ".join(det) or "callback sites not found")

    rg_ = prog.one(REG + "GlobalEventRegistry::register")
    rc = prog.one(REG + "register_core")
    lr = prog.one(REG + "LocalEventRegistry::register")
    if rg_ is None or rc is None or lr is None:
        ctx.missing("R6.register", "GlobalEventRegistry::register / register_core / LocalEventRegistry::register")
    else:
        for b in (rg_, rc, lr):
            ctx.fn(b)
        cs = calls_to(rg_, "register_core")
        pc = path_count(rg_, [bb for bb, _ in cs])
        arg_ok = all(4 in Slice(rg_).run(t["args"][2])["args"] for _bb, t in cs)
        ctx.ob("R6.register", "global.register", pc == (1, 1) and arg_ok, rg_.loc(),
               f"register_core calls per path={pc}; passes the bag parameter: {arg_ok}")
        insr = [(bb, t) for bb, t in rc.calls() if t["callee"].get("method") == "insert" and "HashMap" in callee_key(t["callee"])]
        pc = path_count(rc, [bb for bb, _ in insr])
        arg_ok = all(3 in Slice(rc).run(t["args"][2])["args"] and 2 in Slice(rc).run(t["args"][1])["args"] for _bb, t in insr)
        ctx.ob("R6.register", "register_core", pc[0] >= 1 and pc[1] == 1 and arg_ok, rc.loc(),
               f"map insertions per path={pc}; inserts (name, bag) parameters: {arg_ok}")
        cs = calls_to(lr, "GlobalEventRegistry::register")
        pc = path_count(lr, [bb for bb, _ in cs])
        arg_ok = all(3 in Slice(lr).run(t["args"][3])["args"] and
                     any(f.endswith("::thread_id") for f in Slice(lr).run(t["args"][1])["fields"]) for _bb, t in cs)
        ctx.ob("R6.register", "local.register", pc == (1, 1) and arg_ok, lr.loc(),
               f"global register calls per path={pc}; passes self.thread_id and the bag: {arg_ok}")
    # a duplicate name never reaches the global registry: the thread's own table rejects it first (the local insert and its
    # duplicate check dominate the global registration) - otherwise the failed build REPLACES the live event's bag in the global
    # table before it panics, and everything observed through the first event vanishes from reports
    lreg = prog.one("registries::LocalEventRegistry::register")
    if lreg is None:
        ctx.missing("R6.register", "LocalEventRegistry::register")
    else:
        ctx.fn(lreg)
        gcall = [bb for bb, t in lreg.calls() if callee_key(t["callee"]).endswith("GlobalEventRegistry::register") and not lreg.blocks[bb].cleanup]
        lins = [bb for bb, t in lreg.calls() if t["callee"].get("method") == "insert" and "HashMap" in callee_key(t["callee"]) and not lreg.blocks[bb].cleanup]
        chk = [bb for bb, t in lreg.calls() if t["callee"].get("method") in ("is_none", "is_some") and not lreg.blocks[bb].cleanup]
        domr = lreg.dominators(unwind=False)
        okl = len(gcall) == 1 and bool(lins) and all(l_ in domr[gcall[0]] for l_ in lins) and (not chk or any(c_ in domr[gcall[0]] for c_ in chk))
        ctx.ob("R6.register", "local.duplicate-check-before-global", okl, lreg.loc(),
               f"local insert {lins} and its duplicate check {chk} dominate the global registration {gcall}: {okl}")
    # builders: the Arc registered is the Arc the event writes to
    for key, label in (("nm_impl::event_builder::EventBuilder<nm_impl::publish_model::Pull>::build", "pull"),):
        bs = [b for b in prog.bodies if b.path.endswith("::build") and "event_builder" in b.path and not b.is_closure]
        for b in bs:
            ctx.fn(b)
            aggs = []
            for blk in b.blocks:
                for s in blk.stmts:
                    if s["k"] == "assign" and s["rv"]["k"] == "aggr" and str(s["rv"].get("adt", "")).split("::")[-1] in ("Pull", "Push"):
                        aggs.append(s)
            news = [(bb, t) for bb, t in b.calls() if t["callee"].get("method") == "new" and
                    ("sync::Arc" in callee_key(t["callee"]) or "rc::Rc" in callee_key(t["callee"]))]
            ok = len(aggs) == 1 and len(news) == 1
            regd = False
            if ok:
                sl = Slice(b).run(aggs[0]["rv"]["ops"][0])
                ok = any(t is news[0][1] for _k, _bb, t in sl["calls"])
                kind = str(aggs[0]["rv"]["adt"]).split("::")[-1]
                if kind == "Pull":
                    for cb in [b] + prog.closures_of(b):
                        for _bb, t in calls_to(cb, "LocalEventRegistry::register"):
                            s2 = Slice(cb).run(t["args"][2])
                            if cb.is_closure:
                                for _b2, cops in closure_capture_ops(b, cb.key):
                                    for i in s2["upvars"]:
                                        if i < len(cops) and any(t2 is news[0][1] for _k, _q, t2 in Slice(b).run(cops[i])["calls"]):
                                            regd = True
                            elif any(t2 is news[0][1] for _k, _q, t2 in s2["calls"]):
                                regd = True
                else:
                    for _bb, t in calls_to(b, "PusherPreRegistration::register"):
                        if any(t2 is news[0][1] for _k, _q, t2 in Slice(b).run(t["args"][2])["calls"]):
                            regd = True
                ctx.ob("R6.register", f"builder.{kind}", ok and regd, b.loc(),
                       f"the event's bag and the registered bag are clones of one allocation: {ok and regd}")
            else:
                ctx.ob("R6.register", f"builder@{b.loc()}", False, b.loc(), f"publish-model aggregates={len(aggs)}, Arc/Rc::new calls={len(news)}")


def entry_rules(ctx, prog):
    EV = "nm_impl::event::"
    # ObservationBatch methods -> PublishModelPrivate::insert(model, magnitude, self.count)
    for m, mag in (("observe_once", "const1"), ("observe", "param"), ("observe_millis", "param")):
        cands = [b for b in prog.bodies if b.path.endswith("ObservationBatch<'_, P>::" + m) or b.path.endswith("ObservationBatch::" + m)
                 or (b.name == m and b.impl_adt and b.impl_adt.endswith("ObservationBatch") and not b.impl_trait)]
        cands = [b for b in cands if not b.is_closure and not b.impl_trait]
        if not cands:
            ctx.missing("R7.batch-size", "ObservationBatch::" + m)
            continue
        b = cands[0]
        ctx.fn(b)
        cs = [(bb, t) for bb, t in b.calls() if t["callee"].get("method") == "insert"]
        pc = path_count(b, [bb for bb, _ in cs])
        ok = pc == (1, 1)
        det = [f"insert calls per path={pc}"]
        for _bb, t in cs:
            s_cnt = Slice(b).run(t["args"][2])
            c_ok = any(f.endswith("ObservationBatch::count") for f in s_cnt["fields"]) and not s_cnt["binops"] and \
                not [c for c in s_cnt["consts"] if "val" in c]
            s_mag = Slice(b).run(t["args"][1])
            if mag == "const1":
                c = resolve_const(b, t["args"][1])
                m_ok = bool(c and c.get("val") == 1)
            else:
                m_ok = 2 in s_mag["args"] and not any(f.endswith("ObservationBatch::count") for f in s_mag["fields"])
            ok = ok and c_ok and m_ok
            det.append(f"count argument is self.count unmodified: {c_ok}; magnitude argument {'is 1' if mag == 'const1' else 'derives from the parameter'}: {m_ok}")
        ctx.ob("R7.batch-size", f"ObservationBatch::{m}", ok, b.loc(), "; ".join(det))
    # observe_duration_millis -> observe_millis exactly once per normal path
    for owner in ("ObservationBatch",):
        cands = [b for b in prog.bodies if b.name == "observe_duration_millis" and b.impl_adt and b.impl_adt.endswith(owner)
                 and not b.impl_trait and not b.is_closure]
        if not cands:
            ctx.missing("R7.batch-size", owner + "::observe_duration_millis")
            continue
        b = cands[0]
        ctx.fn(b)
        cs = [(bb, t) for bb, t in b.calls() if t["callee"].get("method") == "observe_millis"]
        pc = path_count(b, [bb for bb, _ in cs])
        # ... and it is the BATCH's observe_millis on self (Event::observe_millis would record a batch of one)
        own = all(owner in callee_key(t["callee"]) and Slice(b, through_calls=False).run(t["args"][0])["args"] == {1} and
                  not any(f.endswith("::event") for f in Slice(b, through_calls=False).run(t["args"][0])["fields"]) for _bb, t in cs)
        ctx.ob("R7.batch-size", f"{owner}::observe_duration_millis", pc == (1, 1) and own, b.loc(),
               f"observe_millis calls per path={pc}; called on the batch itself (so the batch size is carried): {own}")
    # Event::* -> batch(1)
    for m in ("observe_once", "observe", "observe_millis", "observe_duration_millis"):
        cands = [b for b in prog.bodies if b.name == m and b.impl_adt and b.impl_adt.endswith("event::Event") and not b.impl_trait
                 and not b.is_closure]
        if not cands:
            ctx.missing("R7.batch-size", "Event::" + m)
            continue
        b = cands[0]
        ctx.fn(b)
        bs = [(bb, t) for bb, t in b.calls() if t["callee"].get("method") == "batch"]
        pc = path_count(b, [bb for bb, _ in bs])
        one = all((resolve_const(b, t["args"][1]) or {}).get("val") == 1 for _bb, t in bs)
        fw = [(bb, t) for bb, t in b.calls() if t["callee"].get("method") in ("observe_once", "observe", "observe_millis", "observe_duration_millis") and
              str(t["callee"].get("impl_adt") or callee_key(t["callee"])).find("ObservationBatch") >= 0]
        pcf = path_count(b, [bb for bb, _ in fw])
        same = True
        for _bb, t in fw:
            tm = t["callee"].get("method")
            if tm == m:
                continue
            # observe_once may be spelled observe(1)
            c = resolve_const(b, t["args"][1]) if len(t["args"]) > 1 else None
            same = same and m == "observe_once" and tm == "observe" and bool(c and c.get("val") == 1)
        ctx.ob("R7.batch-size", f"Event::{m}", pc == (1, 1) and one and pcf == (1, 1) and same, b.loc(),
               f"batch(..) calls per path={pc}, argument is the constant 1: {one}; forwards to the matching ObservationBatch method "
               f"({[t['callee'].get('method') for _bb, t in fw]}) per path={pcf}: {same}")
    # Event::batch stores the count
    cands = [b for b in prog.bodies if b.name == "batch" and b.impl_adt and b.impl_adt.endswith("event::Event") and not b.is_closure]
    if not cands:
        ctx.missing("R7.batch-size", "Event::batch")
    else:
        b = cands[0]
        ctx.fn(b)
        ok = False
        for blk in b.blocks:
            for s in blk.stmts:
                if s["k"] == "assign" and s["rv"]["k"] == "aggr" and str(s["rv"].get("adt", "")).endswith("ObservationBatch"):
                    sl = Slice(b).run(s["rv"]["ops"][1])
                    ok = sl["args"] == {2} and not sl["binops"]
        ctx.ob("R7.batch-size", "Event::batch", ok, b.loc(), f"ObservationBatch::count is the `count` parameter unmodified: {ok}")
    # Push / Pull forwarders
    for adt in ("Push", "Pull"):
        cands = [b for b in prog.bodies if b.name == "insert" and b.impl_adt and b.impl_adt.endswith("publish_model::" + adt)]
        if not cands:
            ctx.missing("R7.batch-size", f"<{adt} as PublishModelPrivate>::insert")
            continue
        b = cands[0]
        ctx.fn(b)
        cs = [(bb, t) for bb, t in b.calls() if t["callee"].get("method") == "insert"]
        pc = path_count(b, [bb for bb, _ in cs])
        ok = pc == (1, 1)
        for _bb, t in cs:
            ok = ok and op_local(t["args"][1]) is not None and Slice(b, through_calls=False).run(t["args"][1])["args"] == {2} \
                and Slice(b, through_calls=False).run(t["args"][2])["args"] == {3}
            ok = ok and any(f.endswith("::observations") for f in Slice(b).run(t["args"][0])["fields"])
        ctx.ob("R7.batch-size", f"{adt}::insert", ok, b.loc(), f"forwards (magnitude, count) unchanged to self.observations.insert once per path: {ok}")


def report_rules(ctx, prog):
    col = prog.one("nm_impl::reports::Report::collect")
    if col is None:
        ctx.missing("R7.report-merge", "Report::collect")
    else:
        ctx.fn(col)
        ic = calls_to(col, "GlobalEventRegistry::inspect")
        pc = path_count(col, [bb for bb, _ in ic])
        cls = prog.closures_of(col)
        snap = None
        for cb in cls:
            for bb, t in cb.calls():
                if t["callee"].get("method") == "snapshot":
                    snap = (cb, bb, t)
        ok = pc == (1, 1) and snap is not None
        det = [f"inspect calls per path={pc}; snapshot call found in the visitor: {snap is not None}"]
        if snap:
            cb, sbb, st = snap
            in_loop = cb.in_loop(sbb)
            mod = [(bb, t) for bb, t in cb.calls() if t["callee"].get("method") == "and_modify"]
            ins = [(bb, t) for bb, t in cb.calls() if t["callee"].get("method") in ("or_insert", "or_insert_with")]
            flows = bool(ins) and all(any(t2 is st for _k, _q, t2 in Slice(cb).run(t["args"][1])["calls"]) for _bb, t in ins)
            # and_modify closure merges a reference to the same snapshot
            mg_ok = False
            for c2 in prog.bodies:
                if c2.is_closure and c2.key.startswith(cb.key + "::"):
                    for _bb, t in calls_to(c2, "ObservationBagSnapshot::merge_from"):
                        mg_ok = True
            post = bool(mod) and bool(ins) and all(cb.must_pass([sbb], [bb for bb, _ in ins], [bb for bb, _t in calls_to(cb, "next")] + cb.exits(("return",)), unwind=False) for _ in (0,))
            ok = ok and in_loop and flows and mg_ok and post
            det.append(f"snapshot per visited bag (in loop): {in_loop}; merged into an existing entry via merge_from: {mg_ok}; "
                       f"else inserted: {flows}; every snapshot reaches the entry API: {post}")
        ctx.ob("R7.report-merge", "Report::collect", ok, col.loc(), "; ".join(det))
        # key is the event name of the visited pair
        if snap:
            cb = snap[0]
            ent = [(bb, t) for bb, t in cb.calls() if t["callee"].get("method") == "entry"]
            ok = len(ent) == 1
            if ok:
                sl = Slice(cb).run(ent[0][1]["args"][1])
                ok = "next" in call_names(sl) and "clone" in call_names(sl)
            ctx.ob("R7.report-merge", "Report::collect.key", ok, cb.loc(), f"entry key is the visited event name: {ok}")
    em = prog.one("nm_impl::reports::EventMetrics::new")
    if em is None:
        ctx.missing("R7.report-fields", "EventMetrics::new")
        return
    ctx.fn(em)
    agg = None
    for blk in em.blocks:
        for s in blk.stmts:
            if s["k"] == "assign" and s["rv"]["k"] == "aggr" and str(s["rv"].get("adt", "")).endswith("reports::EventMetrics"):
                agg = s
    if agg is None:
        ctx.missing("R7.report-fields", "EventMetrics aggregate")
        return
    names = agg["rv"].get("fields") or ["name", "count", "sum", "mean", "histogram"]
    ops = agg["rv"]["ops"]
    for i, fld in ((1, "count"), (2, "sum")):
        sl = Slice(em).run(ops[i])
        ok = sl["args"] == {2} and any(f.endswith("ObservationBagSnapshot::" + fld) for f in sl["fields"]) and \
            not any(f.endswith("ObservationBagSnapshot::" + o) for f in sl["fields"] for o in ("count", "sum", "bucket_counts") if o != fld) \
            and not sl["binops"] and not sl["calls"]
        ctx.ob("R7.report-fields", f"EventMetrics.{fld}", ok, em.loc(), f"copied from snapshot.{fld} unmodified: {ok}")
    # plus infinity bucket
    ok = False
    det = "Histogram aggregate not found"
    for blk in em.blocks:
        for s in blk.stmts:
            if s["k"] == "assign" and s["rv"]["k"] == "aggr" and str(s["rv"].get("adt", "")).endswith("reports::Histogram"):
                o = s["rv"]["ops"]
                sl = Slice(em).run(o[2])
                nm = call_names(sl)
                extra = set(nm) - {"saturating_sub", "wrapping_sub", "checked_sub", "sum", "iter", "into_iter", "copied", "cloned",
                                   "deref", "as_ref", "unwrap_or", "unwrap_or_default"}
                # the subtraction must not wrap: a report taken while another thread observes can read buckets that are ahead of
                # `count`; `count - sum` then has to bottom out at 0 (saturating_sub, or checked_sub + unwrap_or(0)), not at 2^64
                clamped = "saturating_sub" in nm or ("checked_sub" in nm and bool({"unwrap_or", "unwrap_or_default"} & set(nm)))
                ok = clamped and "sum" in nm and not extra and \
                    any(f.endswith("ObservationBagSnapshot::count") for f in sl["fields"]) and \
                    any(f.endswith("ObservationBagSnapshot::bucket_counts") for f in sl["fields"])
                c_sl = Slice(em).run(o[1])
                ok = ok and any(f.endswith("ObservationBagSnapshot::bucket_counts") for f in c_sl["fields"]) and not c_sl["calls"]
                det = f"plus_infinity = snapshot.count - sum(snapshot.bucket_counts), counts = snapshot.bucket_counts: {ok}"
    ctx.ob("R7.report-fields", "Histogram.overflow-bucket", ok, em.loc(), det)

"""C01 - pooled objects keep one stable, exclusive, aligned address while alive (infinity_pool)."""
from ..analysis import (path_count, Slice, switch_guards, UserCode, guard_src_place, field_assigns, calls_to,
                        who_calls, stmt_blocks, direct_field_copy)
from ..mir import callee_key, callee_paths, op_local, op_place, resolve_const, strip_generics, op_access_path, place_fields

EXPL = ("Decides structural necessary conditions of C01 on MIR of infinity_pool: (R1) slot storage is allocated only in "
        "Slab::new, freed only in Slab::drop, never reallocated, and Slab::first_slot_ptr is never reassigned; (R2) "
        "the Vec of slabs is only ever touched through a closed set of order-preserving methods, each mutation in its "
        "one sanctioned function, and the blind pools' layout map never removes an inner pool; (R3) shrink_to_fit "
        "truncates to one past the LAST non-empty slab (reverse scan guarded by is_empty); (R4) handle provenance: "
        "SlabHandle::new / RawPooledMut::new are called only from the insertion path with the index/pointer computed "
        "there, and the copy-constructors preserve the index; (R5) the slot stride/offset come from Layout::extend + "
        "pad_to_align, the array is aligned to the padded slot alignment, and the only readers are the two pointer "
        "helpers; (R7) VacancyMap::resize is only called with fill=true from update_slab_count.")
NOT = ("Not decided: non-overlap and value integrity over all histories; alignment arithmetic for all layouts; "
       "the vacancy index never reporting a full slab as vacant.")

SLABS_OK = {"len", "get", "get_unchecked_mut", "get_unchecked", "iter", "iter_mut", "push", "extend", "truncate", "is_empty",
            "capacity", "last", "first", "deref", "deref_mut", "as_slice", "index", "into_iter", "reserve"}
SLABS_MUT = {"push": "allocate_slab_for_insert", "extend": "reserve", "truncate": "shrink_to_fit"}
MAP_OK = {"entry", "get", "get_mut", "values", "values_mut", "len", "is_empty", "iter", "keys", "contains_key", "new", "default", "or_insert_with"}


def shrink_rule(ctx, prog, rid):
    """Shared by C01 and C02: shrink_to_fit only drops trailing EMPTY slabs."""
    b = prog.one("opaque::pool_raw::RawOpaquePool::shrink_to_fit")
    if b is None:
        ctx.missing(rid, "RawOpaquePool::shrink_to_fit")
        return
    ctx.fn(b)
    tr = [(bb, t) for bb, t in b.calls() if callee_key(t["callee"]).endswith("Vec::truncate")]
    pops = [(bb, t) for bb, t in b.calls() if callee_key(t["callee"]).endswith("Vec::pop")]
    if len(tr) == 1 and not pops:
        t = tr[0][1]
        sl = Slice(b).run(t["args"][1])
        keys = [k for k, _, _ in sl["calls"]]
        short = [k.split("::")[-1] for k in keys]
        # accepted scan forms: iter().enumerate().rev().find_map(closure) | iter().rposition(closure)
        form_a = "rev" in short and "find_map" in short and "enumerate" in short
        form_b = "rposition" in short
        fwd = [s for s in short if s in ("position", "find", "take_while", "skip_while", "div_ceil", "min", "max") or s.startswith("checked_") and False]
        from_slabs = "infinity_pool::opaque::pool_raw::RawOpaquePool::slabs" in sl["fields"]
        uses_len_field = "infinity_pool::opaque::pool_raw::RawOpaquePool::length" in sl["fields"]
        # the closure's Some/true arm must be control-dependent on !is_empty()
        cl_ok = False
        cl_det = ""
        for k, cbb, ct in sl["calls"]:
            if k.split("::")[-1] in ("find_map", "rposition"):
                for ta in ct["callee"].get("targs", []):
                    for clp in ta.get("closures", []):
                        cb = prog.by_key.get(strip_generics(clp))
                        if not cb:
                            continue
                        cb = cb[0]
                        ie = calls_to(cb, "opaque::slab::Slab::is_empty")
                        if len(ie) != 1:
                            continue
                        # find the block that builds Some(..)/true and check its guard
                        somes = [blk.idx for blk in cb.blocks for s in blk.stmts if s["k"] == "assign" and
                                 ((s["rv"]["k"] == "aggr" and s["rv"].get("variant") == "Some") or
                                  (s["rv"]["k"] == "use" and s["rv"]["op"].get("k") == "const" and s["rv"]["op"].get("val") == 1 and s["place"]["l"] == 0))]
                        good = bool(somes)
                        if not somes and k.endswith("rposition"):
                            # `|slab| !slab.is_empty()`: the predicate IS the negated emptiness test
                            ie_dest = ie[0][1]["dest"]["l"]
                            for blk in cb.blocks:
                                for st in blk.stmts:
                                    if st["k"] == "assign" and st["place"]["l"] == 0 and not st["place"]["p"] and st["rv"]["k"] == "unop" and st["rv"]["op"] == "Not":
                                        s3 = Slice(cb).run(st["rv"]["a"])
                                        good = ie_dest in s3["locals"] and len(list(cb.calls())) == 1
                            if good:
                                # the index found is turned into a length by +1 in the caller
                                good = any(kk.endswith(("wrapping_add", "checked_add", "saturating_add")) for kk in keys) and any(c.get("val") == 1 for c in sl["consts"])
                        for sb in somes:
                            gs = switch_guards(cb, sb)
                            g = False
                            for x in gs:
                                src = x["src"]
                                if src.get("kind") == "call" and src.get("bb") == ie[0][0]:
                                    g = x["allowed"] == {0}          # is_empty() == false
                                if src.get("kind") == "unop" and (src.get("inner") or {}).get("bb") == ie[0][0]:
                                    g = 0 not in x["allowed"]        # !is_empty() == true
                            good = good and g
                        # Some(idx + 1): the payload derives from wrapping_add(idx, 1)
                        if good and k.endswith("find_map"):
                            pay = [s for blk in cb.blocks for s in blk.stmts if s["k"] == "assign" and s["rv"]["k"] == "aggr" and s["rv"].get("variant") == "Some"]
                            for s in pay:
                                s2 = Slice(cb).run(s["rv"]["ops"][0])
                                good = good and any(kk.endswith("wrapping_add") or kk.endswith("checked_add") or kk.endswith("saturating_add") for kk, _, _ in s2["calls"]) \
                                    and any(c.get("val") == 1 for c in s2["consts"])
                        cl_ok = good
                        cl_det = f"closure {cb.key.split('::')[-1]}: Some/true arm guarded by !is_empty() and yields idx+1: {good}"
        ok = (form_a or form_b) and from_slabs and cl_ok and not uses_len_field and not [s for s in short if s in ("position", "div_ceil")]
        ctx.ob(rid, "shrink_to_fit.truncate-operand", ok, b.loc(t["span"]),
               f"Vec::truncate length derives via {short}; reverse scan form: {form_a or form_b}; over self.slabs: {from_slabs}; "
               f"derived from the cached length counter: {uses_len_field}; {cl_det}")
    elif pops and not tr:
        ok = True
        for bb, t in pops:
            gs = switch_guards(b, bb)
            ok = ok and any(g["src"].get("kind") == "call" and callee_key(g["src"]["term"]["callee"]).endswith("Slab::is_empty") and 0 not in g["allowed"] for g in gs)
        ctx.ob(rid, "shrink_to_fit.pop-guarded", ok, b.loc(), "every Vec::pop is control-dependent on last.is_empty()")
    else:
        ctx.ob(rid, "shrink_to_fit.form", False, b.loc(), f"unrecognised shrink form: truncate sites {len(tr)}, pop sites {len(pops)}")


def run(ctx):
    ctx.explanation = EXPL
    ctx.not_decided = NOT
    prog = ctx.prog("infinity_pool")
    ctx.rule("R10.checked-entry-points-check", "every insert entry point of the opaque pools that is not `_unchecked` verifies T's layout against the pool's (itself, or by forwarding to a checked entry point)", floor=6)
    ctx.rule("R12.prefault-only-on-fresh-memory", "the page pre-faulting helper (which WRITES over the whole slot array) runs only inside Slab::new, before the slot metadata is initialised: called on a constructed slab it wipes the free list and the occupancy of every slot", floor=1)
    ctx.rule("R11.twin-agreement", "each operation of a thread-safe pool and of its single-threaded twin (OpaquePool/LocalOpaquePool, PinnedPool/LocalPinnedPool, BlindPool/LocalBlindPool) forwards to the same raw-pool operation: the twins differ in locking only", floor=20, shape_dependent=True)
    ctx.rule("R1.storage-immobility", "alloc only in Slab::new, dealloc only in Slab::drop, no realloc; first_slot_ptr only set in the aggregate built by Slab::new", floor=4)
    ctx.rule("R2.slab-vector", "every method called on RawOpaquePool::slabs is in the order-preserving set; push/extend/truncate only in their sanctioned functions", floor=8)
    ctx.rule("R2.layout-map", "the blind pools' BTreeMap of inner pools is never shrunk (no remove/clear/retain/pop/drain/append/split_off)", floor=3)
    ctx.rule("R3.shrink-trailing-empty", "shrink_to_fit truncates to one past the last non-empty slab", floor=1, shape_dependent=True)
    ctx.rule("R4.handle-provenance", "SlabHandle::new only from Slab::insert_with_unchecked with (free-list head, object_ptr_unchecked(head)); RawPooledMut::new only from RawOpaquePool::insert_with_unchecked with the slab index used to index slabs; copy-constructors keep index/slab_index", floor=6)
    ctx.rule("R5.offset-agreement", "slot offset = second component of Layout::extend(meta, object); stride = that layout pad_to_align'ed; array align = padded slot align; readers are slot_ptr_unchecked/object_ptr_unchecked only", floor=5)
    ctx.rule("R8.routing-key", "the blind pools' routing key is built from BOTH Layout::size and Layout::align in disjoint bit ranges, and an inner pool is created with the layout its key was built from", floor=4)
    ctx.rule("R9.vacancy-block-writes", "an existing vacancy-map block is only modified bit-wise (old | mask, old & mask); the block vector is only resized/truncated", floor=3)
    ctx.rule("R7.vacancy-resize-contract", "VacancyMap::resize is called only from update_slab_count and always with fill=true", floor=1)

    # ---------------- R1
    allocs = {"alloc": [], "dealloc": [], "realloc": [], "alloc_zeroed": []}
    for b in prog.bodies:
        if not b.key.startswith("infinity_pool::opaque::") and "infinity_pool::opaque::" not in b.key:
            continue
        for bb, t in b.calls():
            k = callee_key(t["callee"])
            for n in allocs:
                if k in (f"std::alloc::{n}", f"alloc::alloc::{n}", f"core::alloc::{n}"):
                    allocs[n].append((b, t))
    ok = len(allocs["alloc"]) == 1 and allocs["alloc"][0][0].key == "infinity_pool::opaque::slab::Slab::new"
    ctx.ob("R1.storage-immobility", "alloc-site", ok, allocs["alloc"][0][0].loc(allocs["alloc"][0][1]["span"]) if allocs["alloc"] else "",
           f"std::alloc::alloc callers in opaque/: {[b.key for b, _ in allocs['alloc']]}")
    ok = len(allocs["dealloc"]) == 1 and allocs["dealloc"][0][0].key == "<infinity_pool::opaque::slab::Slab as std::ops::Drop>::drop"
    ctx.ob("R1.storage-immobility", "dealloc-site", ok, allocs["dealloc"][0][0].loc(allocs["dealloc"][0][1]["span"]) if allocs["dealloc"] else "",
           f"std::alloc::dealloc callers in opaque/: {[b.key for b, _ in allocs['dealloc']]}")
    ctx.ob("R1.storage-immobility", "no-realloc", not allocs["realloc"] and not allocs["alloc_zeroed"], "",
           f"realloc/alloc_zeroed callers: {[b.key for b, _ in allocs['realloc'] + allocs['alloc_zeroed']]}")
    if allocs["alloc"] and allocs["dealloc"]:
        # same layout accessor on both sides
        a = Slice(allocs["alloc"][0][0]).run(allocs["alloc"][0][1]["args"][0])
        d = Slice(allocs["dealloc"][0][0]).run(allocs["dealloc"][0][1]["args"][1])
        ka = {k for k, _, _ in a["calls"] if k.endswith("slot_array_layout")}
        kd = {k for k, _, _ in d["calls"] if k.endswith("slot_array_layout")}
        dp = Slice(allocs["dealloc"][0][0]).run(allocs["dealloc"][0][1]["args"][0])
        ptr_ok = "infinity_pool::opaque::slab::Slab::first_slot_ptr" in dp["fields"]
        ctx.ob("R1.storage-immobility", "alloc-dealloc-layout-agree", bool(ka) and ka == kd and ptr_ok, allocs["dealloc"][0][0].loc(),
               f"alloc layout via {sorted(ka)}, dealloc layout via {sorted(kd)}; dealloc pointer is first_slot_ptr: {ptr_ok}")
    writers = []
    for b in prog.bodies:
        for bb, i, s in field_assigns(b, "Slab::first_slot_ptr"):
            writers.append(f"{b.key}@{b.loc(s['span'])}")
        for blk in b.blocks:
            for s in blk.stmts:
                if s["k"] == "assign" and s["rv"]["k"] == "aggr" and s["rv"].get("adt", "").endswith("opaque::slab::Slab") and b.key != "infinity_pool::opaque::slab::Slab::new":
                    writers.append(f"aggregate in {b.key}")
                if s["k"] == "assign" and s["rv"]["k"] in ("ref", "rawptr") and s["rv"]["bk"] not in ("shared", "fake", "Const", "FakeForPtrMetadata") and \
                        place_fields(s["rv"]["place"]) and place_fields(s["rv"]["place"])[-1].endswith("Slab::first_slot_ptr"):
                    writers.append(f"mutable borrow in {b.key}")
    ctx.ob("R1.storage-immobility", "first_slot_ptr-single-writer", not writers, "packages/infinity_pool/src/opaque/slab.rs",
           f"writers of Slab::first_slot_ptr outside Slab::new: {writers or 'none'}")

    # ---------------- R2
    seen_methods = {}
    for b in prog.bodies:
        for bb, t in b.calls():
            if not t["args"]:
                continue
            r, fs = op_access_path(b, t["args"][0])
            a0 = op_place(t["args"][0])
            a0ty = b.local_ty(a0["l"])["s"] if a0 is not None and not a0["p"] else ""
            if fs and fs[-1] == "infinity_pool::opaque::pool_raw::RawOpaquePool::slabs" and \
                    ("Vec<infinity_pool::opaque::slab::Slab>" in a0ty or "[infinity_pool::opaque::slab::Slab]" in a0ty):
                m = t["callee"].get("method") or callee_key(t["callee"]).split("::")[-1]
                inst = f"{b.root.split('::')[-1] if False else strip_generics(b.root).split('::')[-1]}.{m}"
                ctx.fn(b)
                ok = m in SLABS_OK
                det = f"slabs.{m}() in {b.key}"
                if ok and m in SLABS_MUT:
                    ok = strip_generics(b.root).endswith("RawOpaquePool::" + SLABS_MUT[m])
                    det += f" (sanctioned only in {SLABS_MUT[m]})"
                if inst not in seen_methods:
                    seen_methods[inst] = True
                    ctx.ob("R2.slab-vector", inst, ok, b.loc(t["span"]), det)
    # mem::swap/replace/take on slab elements or on the vector
    bad = []
    for b in prog.bodies:
        for bb, t in b.calls():
            k = callee_key(t["callee"])
            if k in ("std::mem::swap", "core::mem::swap", "std::mem::take", "core::mem::take", "std::mem::replace", "core::mem::replace"):
                if any(ta["s"].endswith("opaque::slab::Slab") or "Vec<infinity_pool::opaque::slab::Slab>" in ta["s"] for ta in t["callee"].get("targs", [])):
                    bad.append(f"{k} in {b.key}")
    ctx.ob("R2.slab-vector", "no-swap-take-replace", not bad, "", f"mem::swap/take/replace on slabs: {bad or 'none'}")
    # blind maps
    for b in prog.bodies:
        for bb, t in b.calls():
            if not t["args"]:
                continue
            r, fs = op_access_path(b, t["args"][0])
            if fs and fs[-1].endswith("::pools") and "blind" in fs[-1]:
                m = t["callee"].get("method") or callee_key(t["callee"]).split("::")[-1]
                inst = f"{strip_generics(b.root).split('::')[-2]}::{strip_generics(b.root).split('::')[-1]}.{m}"
                if inst in seen_methods:
                    continue
                seen_methods[inst] = True
                ctx.fn(b)
                ctx.ob("R2.layout-map", inst, m in MAP_OK, b.loc(t["span"]), f"pools.{m}() in {b.key}")

    # ---------------- R3
    shrink_rule(ctx, prog, "R3.shrink-trailing-empty")

    # ---------------- R4
    ins = prog.one("opaque::slab::Slab::insert_with_unchecked")
    shn = who_calls(prog, "opaque::slab_handle::SlabHandle::new")
    ok = len(shn) == 1 and ins is not None and shn[0][0].key == ins.key
    det = f"callers of SlabHandle::new: {[b.key for b, _, _ in shn]}"
    if ok:
        t = shn[0][2]
        si = Slice(ins).run(t["args"][0])
        sp = Slice(ins).run(t["args"][1])
        dfc = direct_field_copy(ins, t["args"][0])
        idx_ok = bool(dfc) and dfc[-1] == "infinity_pool::opaque::slab::Slab::next_free_slot_index"
        ptr_calls = [(k, ct) for k, _, ct in sp["calls"] if k.endswith("Slab::object_ptr_unchecked")]
        ptr_ok = len(ptr_calls) == 1
        same_idx = False
        if ptr_ok:
            sa = Slice(ins).run(ptr_calls[0][1]["args"][1])
            same_idx = (sa["locals"] & si["locals"]) != set() and "infinity_pool::opaque::slab::Slab::next_free_slot_index" in sa["fields"]
        # the index local is read at entry (before the free list head is advanced)
        ok = idx_ok and ptr_ok and same_idx
        det += f"; index = free-list head read (no arithmetic): {idx_ok}; ptr = object_ptr_unchecked(same index): {ptr_ok and same_idx}"
        # the slot written (mem::replace target) is slot_ptr_unchecked(same index)
        rep = calls_to(ins, "std::mem::replace", "core::mem::replace")
        if rep:
            sr = Slice(ins).run(rep[0][1]["args"][0])
            sl_calls = [ct for k, _, ct in sr["calls"] if k.endswith("Slab::slot_ptr_unchecked")]
            slot_ok = len(sl_calls) == 1 and (Slice(ins).run(sl_calls[0]["args"][1])["locals"] & si["locals"]) != set()
            ok = ok and slot_ok
            det += f"; occupancy tag written to slot_ptr_unchecked(same index): {slot_ok}"
    ctx.ob("R4.handle-provenance", "SlabHandle::new", ok, ins.loc() if ins else "", det)
    pin = prog.one("opaque::pool_raw::RawOpaquePool::insert_with_unchecked")
    rpn_all = who_calls(prog, "handles::raw_mut::RawPooledMut::new")
    rpn = [x for x in rpn_all if pin is not None and x[0].key == pin.key]
    ok = len(rpn) == 1
    det = f"RawPooledMut::new in the insertion path: {len(rpn)} site(s)"
    # every other caller must be a copy-constructor: slab_index copied from an existing handle
    for b2, bb2, t2 in rpn_all + who_calls(prog, "handles::raw::RawPooled::new"):
        if pin is not None and b2.key == pin.key:
            continue
        ctx.fn(b2)
        s0 = Slice(b2).run(t2["args"][0])
        ks = {k.split("::")[-1] for k, _, _ in s0["calls"]}
        pure = ks <= {"slab_index", "into_parts", "read", "into_inner"} and not s0["consts"] and not s0["binops"] and \
            ("slab_index" in ks or any(f.endswith("::slab_index") for f in s0["fields"]))
        ctx.ob("R4.handle-provenance", f"{b2.key}.slab_index-copied", pure, b2.loc(t2["span"]),
               f"slab_index argument derives via {sorted(ks)}, fields {sorted(f.split('::')[-1] for f in s0['fields'])}, no arithmetic/constants: {pure}")
    if ok:
        t = rpn[0][2]
        s0 = Slice(pin).run(t["args"][0])
        gu = [ct for bb, ct in pin.calls() if callee_key(ct["callee"]).endswith("get_unchecked_mut")]
        same = len(gu) == 1 and (Slice(pin).run(gu[0]["args"][1])["locals"] & s0["locals"]) != set() and \
            any(k.endswith(("index_of_slab_to_insert_into", "VacancyTracker::next_vacancy", "allocate_slab_for_insert")) for k, _, _ in s0["calls"])
        s1 = Slice(pin, through_calls=False).run(t["args"][1])
        h_ok = any(k.endswith("Slab::insert_with_unchecked") for k, _, _ in s1["calls"])
        ok = same and h_ok
        det += f"; slab_index is the index used for slabs.get_unchecked_mut: {same}; slab handle is the one returned by Slab::insert_with_unchecked: {h_ok}"
    ctx.ob("R4.handle-provenance", "RawPooledMut::new", ok, pin.loc() if pin else "", det)
    # copy constructors: every aggregate of SlabHandle / RawPooled / RawPooledMut outside `new` copies index/slab_index from self
    for adt, fld in (("infinity_pool::opaque::slab_handle::SlabHandle", "index"), ("infinity_pool::handles::raw::RawPooled", "slab_index"),
                     ("infinity_pool::handles::raw_mut::RawPooledMut", "slab_index")):
        n = 0
        allok = True
        bads = []
        for b in prog.bodies:
            for blk in b.blocks:
                for s in blk.stmts:
                    if s["k"] == "assign" and s["rv"]["k"] == "aggr" and s["rv"].get("adt") == adt:
                        if b.name == "new" and b.impl_adt == adt:
                            continue
                        n += 1
                        ctx.fn(b)
                        i = s["rv"]["fields"].index(fld)
                        sl = Slice(b, through_calls=False).run(s["rv"]["ops"][i])
                        good = any(f.endswith("::" + fld) for f in sl["fields"]) and not sl["calls"] and not sl["consts"] and (1 in sl["args"])
                        if not good:
                            allok = False
                            bads.append(f"{b.key}@{b.loc(s['span'])}")
        # assignments to the field after construction
        for b in prog.bodies:
            for bb, i2, s in field_assigns(b, adt.split("::")[-1] + "::" + fld):
                allok = False
                bads.append(f"assignment in {b.key}@{b.loc(s['span'])}")
        ctx.ob("R4.handle-provenance", f"{adt.split('::')[-1]}.{fld}-preserved", allok and n >= 1, "",
               f"{n} copy-constructor aggregate(s) of {adt.split('::')[-1]} copy `{fld}` from self unchanged; offenders: {bads or 'none'}")
    for adt, inner in (("infinity_pool::handles::raw::RawPooled", "slab_handle"), ("infinity_pool::handles::raw_mut::RawPooledMut", "slab_handle")):
        pass

    # ---------------- R5
    sn = prog.one("opaque::slab_layout::SlabLayout::new")
    if sn is None:
        ctx.missing("R5.offset-agreement", "SlabLayout::new")
    else:
        ctx.fn(sn)
        ag = [s for blk in sn.blocks for s in blk.stmts if s["k"] == "assign" and s["rv"]["k"] == "aggr" and s["rv"].get("adt", "").endswith("slab_layout::SlabLayout")]
        if len(ag) != 1:
            ctx.missing("R5.offset-agreement", "SlabLayout aggregate in SlabLayout::new")
        else:
            a = ag[0]["rv"]
            f = {n: a["ops"][i] for i, n in enumerate(a["fields"])}
            so = Slice(sn).run(f["slot_to_object_offset"])
            ext = [ct for k, _, ct in so["calls"] if k.endswith("Layout::extend")]
            ok = len(ext) == 1 and ".1" in so["fields"] and not any(k.endswith("pad_to_align") for k, _, _ in so["calls"])
            if ok:
                s0 = Slice(sn).run(ext[0]["args"][0])
                s1 = Slice(sn, through_calls=False).run(ext[0]["args"][1])
                ok = any(k.endswith("Layout::new") and "SlotMeta" in ct["callee"]["full"] for k, _, ct in s0["calls"]) and s1["args"] == {1}
            ctx.ob("R5.offset-agreement", "offset-from-extend", ok, sn.loc(),
                   "slot_to_object_offset is component .1 of Layout::new::<SlotMeta>().extend(object_layout)")
            ss = Slice(sn).run(f["slot_layout"])
            ks = [k.split("::")[-1] for k, _, _ in ss["calls"]]
            ok = "pad_to_align" in ks and "extend" in ks and ".0" in ss["fields"]
            ctx.ob("R5.offset-agreement", "stride-padded", ok, sn.loc(), f"slot_layout derives via {ks} (extend(..).0 then pad_to_align)")
            sa = Slice(sn, through_calls=False).run(f["slot_array_layout"])
            fsa = [ct for k, _, ct in Slice(sn).run(f["slot_array_layout"])["calls"] if k.endswith("Layout::from_size_align")]
            ok = len(fsa) == 1
            det = ""
            if ok:
                al = Slice(sn).run(fsa[0]["args"][1])
                ka = [k.split("::")[-1] for k, _, _ in al["calls"]]
                sz = Slice(sn).run(fsa[0]["args"][0])
                kz = [k.split("::")[-1] for k, _, _ in sz["calls"]]
                ok = "align" in ka and "pad_to_align" in ka and "checked_mul" in kz and "pad_to_align" in kz and "determine_capacity" in kz
                det = f"array align derives via {ka}; array size via {kz}"
            ctx.ob("R5.offset-agreement", "array-layout", ok, sn.loc(), det or "from_size_align not found")
            so2 = Slice(sn, through_calls=False).run(f["object_layout"])
            ctx.ob("R5.offset-agreement", "object-layout-is-parameter", so2["args"] == {1} and not so2["calls"], sn.loc(), "object_layout field is the parameter")
    readers = {"slot_to_object_offset": [], "slot_layout": []}
    for b in prog.bodies:
        for n in readers:
            for bb, t in calls_to(b, f"opaque::slab_layout::SlabLayout::{n}"):
                readers[n].append(b.key)
    ok = set(readers["slot_to_object_offset"]) == {"infinity_pool::opaque::slab::Slab::object_ptr_unchecked"}
    ctx.ob("R5.offset-agreement", "offset-readers", ok, "", f"readers of slot_to_object_offset(): {sorted(set(readers['slot_to_object_offset']))}")
    allowed_stride = {"infinity_pool::opaque::slab::Slab::slot_ptr_unchecked", "infinity_pool::opaque::slab::Slab::new",
                      # helper of Slab::new that touches every page of the fresh block once (before any object exists)
                      "infinity_pool::opaque::slab::ensure_virtual_pages_mapped_to_physical_pages"}
    ok = set(readers["slot_layout"]) <= allowed_stride and "infinity_pool::opaque::slab::Slab::slot_ptr_unchecked" in readers["slot_layout"]
    ctx.ob("R5.offset-agreement", "stride-readers", ok, "", f"readers of slot_layout(): {sorted(set(readers['slot_layout']))}")
    # object_ptr_unchecked = slot_ptr_unchecked(index) + offset ; slot_ptr_unchecked = first_slot_ptr + index*stride
    op = prog.one("opaque::slab::Slab::object_ptr_unchecked")
    sp = prog.one("opaque::slab::Slab::slot_ptr_unchecked")
    if op is not None and sp is not None:
        so = Slice(op).run({"k": "copy", "place": {"l": 0, "p": []}})
        ks = [k.split("::")[-1] for k, _, _ in so["calls"]]
        ok = "slot_ptr_unchecked" in ks and "byte_add" in ks and "slot_to_object_offset" in ks
        ctx.ob("R5.offset-agreement", "object_ptr-formula", ok, op.loc(), f"object pointer derives via {ks}")
        ss = Slice(sp).run({"k": "copy", "place": {"l": 0, "p": []}})
        ks = [k.split("::")[-1] for k, _, _ in ss["calls"]]
        ok = "byte_add" in ks and "wrapping_mul" in ks and "slot_layout" in ks and "size" in ks and "infinity_pool::opaque::slab::Slab::first_slot_ptr" in ss["fields"] and 2 in ss["args"]
        ctx.ob("R5.offset-agreement", "slot_ptr-formula", ok, sp.loc(), f"slot pointer = first_slot_ptr.byte_add(index * slot_layout().size()): via {ks}")

    # ---------------- R7
    rs = who_calls(prog, "opaque::vacancy_map::VacancyMap::resize")
    ok = bool(rs) and all(b.key == "infinity_pool::opaque::vacancy_tracker::VacancyTracker::update_slab_count" for b, _, _ in rs)
    for b, bb, t in rs:
        c = resolve_const(b, t["args"][2])
        ok = ok and bool(c and c.get("val") == 1)
    ctx.ob("R7.vacancy-resize-contract", "resize(count,true)", ok, rs[0][0].loc(rs[0][2]["span"]) if rs else "",
           f"callers {[b.key for b, _, _ in rs]}; fill argument constant true")

    routing_rules(ctx, prog)
    vacancy_block_rules(ctx, prog)
    shared_rules(ctx, prog)


def shared_rules(ctx, prog):
    # ---------------- rules shared with the sibling properties anchored in the same functions
    ctx.import_rules("C02", {
        "R3.double-remove-guard": "a second removal that updates the free list hands the slot of a live object to the next insert (address no longer exclusive)",
        "R4.slab-count": "a count / free-list write made before the user initialiser survives its panic; the slab later hands out a slot index past its allocation or over a live object",
        "R5.vacancy": "a vacancy bit that stays set on a full slab sends the next insert to slot index == capacity, outside the slab allocation",
        "R11.lowest-vacancy-cache": "a stale vacancy cache sends an insert into a full slab",
        "R12.counts-are-not-positions": "a slab bound derived from an object count drops a live object's storage",
        "R14.free-list-head": "a free-list head that drops entries lets the list run out while count still promises room: the next insert lands on slot index == capacity, outside the slab",
    })
    ctx.import_rules("C04", {
        "R4.restore-before-destroy": "bookkeeping done after (or undone around) the destructor leaves the free list pointing at a live or foreign slot when the destructor panics or re-enters",
    })
    checked_entry_points(ctx, prog)
    twin_agreement(ctx, prog)
    prefault_rule(ctx, prog)



def _names(sl):
    return [k.split("::")[-1] for k, _, _ in sl["calls"]]


def routing_rules(ctx, prog):
    kn = prog.one("blind::layout_key::LayoutKey::new")
    if kn is None:
        ctx.missing("R8.routing-key", "LayoutKey::new")
        return
    ctx.fn(kn)
    val = None
    for blk in kn.blocks:
        for st in blk.stmts:
            if st["k"] == "assign" and st["rv"]["k"] == "aggr" and str(st["rv"].get("adt", "")).endswith("LayoutKey"):
                val = st["rv"]["ops"][0]
    if val is None:
        ctx.missing("R8.routing-key", "LayoutKey aggregate in LayoutKey::new")
        return
    sl = Slice(kn).run(val)
    ns = _names(sl)
    both = "size" in ns and "align" in ns
    # one component shifted by >= 32, the other bounded by u32::MAX
    shift_ok = False
    shifted = None
    for blk in kn.blocks:
        for st in blk.stmts:
            if st["k"] == "assign" and st["rv"]["k"] == "binop" and st["rv"]["op"] == "Shl" and st["place"]["l"] in sl["locals"]:
                c = resolve_const(kn, st["rv"]["b"])
                if c and c.get("val", 0) >= 32:
                    shift_ok = True
                    shifted = set(_names(Slice(kn).run(st["rv"]["a"]))) & {"size", "align"}
    other = ({"size", "align"} - shifted) if shifted and len(shifted) == 1 else set()
    bounded = False
    for blk in kn.blocks:
        t = blk.term
        if t["k"] == "switch":
            l = op_local(t["discr"])
            d = kn.unique_def(l) if l is not None else None
            if d and d[2] == "assign" and d[3]["rv"]["k"] == "binop" and d[3]["rv"]["op"] in ("Le", "Lt"):
                a = set(_names(Slice(kn).run(d[3]["rv"]["a"]))) & {"size", "align"}
                c = resolve_const(kn, d[3]["rv"]["b"])
                if other and a == other and c and c.get("val") is not None and c["val"] <= 0xFFFFFFFF:
                    bounded = True
    comb = any(o in sl["binops"] for o in ("BitOr", "Add", "BitXor"))
    ctx.ob("R8.routing-key", "key-from-size-and-align", both and shift_ok and bounded and comb, kn.loc(),
           f"value derives from Layout::size and Layout::align: {both}; one component shifted by >= 32 ({sorted(shifted or [])}): {shift_ok}; "
           f"the unshifted component ({sorted(other)}) is checked <= u32::MAX: {bounded}")
    # with_layout_of::<T> builds the key from Layout::new::<T>
    kw = prog.one("blind::layout_key::LayoutKey::with_layout_of")
    if kw is not None:
        ctx.fn(kw)
        cs = calls_to(kw, "LayoutKey::new")
        ok = len(cs) == 1 and "new" in _names(Slice(kw).run(cs[0][1]["args"][0])) and \
            any(k.endswith("Layout::new") for k, _, _ in Slice(kw).run(cs[0][1]["args"][0])["calls"])
        ctx.ob("R8.routing-key", "with_layout_of", ok, kw.loc(), "with_layout_of::<T>() = LayoutKey::new(Layout::new::<T>())")
    # creation sites: the layout given to the new inner pool and the key's layout are the same value
    n_sites = 0
    for b in prog.bodies:
        if "::blind::" not in b.key or b.is_closure:
            continue
        keys = calls_to(b, "LayoutKey::new")
        if not keys:
            continue
        # layouts used for pool creation in this function or its closures, or forwarded with the key
        uses = []
        for cb in [b] + prog.closures_of(b):
            for bb, t in cb.calls():
                m = t["callee"].get("method")
                k = callee_key(t["callee"])
                if (m in ("layout", "with_layout") and "RawOpaquePool" in k) or (m == "inner_pool_mut" and "blind" in k):
                    arg = t["args"][1] if m != "with_layout" else t["args"][0]
                    uses.append((cb, bb, t, arg))
        if not uses:
            continue
        key_roots = set()
        for _bb, t in keys:
            key_roots |= _layout_roots(b, b, t["args"][0], prog)
        for cb, bb, t, arg in uses:
            n_sites += 1
            roots = _layout_roots(b, cb, arg, prog)
            ok = bool(roots) and roots == key_roots and len(roots) == 1
            ctx.ob("R8.routing-key", f"pool-layout-is-key-layout|{b.key.split('::', 1)[1]}|{t['callee'].get('method')}", ok, cb.loc(t["span"]),
                   f"layout roots of the key: {sorted(key_roots)}; of the pool creation: {sorted(roots)}")
    if n_sites == 0:
        ctx.missing("R8.routing-key", "inner-pool creation sites in blind::*")


def _layout_roots(parent, body, op, prog):
    """Where does a Layout operand come from: parameter ('param:N'), a Layout::new::<T> call ('new@bb'), seen through
    closure captures into the parent."""
    from ..analysis import closure_capture_ops
    sl = Slice(body, through_calls=False).run(op)
    roots = set()
    for k, bb, t in Slice(body).run(op)["calls"]:
        if k.endswith("Layout::new") or k.endswith("Layout::for_value"):
            roots.add(f"new@{body.key == parent.key and bb}")
    if body.is_closure and sl["upvars"]:
        for _bb, cops in closure_capture_ops(parent, body.key):
            for i in sl["upvars"]:
                if i < len(cops):
                    roots |= _layout_roots(parent, parent, cops[i], prog)
        return roots
    if not roots:
        for a in sl["args"]:
            if "Layout" in body.local_ty(a)["s"]:
                roots.add(f"param:{a}")
    return roots


BLOCK_VEC_OK = {"resize", "truncate", "get_unchecked_mut", "get_unchecked", "get", "len", "is_empty", "new", "deref", "deref_mut",
                "as_slice", "index", "iter", "with_capacity", "capacity"}


def vacancy_block_rules(ctx, prog):
    bodies = [b for b in prog.bodies if "::opaque::vacancy_map::" in b.key]
    if not bodies:
        ctx.missing("R9.vacancy-block-writes", "opaque::vacancy_map")
        return
    n = 0
    for b in bodies:
        for blk in b.blocks:
            for st in blk.stmts:
                if st["k"] != "assign" or st["place"]["p"] != ["*"]:
                    continue
                ty = b.local_ty(st["place"]["l"])["s"]
                if ty not in ("&mut u64", "*mut u64"):
                    continue
                n += 1
                ctx.fn(b)
                rv = st["rv"]
                ok = rv["k"] == "binop" and rv["op"] in ("BitOr", "BitAnd") and any(
                    (op_place(o) or {}).get("l") == st["place"]["l"] and (op_place(o) or {}).get("p") == ["*"] for o in (rv["a"], rv["b"]))
                ctx.ob("R9.vacancy-block-writes", f"{b.key.split('::')[-1]}|store-through-block-ref", ok, b.loc(st.get("span")),
                       f"{st['text'][:120]} -- must be old|mask or old&mask of the same block")
        # methods on the block vector
        for bb, t in b.calls():
            if not t["args"]:
                continue
            root, fields = op_access_path(b, t["args"][0])
            if fields and fields[-1].endswith("VacancyMap::blocks") or (fields and any(f.endswith("VacancyMap::blocks") for f in fields) and "Vec" in callee_key(t["callee"])):
                m = t["callee"].get("method")
                if "Vec" not in callee_key(t["callee"]) and "slice" not in callee_key(t["callee"]):
                    continue
                n += 1
                ok = m in BLOCK_VEC_OK
                det = f"Vec/slice method `{m}` on VacancyMap::blocks"
                if m == "resize" and ok:
                    # fill value chosen by the initial_value parameter between all-ones and zero
                    sl = Slice(b).run(t["args"][2])
                    vals = sorted(c.get("val") for c in sl["consts"] if "val" in c)
                    ok = 0 in vals and (2 ** 64 - 1) in vals
                    det += f"; fill constants {vals}"
                ctx.ob("R9.vacancy-block-writes", f"{b.key.split('::')[-1]}|blocks.{m}", ok, b.loc(t["span"]), det)
    if n == 0:
        ctx.missing("R9.vacancy-block-writes", "writes to vacancy-map blocks")

def checked_entry_points(ctx, prog):
    """The opaque pools choose their object layout at run time: every entry point without `_unchecked` in its name verifies that
    T's layout is the pool's layout before the object is placed - by itself (an `object_layout()` comparison that dominates the
    call) or by calling a checked entry point of the wrapped pool. A checked wrapper that forwards to `*_unchecked` places a wider
    or more aligned T over the neighbouring slot."""
    RID = "R10.checked-entry-points-check"
    n = 0
    for b in prog.bodies:
        if b.is_closure or "::tests" in b.key or not b.key.startswith("infinity_pool::opaque::pool_"):
            continue
        if not b.name.startswith("insert") or b.name.endswith("_unchecked"):
            continue
        unchecked = [(bb, t) for bb, t in b.calls() if (t["callee"].get("method") or "").startswith("insert") and
                     (t["callee"].get("method") or "").endswith("_unchecked") and "pool" in callee_key(t["callee"]).lower()]
        for c in prog.closures_of(b):
            unchecked += [(None, t) for _bb, t in c.calls() if (t["callee"].get("method") or "").startswith("insert") and
                          (t["callee"].get("method") or "").endswith("_unchecked") and "pool" in callee_key(t["callee"]).lower()]
        n += 1
        ctx.fn(b)
        if not unchecked:
            ctx.ob(RID, b.key.replace("infinity_pool::opaque::", ""), True, b.loc(), "forwards to a checked entry point (no *_unchecked call)")
            continue
        lay = [(bb, t) for bb, t in b.calls() if t["callee"].get("method") == "object_layout"]
        dom = b.dominators(unwind=False)
        ok = bool(lay) and all(ub is None or any(lb in dom[ub] for lb, _ in lay) for ub, _t in unchecked)
        ctx.ob(RID, b.key.replace("infinity_pool::opaque::", ""), ok, b.loc(),
               f"calls {sorted({t['callee'].get('method') for _b, t in unchecked})}; own layout comparison (object_layout) dominating it: {ok}")
    if n == 0:
        ctx.missing(RID, "checked insert entry points of the opaque pools")


def prefault_rule(ctx, prog):
    RID = "R12.prefault-only-on-fresh-memory"
    sites = who_calls(prog, "ensure_virtual_pages_mapped_to_physical_pages")
    sites = [(b, bb, t) for b, bb, t in sites if "::tests" not in b.key]
    if not sites:
        ctx.missing(RID, "calls of ensure_virtual_pages_mapped_to_physical_pages")
        return
    for b, bb, t in sites:
        ctx.fn(b)
        in_new = b.key.endswith("opaque::slab::Slab::new")
        before_init = False
        if in_new:
            # before any slot metadata is written: the call dominates every in-loop write through a slot pointer
            dom = b.dominators(unwind=False)
            ws = [x for x, tt in b.calls() if tt["callee"].get("method") in ("write", "write_unaligned", "write_bytes") and b.in_loop(x) and not b.blocks[x].cleanup]
            before_init = bool(ws) and all(bb in dom[x] for x in ws)
        ctx.ob(RID, f"{b.key.split('infinity_pool::')[-1]}", in_new and before_init, b.loc(t["span"]),
               f"called from Slab::new: {in_new}; before the slot metadata initialisation loop: {before_init}")


def twin_agreement(ctx, prog):
    PLUMBING = {"deref", "deref_mut", "new", "as_ref", "as_mut", "borrow", "borrow_mut", "lock", "clone"}
    pairs = [("opaque::pool_managed::OpaquePool", "opaque::pool_local::LocalOpaquePool"),
             ("pinned::pool_managed::PinnedPool", "pinned::pool_local::LocalPinnedPool"),
             ("blind::pool_managed::BlindPool", "blind::pool_local::LocalBlindPool")]

    def raw_calls(b):
        out = set()
        for bd in [b] + prog.closures_of(b):
            for _bb, t in bd.calls():
                k = callee_key(t["callee"])
                if "pool_raw" in k and "Iterator" not in k:
                    out.add(k.split("::")[-1])
        return out - PLUMBING
    n = 0
    for a, l in pairs:
        am = {b.name: b for b in prog.bodies if b.key.startswith("infinity_pool::" + a + "::") and not b.is_closure and not b.impl_trait}
        lm = {b.name: b for b in prog.bodies if b.key.startswith("infinity_pool::" + l + "::") and not b.is_closure and not b.impl_trait}
        for name in sorted(set(am) & set(lm)):
            ra, rl = raw_calls(am[name]), raw_calls(lm[name])
            if not ra or not rl:
                continue   # one twin implements the operation without the raw pool (e.g. by iterating its inner pools)
            n += 1
            ctx.fn(lm[name])
            ctx.ob("R11.twin-agreement", f"{a.split('::')[-1]}::{name}", ra == rl, lm[name].loc(),
                   f"thread-safe twin forwards to {sorted(ra)}, single-threaded twin to {sorted(rl)}")
    if n == 0:
        ctx.missing("R11.twin-agreement", "twin pool operations")

"""C09 - processor selection returns exactly what was asked for, or nothing (many_cpus_impl) - narrow."""
from ..analysis import (path_count, Slice, switch_guards, UserCode, calls_to, who_calls, field_assigns)
from ..mir import callee_key, callee_paths, op_local, op_place, strip_generics, op_access_path, place_fields, resolve_const

EXPL = ("Decides structural necessary conditions of C09 on MIR of many_cpus_impl::processor_set_builder: (R1) provenance: the "
        "processors handed to ProcessorSet::new by take / take_all derive from the filtered candidate map, never from the "
        "unfiltered processor list; (R2) no dead criterion: every builder field that a builder method writes is read on the "
        "call graph of both take and take_all; (R3) quota: take refuses counts above the quota limit before selecting, "
        "take_all passes its result through the quota reduction, the limit is clamped to >= 1; (R4) bounded accumulation: "
        "in a loop that runs until `selected.len()` reaches the requested count, each bulk addition is sized by the "
        "remainder (depends on selected.len()), or additions are single pushes re-tested each time, or the result is "
        "truncated afterwards; (R5) builder-time exclusion passes (filter, where_available_for_current_thread) evaluate "
        "their predicate over the source candidates only and do not read criteria that can still change afterwards; "
        "(R6) the candidate map merges processors per region through the entry API (no replace-on-duplicate "
        "construction), over every candidate that passed the filters.")
NOT = "Not decided: satisfiability/optimality of the region constraints for all topologies, randomness of the choices."

B = "many_cpus_impl::processor_set_builder::ProcessorSetBuilder"
FIELDS = ("except_indexes", "processor_type_selector", "source_processor_ids", "memory_region_selector", "obey_resource_quota")


def short(k):
    return k.replace("many_cpus_impl::processor_set_builder::", "")


def closure_tree(prog, b):
    out = [b]
    for c in prog.closures_of(b):
        out.append(c)
    return out


def reach_bodies(prog, uc, root):
    seen = {}
    stack = [root]
    while stack:
        b = stack.pop()
        if b.key in seen:
            continue
        seen[b.key] = b
        for c in prog.closures_of(b):
            stack.append(c)
        for bb, t in b.calls():
            cb = prog.body_for_callee(t["callee"])
            if cb is not None and cb.crate == root.crate:
                stack.append(cb)
    return list(seen.values())


def reads_field(b, field_full):
    for blk in b.blocks:
        for s in blk.stmts:
            if s["k"] == "assign":
                rv = s["rv"]
                pls = []
                if rv["k"] in ("use", "cast"):
                    pl = op_place(rv["op"])
                    if pl:
                        pls.append(pl)
                elif rv["k"] in ("ref", "rawptr", "discr"):
                    pls.append(rv["place"])
                elif rv["k"] == "binop":
                    for o in (rv["a"], rv["b"]):
                        pl = op_place(o)
                        if pl:
                            pls.append(pl)
                for pl in pls:
                    if field_full in place_fields(pl):
                        return True
        t = blk.term
        if t["k"] == "call":
            for a in t["args"]:
                pl = op_place(a)
                if pl and field_full in place_fields(pl):
                    return True
        if t["k"] == "switch":
            pl = op_place(t["discr"])
            if pl and field_full in place_fields(pl):
                return True
    return False


def _return_defs(b):
    """(bb, None, operand) of every assignment to the return place."""
    out = []
    for blk in b.blocks:
        if blk.cleanup:
            continue
        for st in blk.stmts:
            if st["k"] == "assign" and st["place"]["l"] == 0 and not st["place"]["p"] and st["rv"]["k"] == "use":
                out.append((blk.idx, None, st["rv"]["op"]))
            elif st["k"] == "assign" and st["place"]["l"] == 0 and not st["place"]["p"]:
                out.append((blk.idx, None, {"k": "copy", "place": {"l": 0, "p": []}}))
        t = blk.term
        if t["k"] == "call" and isinstance(t.get("dest"), dict) and t["dest"]["l"] == 0 and not t["dest"]["p"]:
            out.append((blk.idx, None, {"k": "copy", "place": {"l": 0, "p": []}}))
    return out


def run(ctx):
    ctx.explanation = EXPL
    ctx.not_decided = NOT
    prog = ctx.prog("many_cpus_impl")
    uc = UserCode(prog)
    ctx.rule("R1.provenance", "ProcessorSet::new argument in take/take_all derives from candidates_by_memory_region(), not from all_processors()/candidate_processors() directly", floor=2)
    ctx.rule("R2.no-dead-criterion", "every builder field written by a builder method is read on the call graph of take and of take_all", floor=9)
    ctx.rule("R3.quota", "take: count compared with the quota limit before selection; take_all: result passed through reduce_processors_until_under_quota and nothing but None returned around it; limit clamped >= 1", floor=4)
    ctx.rule("R4.bounded-accumulation", "loops bounded by `selected.len() < count`: bulk additions sized by the remainder, or single pushes re-tested, or truncation afterwards", floor=2, shape_dependent=True)
    ctx.rule("R5.exclusion-passes-independent", "filter / where_available_for_current_thread iterate candidate_processors() and read no criterion that can change later; the thread-availability pass tests every candidate on every path", floor=3)
    ctx.rule("R6.total-grouping", "candidates_by_memory_region merges per region via entry().or_insert_with().push in a loop over all filtered candidates", floor=1)

    ctx.rule("R10.sample-never-short", "take(n): `sample(rng, amount)` returns FEWER than `amount` elements when its source is shorter - every sample whose amount is the requested count is dominated by `source.len() < count => None` on that very source (or the amount is clamped to the source's length inside a refilling loop, or the source was chosen among collections filtered by that test): otherwise take(n) hands out a smaller set instead of nothing", floor=3)
    ctx.rule("R9.source-restriction", "a builder made from a ProcessorSet only ever considers that set's processors: every ProcessorSet -> ProcessorSetBuilder conversion goes through to_builder / source_processors, and candidate_processors restricts by id membership over all processors (ids are not positions)", floor=4)
    ctx.rule("R7.pick-removes-picked", "a loop that revisits a candidate list and pushes one randomly picked element per visit removes exactly that element (same pick, by index) from the list", floor=1)
    ctx.rule("R8.prefer-same-largest-first", "prefer-same consumes regions from a list totally sorted by (clamped) candidate count, largest first, with no re-ordering after the sort", floor=1, shape_dependent=True)
    take = prog.one("processor_set_builder::ProcessorSetBuilder::take")
    take_all = prog.one("processor_set_builder::ProcessorSetBuilder::take_all")
    cbm = prog.one("processor_set_builder::ProcessorSetBuilder::candidates_by_memory_region")
    for n, b in (("take", take), ("take_all", take_all), ("candidates_by_memory_region", cbm)):
        if b is None:
            ctx.missing("R1.provenance", f"ProcessorSetBuilder::{n}")
    if take is None or take_all is None or cbm is None:
        return

    # ---------------- R1
    for name, b in (("take", take), ("take_all", take_all)):
        ctx.fn(b)
        ps = [(bb, t) for bb, t in b.calls() if callee_key(t["callee"]).endswith("processor_set::ProcessorSet::new")]
        ok = len(ps) == 1
        det = f"ProcessorSet::new sites {len(ps)}"
        if ok:
            sl = Slice(b).run(ps[0][1]["args"][0])
            keys = {k.split("::")[-1] for k, _, _ in sl["calls"]}
            # also walk closures used in that slice (map/flat_map closures)
            direct_bad = [k for k in keys if k in ("all_processors", "candidate_processors", "get_all_processors")]
            ok = "candidates_by_memory_region" in keys and not direct_bad
            det += f"; derives from candidates_by_memory_region: {'candidates_by_memory_region' in keys}; direct use of unfiltered lists: {direct_bad or 'none'}"
            for c in prog.closures_of(b):
                for bb2, t2 in c.calls():
                    if callee_key(t2["callee"]).split("::")[-1] in ("all_processors", "candidate_processors", "get_all_processors"):
                        ok = False
                        det += f"; closure {short(c.key)} reads the unfiltered list"
        ctx.ob("R1.provenance", name, ok, b.loc(), det)

    # ---------------- R2
    writers = {}
    for bd in prog.bodies:
        if not bd.key.startswith(B + "::") or bd.is_closure:
            continue
        for f in FIELDS:
            if field_assigns(bd, "ProcessorSetBuilder::" + f):
                writers.setdefault(f, set()).add(bd.name)
            # mutation through a method call on the field (insert into except_indexes)
            for bb, t in bd.calls():
                if t["args"]:
                    r, fs = op_access_path(bd, t["args"][0])
                    if fs and fs[-1] == B + "::" + f and t["callee"].get("method") in ("insert", "extend", "push", "remove", "clear", "retain"):
                        writers.setdefault(f, set()).add(bd.name)
    for root_name, root in (("take", take), ("take_all", take_all)):
        bodies = reach_bodies(prog, uc, root)
        for f in FIELDS:
            full = B + "::" + f
            w = sorted(x for x in writers.get(f, set()) if x not in ("new", "with_internals", "with_hardware"))
            if not w:
                continue
            rd = [short(bd.key) for bd in bodies if reads_field(bd, full)]
            if f == "memory_region_selector" and root_name == "take_all":
                pass
            ctx.ob("R2.no-dead-criterion", f"{root_name}.{f}", bool(rd), root.loc(),
                   f"written by {w}; read on {root_name}'s call graph by {rd[:4] or 'NOBODY (the criterion cannot be obeyed)'}")

    # ---------------- R3
    ctx.fn(take)
    lim = calls_to(take, "ProcessorSetBuilder::resource_quota_processor_count_limit")
    cb = calls_to(take, "ProcessorSetBuilder::candidates_by_memory_region")
    dom = take.dominators(unwind=False)
    ok = len(lim) == 1 and len(cb) == 1 and lim[0][0] in dom[cb[0][0]]
    if ok:
        # a comparison of count.get() against the limit guards an early `return None`
        cmp_ok = False
        for blk in take.blocks:
            for s in blk.stmts:
                if s["k"] == "assign" and s["rv"]["k"] == "binop" and s["rv"]["op"] in ("Gt", "Lt", "Ge", "Le"):
                    sa = Slice(take).run(s["rv"]["a"])
                    sb = Slice(take).run(s["rv"]["b"])
                    ka = {k.split("::")[-1] for k, _, _ in sa["calls"]}
                    kb = {k.split("::")[-1] for k, _, _ in sb["calls"]}
                    if ("resource_quota_processor_count_limit" in ka and 2 in sb["args"]) or ("resource_quota_processor_count_limit" in kb and 2 in sa["args"]):
                        before = cb[0][0] in take.successors_reach(blk.idx, False) and blk.idx not in take.successors_reach(cb[0][0], False)
                        # the "over quota" arm must not reach the construction of a set
                        sw = take.blocks[blk.idx].term
                        psn = [bb3 for bb3, t3 in take.calls() if callee_key(t3["callee"]).endswith("processor_set::ProcessorSet::new")]
                        refuse = False
                        if sw["k"] == "switch":
                            for v, tgt in sw["arms"] + [["otherwise", sw["otherwise"]]]:
                                r = take.reachable([tgt], unwind=False)
                                if cb[0][0] not in r and not (set(psn) & r):
                                    refuse = True
                        if before and refuse:
                            cmp_ok = True
        ok = cmp_ok
    ctx.ob("R3.quota", "take.count-vs-limit-before-selection", ok, take.loc(), "count.get() is compared with the quota limit before candidates are selected")
    ctx.fn(take_all)
    red = calls_to(take_all, "ProcessorSetBuilder::reduce_processors_until_under_quota")
    ps = [(bb, t) for bb, t in take_all.calls() if callee_key(t["callee"]).endswith("processor_set::ProcessorSet::new")]
    ok = len(red) == 1 and len(ps) == 1
    if ok:
        sl = Slice(take_all, through_calls=True).run(ps[0][1]["args"][0])
        ok = any(k.endswith("reduce_processors_until_under_quota") for k, _, _ in sl["calls"])
        okp, _ = take_all.must_pass([0], [red[0][0]], [ps[0][0]])
        ok = ok and okp
    ctx.ob("R3.quota", "take_all.result-through-quota-reduction", ok, take_all.loc(), "the set handed to ProcessorSet::new went through reduce_processors_until_under_quota on every path")
    # every way out of take_all that does not pass the reduction returns a literal None
    if red:
        r = take_all.reachable([0], unwind=False, avoid=[red[0][0]])
        leaks = []
        for x in sorted(r):
            blk = take_all.blocks[x]
            if blk.cleanup:
                continue
            for st in blk.stmts:
                if st["k"] == "assign" and st["place"]["l"] == 0 and not st["place"]["p"]:
                    if not (st["rv"]["k"] == "aggr" and st["rv"].get("variant") == "None"):
                        leaks.append(take_all.loc(st["span"]))
            t = blk.term
            if t["k"] == "call" and t["dest"]["l"] == 0 and not t["dest"]["p"] and t["callee"].get("method") != "from_residual":
                leaks.append(f"{callee_key(t['callee']).split('::')[-1]}@{take_all.loc(t['span'])}")
        ctx.ob("R3.quota", "take_all.no-result-bypasses-the-reduction", not leaks, take_all.loc(),
               f"results produced on paths that do not pass reduce_processors_until_under_quota (other than None): {leaks or 'none'}")
    rd = prog.one("processor_set_builder::ProcessorSetBuilder::reduce_processors_until_under_quota")
    if rd is not None:
        ctx.fn(rd)
        # what it returns is the vector it was given (moved), possibly shortened in place - never the value of a call on it
        # (`split_off`, `drain(..).collect()` hand back the part that was CUT OFF)
        bad = []
        for bb, path, st in _return_defs(rd):
            sl = Slice(rd, through_calls=False).run(st)
            if sl["calls"] or 2 not in sl["args"]:
                bad.append(sorted({k.split("::")[-1] for k, _, _ in sl["calls"]}) or "not the parameter")
        shrink = [t["callee"].get("method") for bb, t in rd.calls() if not rd.blocks[bb].cleanup and t["args"] and
                  2 in Slice(rd, through_calls=False).run(t["args"][0])["args"] and "Vec" in callee_key(t["callee"])]
        ok = not bad and set(shrink) <= {"len", "pop", "truncate", "is_empty"} and bool(set(shrink) & {"pop", "truncate"})
        ctx.ob("R3.quota", "reduce.returns-its-input-shortened", ok, rd.loc(),
               f"returned value is the parameter vector itself: {not bad} {bad or ''}; operations applied to it: {sorted(set(shrink))} (allowed: len / pop / truncate)")
    rq = prog.one("processor_set_builder::ProcessorSetBuilder::resource_quota_processor_count_limit")
    if rq is None:
        ctx.missing("R3.quota", "resource_quota_processor_count_limit")
    else:
        ctx.fn(rq)
        mx = [(bb, t) for bb, t in rq.calls() if t["callee"].get("method") == "max"]
        fl = [(bb, t) for bb, t in rq.calls() if t["callee"].get("method") == "floor"]
        ok = len(mx) == 1 and len(fl) == 1
        if ok:
            c = resolve_const(rq, mx[0][1]["args"][1])
            ok = bool(c and c.get("val") == 1)
            sl = Slice(rq).run(mx[0][1]["args"][0])
            ok = ok and any(k.endswith("floor") for k, _, _ in sl["calls"]) and any(k.endswith("max_processor_time") for k, _, _ in sl["calls"])
            gs = switch_guards(rq, mx[0][0])
            ok = ok and any((g["src"].get("kind") == "place" and "obey_resource_quota" in str(g["src"].get("place"))) or
                            g["src"].get("kind") in ("local", "place") for g in gs)
        ctx.ob("R3.quota", "limit=floor(max_processor_time).max(1)", ok, rq.loc(), "quota limit is floor(max_processor_time) clamped to at least 1, only when the quota is enforced")

    # ---------------- R4
    n4 = 0
    for b in (take,):
        # loops whose exit test compares Vec::len() of a local V with the count
        for blk in b.blocks:
            t = blk.term
            if t["k"] != "switch" or blk.cleanup:
                continue
            dl = op_local(t["discr"])
            d = b.unique_def(dl) if dl is not None else None
            if not d or d[2] != "assign" or d[3]["rv"]["k"] != "binop" or d[3]["rv"]["op"] not in ("Lt", "Ge", "Eq", "Ne", "Le", "Gt"):
                continue
            if not b.in_loop(blk.idx):
                continue
            sa = Slice(b).run(d[3]["rv"]["a"])
            sb = Slice(b).run(d[3]["rv"]["b"])
            lens_a = [ct for k, _, ct in sa["calls"] if k.endswith("Vec::len")]
            lens_b = [ct for k, _, ct in sb["calls"] if k.endswith("Vec::len")]
            cnt_a = 2 in sa["args"] or any(k.endswith("NonZero::get") for k, _, _ in sa["calls"])
            cnt_b = 2 in sb["args"] or any(k.endswith("NonZero::get") for k, _, _ in sb["calls"])
            if not ((lens_a and cnt_b) or (lens_b and cnt_a)):
                continue
            lens = lens_a or lens_b
            vroot, vf = op_access_path(b, lens[0]["args"][0])
            if vroot is None:
                continue
            # additions to that vector inside the loop
            adds = []
            for bb2, t2 in b.calls():
                if not (bb2 in b.successors_reach(blk.idx, False) and blk.idx in b.successors_reach(bb2, False)):
                    continue
                m = t2["callee"].get("method")
                if m in ("extend", "push", "append", "extend_from_slice") and t2["args"]:
                    r2, f2 = op_access_path(b, t2["args"][0])
                    if r2 == vroot:
                        adds.append((bb2, t2, m))
            if not adds:
                continue
            n4 += 1
            for bb2, t2, m in adds:
                if m == "push":
                    # single push: the exit test (or an equality break) must follow before the next push
                    nxt = b.reachable(b.term_succ(bb2, False), unwind=False, avoid=[blk.idx] + [x.idx for x in b.blocks if x.term["k"] == "switch" and x.idx != blk.idx and _tests_len(b, x, vroot)])
                    ok = bb2 not in nxt
                    ctx.ob("R4.bounded-accumulation", f"take.loop@{_arm(b, blk.idx)}.push", ok, b.loc(t2["span"]),
                           "each single push is followed by a test of the vector's length against the count before the next push")
                else:
                    sl = Slice(b).run(t2["args"][1])
                    dep = any(k.endswith("Vec::len") and op_access_path(b, ct["args"][0])[0] == vroot for k, _, ct in sl["calls"])
                    # or truncation after the loop
                    trunc = any(t3["callee"].get("method") == "truncate" and op_access_path(b, t3["args"][0])[0] == vroot for _, t3 in b.calls())
                    ok = dep or trunc
                    ctx.ob("R4.bounded-accumulation", f"take.loop@{_arm(b, blk.idx)}.{m}", ok, b.loc(t2["span"]),
                           f"bulk addition sized by the remainder (its size depends on the vector's current length): {dep}; truncated afterwards: {trunc}"
                           + ("" if ok else " - visiting several regions adds min(count, region size) each time, so the result can exceed the requested count"))
    if n4 == 0:
        ctx.missing("R4.bounded-accumulation", "a length-bounded accumulation loop in take")

    # ---------------- R5
    for name in ("filter", "where_available_for_current_thread"):
        b = prog.one(f"processor_set_builder::ProcessorSetBuilder::{name}")
        if b is None:
            ctx.missing("R5.exclusion-passes-independent", name)
            continue
        ctx.fn(b)
        bodies = reach_bodies(prog, uc, b)
        late = [f for f in ("processor_type_selector", "memory_region_selector", "obey_resource_quota") if any(reads_field(bd, B + "::" + f) for bd in bodies)]
        it = calls_to(b, "ProcessorSetBuilder::candidate_processors")
        ok = len(it) == 1 and not late
        ctx.ob("R5.exclusion-passes-independent", name, ok, b.loc(),
               f"iterates candidate_processors(): {len(it) == 1}; reads criteria that may still change after this call: {late or 'none'}")
        # the pass visits every candidate on every path (no short-cut around the membership test)
        from ..analysis import loop_visits_all
        nx = [(bb, t) for bb, t in b.calls() if t["callee"].get("method") == "next" and b.in_loop(bb)]
        if len(nx) == 1:
            okv, detv = loop_visits_all(b, nx[0][0])
            okp, _off = b.must_pass([0], [nx[0][0]], b.exits(("return",)))
            ctx.ob("R5.exclusion-passes-independent", name + ".visits-every-candidate", okv and okp, b.loc(nx[0][1]["span"]),
                   f"{detv}; every path to return enters the loop: {okp}" + ("" if okp else " - a short-cut returns the builder without testing each candidate"))
        elif name == "where_available_for_current_thread":
            ctx.missing("R5.exclusion-passes-independent", "the candidate loop of where_available_for_current_thread")

    # ---------------- R6
    ctx.fn(cbm)
    ent = [(bb, t) for bb, t in cbm.calls() if t["callee"].get("method") == "entry" and "HashMap" in callee_key(t["callee"])]
    oi = [(bb, t) for bb, t in cbm.calls() if t["callee"].get("method") in ("or_insert_with", "or_default", "or_insert")]
    pu = [(bb, t) for bb, t in cbm.calls() if t["callee"].get("method") == "push" and "Vec" in callee_key(t["callee"])]
    repl = [callee_key(t["callee"]) for bb, t in cbm.calls() if (t["callee"].get("method") in ("insert", "extend") and "HashMap" in callee_key(t["callee"])) or
            (t["callee"].get("method") in ("collect", "from_iter") and "HashMap" in t["callee"]["full"])]
    ok = len(ent) == 1 and len(oi) == 1 and len(pu) == 1 and not repl and cbm.in_loop(pu[0][0])
    if ok:
        # loop driven by an iterator derived from candidate_processors through filter_map
        nx = [(bb, t) for bb, t in cbm.calls() if t["callee"].get("method") == "next" and cbm.in_loop(bb)]
        ok = len(nx) == 1
        if ok:
            sl = Slice(cbm).run(nx[0][1]["args"][0])
            ks = {k.split("::")[-1] for k, _, _ in sl["calls"]}
            # filtering may be an adaptor (filter_map) or `continue`s inside the loop: what matters is that every candidate is
            # visited and merged through the entry API
            from ..analysis import loop_visits_all
            okv, _dv = loop_visits_all(cbm, nx[0][0])
            okv = okv or "exit" not in _dv
            ok = "candidate_processors" in ks and okv and not ({"chunk_by", "group_by", "dedup_by_key", "take_while", "skip_while", "step_by", "map_while", "take", "skip"} & ks)
    ctx.ob("R6.total-grouping", "candidates_by_memory_region", ok, cbm.loc(),
           f"entry sites {len(ent)}, or_insert sites {len(oi)}, push sites {len(pu)}, replace-on-duplicate constructions: {repl or 'none'}")
    selection_order_rules(ctx, prog, take)
    source_restriction_rules(ctx, prog)
    sample_never_short(ctx, prog)


def _tests_len(b, blk, vroot):
    t = blk.term
    dl = op_local(t["discr"])
    d = b.unique_def(dl) if dl is not None else None
    if not d or d[2] != "assign" or d[3]["rv"]["k"] != "binop":
        return False
    for o in (d[3]["rv"]["a"], d[3]["rv"]["b"]):
        sl = Slice(b).run(o)
        for k, _, ct in sl["calls"]:
            if k.endswith("Vec::len") and op_access_path(b, ct["args"][0])[0] == vroot:
                return True
    return False


def _arm(b, bb):
    adt_vals = []
    for g in switch_guards(b, bb):
        if g["src"].get("kind") == "discr" and len(g["allowed"]) == 1:
            adt_vals.append(str(sorted(g["allowed"], key=str)[0]))
    return "selector=" + "/".join(adt_vals[-1:]) if adt_vals else f"bb{bb}"



def selection_order_rules(ctx, prog, take):
    dom = take.dominators(unwind=False)
    # ---------------- R7
    n = 0
    for bb, t in take.calls():
        if t["callee"].get("method") != "push" or "Vec" not in callee_key(t["callee"]) or not take.in_loop(bb):
            continue
        sl = Slice(take).run(t["args"][1])
        picks = [(k, cbb, ct) for k, cbb, ct in sl["calls"] if ct["callee"].get("method") == "choose" and take.in_loop(cbb)]
        if not picks:
            continue
        n += 1
        pick = picks[0][2]
        # is the picked-from list revisited? (the pick's source is reached through a &mut iteration such as values_mut/iter_mut)
        src = Slice(take).run(pick["args"][0])
        names = {ct["callee"].get("method") for _k, _b, ct in src["calls"]}
        revisited = bool(names & {"values_mut", "iter_mut", "get_mut"})
        rem = []
        for rbb, rt in take.calls():
            if rt["callee"].get("method") in ("remove", "swap_remove") and "Vec" in callee_key(rt["callee"]) and take.in_loop(rbb):
                isl = Slice(take).run(rt["args"][1])
                same_pick = any(ct is pick for _k, _b, ct in isl["calls"])
                r1, _f = op_access_path(take, rt["args"][0])
                r2, _f2 = op_access_path(take, pick["args"][0])
                lsl = Slice(take).run(rt["args"][0])
                same_list = bool({id(ct) for _k, _b, ct in lsl["calls"]} & {id(ct) for _k, _b, ct in src["calls"]})
                ordered = rbb in dom.get(bb, ()) or bb in dom.get(rbb, ())
                rem.append((rbb, same_pick, same_list, ordered))
        ok = (not revisited) or any(a and b_ and c for _r, a, b_, c in rem)
        others = [rt["callee"].get("method") for rbb, rt in take.calls() if take.in_loop(rbb) and "Vec" in callee_key(rt["callee"]) and
                  rt["callee"].get("method") in ("pop", "truncate", "drain", "clear", "retain")]
        ctx.ob("R7.pick-removes-picked", f"take.push@{'revisited' if revisited else 'once'}#{n}", ok, take.loc(t["span"]),
               f"picked element pushed; list revisited by the enclosing loop: {revisited}; removals by the picked index on the same list in the same iteration: "
               f"{[(a, b_, c) for _r, a, b_, c in rem]}; other shrinking calls in the loop: {others}")
    if n == 0:
        ctx.missing("R7.pick-removes-picked", "push of a randomly picked element inside a loop of take()")

    # ---------------- R8
    pops = [(bb, t) for bb, t in take.calls() if t["callee"].get("method") in ("pop_front", "pop_back", "pop") and take.in_loop(bb)
            and "VecDeque" in callee_key(t["callee"])]
    if len(pops) != 1:
        ctx.missing("R8.prefer-same-largest-first", f"exactly one VecDeque pop in a loop of take() (found {len(pops)})")
        return
    pbb, pt = pops[0]
    root, _fs = op_access_path(take, pt["args"][0])
    same_root = [(bb, t) for bb, t in take.calls() if t["args"] and op_access_path(take, t["args"][0])[0] == root and bb != pbb]
    sorts = [(bb, t) for bb, t in same_root if (t["callee"].get("method") or "").startswith("sort")]
    revs = [(bb, t) for bb, t in same_root if t["callee"].get("method") == "reverse"]
    reorder = [(bb, t) for bb, t in same_root if t["callee"].get("method") in ("shuffle", "swap", "rotate_left", "rotate_right", "partial_shuffle",
                                                                               "select_nth_unstable", "select_nth_unstable_by_key", "push_front", "insert")]
    ok = len(sorts) == 1 and sorts[0][0] in dom[pbb]
    det = [f"sort calls on the region list: {[t['callee'].get('method') for _b, t in sorts]}"]
    if ok:
        sbb, st = sorts[0]
        # key closure measures the candidate count of the region
        key_ok = False
        rev_key = False
        for c in prog.closures_of(take):
            if any(op_local(a) is not None and c.key in " ".join(take.local_ty(op_local(a)).get("closures", [])) for a in st["args"][1:]):
                ms = {ct["callee"].get("method") for _b, ct in c.calls()}
                key_ok = "len" in ms and "get" in ms
                rev_key = any("cmp::Reverse" in str(l["ty"]["s"]) for l in c.locals)
        front = pt["callee"].get("method") == "pop_front"
        desc = (len(revs) == 1 and sbb in dom[revs[0][0]] and revs[0][0] in dom[pbb]) != rev_key
        # largest first: (ascending sort + reverse, pop_front) or (ascending sort, pop_back) ...
        largest_first = (desc and front) or (not desc and not front and not revs)
        late = [t["callee"].get("method") for bb, t in reorder if sbb in dom[bb]]
        ok = key_ok and largest_first and not late
        det.append(f"key = candidate count of the region: {key_ok}; consumed largest-first: {largest_first}; re-ordering after the sort: {late or 'none'}")
    ctx.ob("R8.prefer-same-largest-first", "take.prefer-same", ok, take.loc(pt["span"]), "; ".join(det))


def sample_never_short(ctx, prog):
    RID = "R10.sample-never-short"
    take = prog.one("processor_set_builder::ProcessorSetBuilder::take")
    if take is None:
        ctx.missing(RID, "ProcessorSetBuilder::take")
        return
    n = 0
    for b in [take] + prog.closures_of(take):
        for bb, t in b.calls():
            if t["callee"].get("method") not in ("sample", "choose_multiple", "sample_into") or b.blocks[bb].cleanup or len(t["args"]) < 3:
                continue
            n += 1
            src = Slice(b).run(t["args"][0])
            am = Slice(b).run(t["args"][-1])
            am_calls = {k.split("::")[-1] for k, _, _ in am["calls"]}
            src_calls = {k.split("::")[-1] for k, _, _ in src["calls"]}
            base = {1, 2}
            how = None
            if "min" in am_calls and "len" in am_calls:
                how = "amount clamped to the source's length (the surrounding loop refills from the next source)"
                if not b.in_loop(bb):
                    how = None
            if how is None:
                for g in switch_guards(b, bb):
                    d = b.unique_def(g.get("discr_local")) if g.get("discr_local") is not None else None
                    if not d or d[2] != "assign" or d[3]["rv"]["k"] != "binop" or d[3]["rv"]["op"] not in ("Lt", "Ge", "Gt", "Le"):
                        continue
                    rv = d[3]["rv"]
                    sa, sb = Slice(b).run(rv["a"]), Slice(b).run(rv["b"])
                    op = rv["op"]
                    if 2 in sa["args"] and "len" not in {k.split("::")[-1] for k, _, _ in sa["calls"]}:
                        sa, sb = sb, sa
                        op = {"Lt": "Gt", "Gt": "Lt", "Ge": "Le", "Le": "Ge"}[op]
                    a_calls = {k.split("::")[-1] for k, _, _ in sa["calls"]}
                    if "len" not in a_calls or 2 not in sb["args"] or {k.split("::")[-1] for k, _, _ in sb["calls"]} - {"get"}:
                        continue
                    if not ((sa["locals"] & src["locals"]) - base):
                        continue
                    # edge taken means len >= count
                    enough = (op == "Lt" and g["allowed"] == {0}) or (op == "Ge" and 0 not in g["allowed"] and bool(g["allowed"]))
                    if enough:
                        how = "dominated by `source.len() < count => None` on the sampled collection"
            if how is None and "get" in src_calls and "choose" in src_calls and ({"filter_map", "filter"} & src_calls):
                for c in prog.closures_of(take):
                    for blk in c.blocks:
                        for st in blk.stmts:
                            if st["k"] == "assign" and st["rv"]["k"] == "binop" and st["rv"]["op"] in ("Lt", "Ge"):
                                sa, sb = Slice(c).run(st["rv"]["a"]), Slice(c).run(st["rv"]["b"])
                                if "len" in {k.split("::")[-1] for k, _, _ in sa["calls"]} and sb["upvars"] and 2 in sa["args"]:
                                    how = "source chosen among the collections a filter kept only when `len() >= count`"
            ctx.ob(RID, f"{b.name}.sample#{n}", how is not None, b.loc(t["span"]),
                   f"sample of the requested count: {how or 'NO length test of the sampled collection against the requested count dominates it - with fewer elements than requested the result is silently smaller'}")
    if n == 0:
        ctx.missing(RID, "sample(..) calls in ProcessorSetBuilder::take")


def source_restriction_rules(ctx, prog):
    RID = "R9.source-restriction"
    # (a) every function that turns a ProcessorSet into a ProcessorSetBuilder restricts the source
    n = 0
    for b in prog.bodies:
        if b.is_closure or "::tests" in b.key or b.arg_count < 1:
            continue
        rty = b.local_ty(0)["s"]
        if not rty.endswith("processor_set_builder::ProcessorSetBuilder"):
            continue
        a1 = b.local_ty(1)["s"]
        if "processor_set::ProcessorSet" not in a1 or "Builder" in a1:
            continue
        n += 1
        ctx.fn(b)
        names = {callee_key(t["callee"]).split("::")[-1] for _bb, t in b.calls()}
        ok = bool(names & {"to_builder", "source_processors"})
        if ok and "source_processors" in names and "to_builder" not in names:
            sp = [t for _bb, t in b.calls() if t["callee"].get("method") == "source_processors"][0]
            sl = Slice(b).run(sp["args"][1])
            ok = 1 in sl["args"] and any(f.endswith("ProcessorSet::processors") for f in sl["fields"])
        ctx.ob(RID, f"{b.key.split('many_cpus_impl::')[-1]}({'&' if a1.startswith('&') else ''}ProcessorSet)", ok, b.loc(),
               f"conversion ProcessorSet -> builder calls {sorted(names & {'to_builder', 'source_processors', 'with_internals', 'new'})}: the set's own processors become the source: {ok}")
    if n == 0:
        ctx.missing(RID, "ProcessorSet -> ProcessorSetBuilder conversions")
    # (b) candidate_processors: membership by id over ALL processors, no positional lookup
    cp = prog.one("processor_set_builder::ProcessorSetBuilder::candidate_processors")
    if cp is None:
        ctx.missing(RID, "ProcessorSetBuilder::candidate_processors")
        return
    ctx.fn(cp)
    bodies = [cp] + prog.closures_of(cp)
    positional = sorted({t["callee"].get("method") for bd in bodies for _bb, t in bd.calls()
                         if t["callee"].get("method") in ("get", "get_unchecked", "index", "nth", "get_mut", "binary_search", "swap_remove", "remove")})
    memb = False
    for c in prog.closures_of(cp):
        for _bb, t in c.calls():
            if t["callee"].get("method") == "contains" and len(t["args"]) == 2:
                s1 = Slice(c).run(t["args"][1])
                if any(ct["callee"].get("method") == "id" for _k, _b, ct in s1["calls"]) and 2 in s1["args"]:
                    memb = True
    rsl = Slice(cp).run({"k": "copy", "place": {"l": 0, "p": []}})
    from_all = any(k.endswith("all_processors") for k, _b, _t in rsl["calls"])
    ok = memb and from_all and not positional
    ctx.ob(RID, "candidate_processors.membership-over-all", ok, cp.loc(),
           f"restricted by `source_ids.contains(&p.id())`: {memb}; result drawn from all_processors(): {from_all}; positional lookups: {positional or 'none'}" +
           ("" if ok else " - a processor's id is not its position in the list (ids can be sparse)"))

"""C17 - multithreaded benchmark runs: exact iteration counts, no use after return (par_bench)."""
from ..analysis import (path_count, Slice, switch_guards, UserCode, guard_src_place, calls_to, who_calls, closure_capture_ops)
from ..mir import callee_key, callee_paths, op_local, op_place, resolve_const, strip_generics, op_access_path, place_fields

EXPL = ("Decides structural necessary conditions of C17 on MIR of par_bench: (R1) scope obligation: a function that erases "
        "the lifetime of a closure with a transmute (source and target equal after region erasure) and hands it to "
        "another thread must not leave - by return OR by unwinding - before every result channel has been received "
        "from: after the first hand-off, every call that can panic (expect/unwrap/panic, user Clone) must either lie "
        "after the collection loop's exhaustion or unwind through the destructor of a local guard whose Drop receives "
        "from all outstanding channels; the normal return is only reachable through the loop's `None` exit; (R2) "
        "call-count shape of the per-thread closure: prepare_thread once and outside any loop, prepare_iter and the "
        "iteration body each in exactly one loop bounded by `take(iterations)` / the prepared state vector, the two "
        "measurement wrappers bracket the body loop exactly once, the start barrier precedes the begin wrapper; (R3) "
        "grouping: the barrier is sized by the thread count, group indexes are `repeat_n(g, threads_per_group)` over "
        "0..groups, and the divisibility assertion dominates.")
NOT = ("Not decided: the numeric iteration counts over all inputs, fairness of the start barrier, what user callbacks do.")

PANICKY = ("::expect", "::unwrap", "panic_fmt", "panicking::panic", "::unwrap_or_else", "assert_failed", "begin_panic", "resume_unwind",
           "expect_failed", "unwrap_failed")


def is_panicky(t, uc, body, bb):
    k = callee_key(t["callee"])
    m = t["callee"].get("method") or ""
    if m in ("expect", "unwrap", "expect_err", "unwrap_err") and ("Result" in k or "Option" in k):
        return "panics on Err/None: " + k.split("::")[-1]
    if any(k.endswith(p) or p in k for p in ("panic_fmt", "panicking::panic", "assert_failed", "resume_unwind")):
        return "panic: " + k.split("::")[-1]
    d = uc.direct(body, bb)
    if d and d[0].startswith("U1"):
        return "user code: " + d[1][:60]
    return None


def _stale_dropflag_edges(b, site_bb):
    """Edges of cleanup switches on a drop flag that cannot be taken when unwinding from site_bb: the `flag == false` arm of a
    flag no clearing block of which can reach the site."""
    flags = {}
    for blk in b.blocks:
        for st in blk.stmts:
            if st["k"] == "assign" and not st["place"]["p"]:
                l = st["place"]["l"]
                rv = st["rv"]
                if rv["k"] == "use" and rv["op"].get("k") == "const" and rv["op"].get("ty") == "bool" and "val" in rv["op"]:
                    flags.setdefault(l, []).append((blk.idx, rv["op"]["val"]))
                else:
                    flags.setdefault(l, []).append((blk.idx, None))
        t = blk.term
        if t["k"] == "call" and isinstance(t.get("dest"), dict) and not t["dest"]["p"]:
            flags.setdefault(t["dest"]["l"], []).append((blk.idx, None))
    out = set()
    for blk in b.blocks:
        t = blk.term
        if not blk.cleanup or t["k"] != "switch":
            continue
        l = op_local(t["discr"])
        ds = flags.get(l)
        if l is None or not ds or any(v is None for _bb, v in ds) or l <= b.arg_count:
            continue
        last = {}
        for x, v in ds:
            last[x] = v          # statements are scanned in order: the last definition of a block wins
        if site_bb in last:
            may_be_clear = not last[site_bb]
        else:
            may_be_clear = any(not v and site_bb in b.reachable(b.term_succ(x, False), unwind=False, avoid=[y for y in last if y != x])
                               for x, v in last.items())
        if may_be_clear:
            continue
        for v, tg in t["arms"]:
            if v == 0:
                out.add((blk.idx, tg))
    return out


def run(ctx):
    ctx.explanation = EXPL
    ctx.not_decided = NOT
    prog = ctx.prog("par_bench")
    uc = UserCode(prog)
    ctx.rule("R1.scope-obligation", "lifetime-erasing transmute + cross-thread hand-off => no exit (return or unwind) before all result channels are drained", floor=4)
    ctx.rule("R2.call-count-shape", "per-thread closure: prepare_thread once outside loops; prepare_iter / iter body inside exactly one loop each bounded by iterations; wrappers bracket the loop; barrier first", floor=6)
    ctx.rule("R4.builder-carries-configuration", "every stage transition of the run builder derives its result from `self` and copies each carried field (groups, callbacks) from the same-named field of the previous stage", floor=10)
    ctx.rule("R3.grouping", "Barrier::new(thread_count); group indexes = repeat_n(group, threads_per_group) over 0..groups; remainder assertion dominates", floor=3)

    # ---------------- R1
    erasers = []
    for b in prog.bodies:
        for blk in b.blocks:
            for s in blk.stmts:
                if s["k"] == "assign" and s["rv"]["k"] == "cast" and s["rv"]["ck"] == "Transmute" and s["rv"].get("same_modulo_regions"):
                    erasers.append((b, blk.idx, s))
    ctx.extra["lifetime_erasing_transmutes"] = [f"{b.key}@{b.loc(s['span'])}" for b, _, s in erasers]
    if not erasers:
        ctx.missing("R1.scope-obligation", "a lifetime-erasing transmute in par_bench (the mechanism the property is about)")
    for b, tbb, s in erasers:
        ctx.fn(b)
        tl = s["place"]["l"]
        # hand-off: a send call whose argument derives from the transmuted value
        hand = []
        for bb, t in b.calls():
            if t["callee"].get("method") == "send" and "mpsc" in callee_key(t["callee"]):
                sl = Slice(b).run(t["args"][1]) if len(t["args"]) > 1 else None
                if sl and tl in sl["locals"]:
                    hand.append(bb)
                elif sl:
                    # through a closure capture
                    for cl in prog.closures_of(b):
                        for _bb, ops in closure_capture_ops(b, cl.key):
                            for o in ops:
                                if tl in Slice(b).run(o)["locals"] and any(c.startswith(strip_generics(cl.key)) for c in
                                                                            [x for ta in [] for x in ta]) is False:
                                    pass
                    # the closure aggregate moved into Box::new -> Command::Execute -> send
                    if any("closure" in b.local_ty(l)["s"] or True for l in sl["locals"]) and tl in sl["locals"]:
                        hand.append(bb)
        if not hand:
            # capture path: transmuted box captured by a closure that is sent
            for bb, t in b.calls():
                if t["callee"].get("method") == "send" and "mpsc" in callee_key(t["callee"]):
                    hand.append(bb)
        ok_h = bool(hand)
        ctx.ob("R1.scope-obligation", f"{short(b.key)}|hand-off-found", ok_h, b.loc(s["span"]),
               f"lifetime-erasing transmute ({s['rv']['from']['s'][:70]}); cross-thread hand-off sites (mpsc send): {hand}")
        if not hand:
            continue
        recvs = [bb for bb, t in b.calls() if t["callee"].get("method") == "recv" and "oneshot" in callee_key(t["callee"]) or
                 (t["callee"].get("method") == "recv" and "Receiver" in callee_key(t["callee"]))]
        # collection loop: recv in a loop driven by Iterator::next over the receivers; its None exit
        loop_next = []
        for bb, t in b.calls():
            if t["callee"].get("method") == "next" and "Receiver" in t["callee"]["full"]:
                loop_next.append(bb)
        exhausted = set()   # blocks only reachable after the collection iterator returned None
        drained_ok = False
        if len(loop_next) == 1 and recvs and all(b.in_loop(r) for r in recvs):
            nb = loop_next[0]
            # find switch on discriminant of next()'s result
            dest = b.blocks[nb].term["dest"]["l"]
            for blk in b.blocks:
                t = blk.term
                if t["k"] == "switch":
                    l = op_local(t["discr"])
                    d = b.unique_def(l) if l is not None else None
                    if d and d[2] == "assign" and d[3]["rv"]["k"] == "discr" and d[3]["rv"]["place"]["l"] == dest:
                        none_t = [tt for v, tt in t["arms"] if v == 0]
                        if none_t:
                            exhausted = b.reachable(none_t, unwind=True, avoid=[nb])
                            drained_ok = True
        # the collection loop runs to exhaustion of the receiver list (no break / truncation)
        if recvs:
            from ..analysis import loop_visits_all
            okv, dv = loop_visits_all(b, recvs[0])
            ctx.ob("R1.scope-obligation", f"{short(b.key)}|collection-loop-exhaustive", okv, b.loc(), dv)
        # (a) normal return only via exhaustion
        rets = b.exits(("return",))
        after_hand = b.reachable([x for h in hand for x in b.term_succ(h, False)], unwind=False)
        ok_ret = drained_ok and all(r in exhausted for r in rets if r in after_hand)
        # also: the collection loop must be reached only after the dispatch loop finished (all hand-offs done)
        ctx.ob("R1.scope-obligation", f"{short(b.key)}|return-after-drain", ok_ret, b.loc(),
               f"collection loop over the result receivers found: {drained_ok}; every return reachable after a hand-off lies behind its exhaustion: {ok_ret}")
        # (b) unwinding
        guards = drain_guard_types(prog)
        first_hand_reach = b.reachable([x for h in hand for x in b.term_succ(h, True)], unwind=False) | set(hand)
        n_sites = 0
        for bb, t in b.calls():
            if b.blocks[bb].cleanup or bb not in first_hand_reach or bb in exhausted:
                continue
            why = is_panicky(t, uc, b, bb)
            if not why:
                continue
            n_sites += 1
            # unwind path must pass the drop of a drain guard
            uw = t.get("unwind")
            protected = False
            if isinstance(uw, int) and guards:
                gdrops = [x.idx for x in b.blocks if x.cleanup and x.term["k"] == "drop" and x.term["ty"].get("head") in guards]
                if gdrops:
                    # a guard that is also moved somewhere later (an explicit `drop(guard)` at the end) is dropped on unwind under
                    # a drop FLAG: the flag is still set at this site unless a block that clears it can reach the site
                    inf_edges = _stale_dropflag_edges(b, bb)
                    r_ = b.reachable([uw], True, avoid=gdrops, avoid_edges=inf_edges)
                    protected = not any(e in r_ for e in b.exits(("resume",)))
            phase = "collection" if any(bb in b.successors_reach(r, False) and r in b.successors_reach(bb, False) for r in recvs) else "dispatch"
            ctx.ob("R1.scope-obligation", f"{short(b.key)}|{phase}|{callee_key(t['callee']).split('::')[-1]}|{t['callee']['full'][:40]}", protected, b.loc(t["span"]),
                   f"{why} can unwind out of {b.name} after a closure with an erased lifetime was handed to a worker and before all results were received"
                   + ("; the unwind path passes a guard whose Drop drains the result channels" if protected else
                      ": other workers may still run the borrowed closure (use after return)"))
        ctx.extra["r1_panicky_sites_checked"] = n_sites

    # the worker-side closure's result send is what the caller waits for: after it the worker touches nothing that came out of the
    # lifetime-erased closure (its captures, its result, state it handed back) - a value of caller-chosen type dropped AFTER the
    # send may run its destructor when execute_task has already returned and the borrowed data is gone
    from ..analysis import ty_mentions_user
    et_b = prog.one("threadpool::ThreadPool::execute_task")
    n_send = 0
    if et_b is not None:
        for cl in prog.closures_of(et_b):
            sends = [(bb, t) for bb, t in cl.calls() if t["callee"].get("method") == "send" and "oneshot" in callee_key(t["callee"]) and not cl.blocks[bb].cleanup]
            for sbb, st_ in sends:
                n_send += 1
                after = cl.successors_reach(sbb, unwind=False)
                late = []
                for x in sorted(after):
                    blk = cl.blocks[x]
                    if blk.cleanup:
                        continue
                    t = blk.term
                    if t["k"] == "drop" and t["ty"].get("needs_drop") and ty_mentions_user(t["ty"]):
                        late.append(f"drop {t['ty']['s'][:40]}@{cl.loc(t.get('span'))}")
                    if t["k"] == "call" and callee_key(t["callee"]) in ("std::mem::drop", "core::mem::drop") and \
                            any(ty_mentions_user(ta) and ta.get("needs_drop", True) for ta in t["callee"].get("targs", [])):
                        late.append(f"drop(..)@{cl.loc(t['span'])}")
                    if t["k"] == "call" and (uc.direct(cl, x) or ("",))[0] in ("P", "U1-generic", "U1-dyn", "U4-fnptr"):
                        late.append(f"user call@{cl.loc(t['span'])}")
                ctx.ob("R1.scope-obligation", f"worker-closure.send-is-last#{n_send}", not late, cl.loc(st_["span"]),
                       f"user-typed values destroyed / user code run by the worker after the result was sent: {late or 'none'}")
    if n_send == 0:
        ctx.missing("R1.scope-obligation", "the worker-side result send in ThreadPool::execute_task")
    builder_rules(ctx, prog)
    # ---------------- R2 / R3
    ex = prog.one("run_configured::ConfiguredRun::execute_on")
    if ex is None:
        ctx.missing("R2.call-count-shape", "ConfiguredRun::execute_on")
        return
    ctx.fn(ex)
    cls = [c for c in prog.closures_of(ex)]
    # the per-thread closure: the one passed to ThreadPool::execute_task
    et = calls_to(ex, "threadpool::ThreadPool::execute_task")
    worker = None
    if len(et) == 1:
        for ta in et[0][1]["callee"].get("targs", []):
            for clp in ta.get("closures", []):
                k = strip_generics(clp)
                if k in prog.by_key:
                    worker = prog.by_key[k][0]
    pc_et = path_count(ex, [bb for bb, _ in et])
    ctx.ob("R2.call-count-shape", "dispatch-on-every-path", pc_et == (1, 1), ex.loc(),
           f"ThreadPool::execute_task calls per normal path of execute_on: {pc_et} (every iteration count, including 0, must reach every pool thread)")
    if worker is None:
        ctx.missing("R2.call-count-shape", "the closure passed to ThreadPool::execute_task")
        return
    ctx.fn(worker)
    upv = {u["place"]["p"][0]["i"] if isinstance(u["place"]["p"][0], dict) else None: u["name"] for u in worker.d.get("upvars", []) if u["place"]["p"]}

    def dyn_calls(body, upname):
        """Calls of a captured `&dyn Fn` whose upvar debug name is `upname`."""
        out = []
        for bb, t in body.calls():
            c = t["callee"]
            if c.get("trait", "").endswith("ops::Fn") or c.get("trait", "").endswith("ops::FnMut") or c.get("trait", "").endswith("ops::FnOnce"):
                sl = Slice(body, through_calls=False).run(t["args"][0])
                names = {upv.get(i) for i in sl["upvars"]}
                if upname in names:
                    out.append((bb, t))
        return out

    subs = prog.closures_of(worker)
    pt = dyn_calls(worker, "prepare_thread_fn")
    pc = path_count(worker, [bb for bb, _ in pt])
    ok = len(pt) == 1 and pc == (1, 1) and not worker.in_loop(pt[0][0])
    ctx.ob("R2.call-count-shape", "prepare_thread_fn", ok, worker.loc(pt[0][1]["span"]) if pt else worker.loc(),
           f"call sites {len(pt)}, per path {pc}, inside a loop: {bool(pt) and worker.in_loop(pt[0][0])}")
    # no user callback runs while the worker holds the run's own lock (the group-index list): callbacks of different threads may
    # wait for each other (rendezvous in prepare_thread), and a panic in one must not poison what the others still need
    from ..analysis import GuardLiveness
    glw = GuardLiveness(worker)
    for uname in ("prepare_thread_fn", "prepare_iter_fn", "iter_fn", "measure_wrapper_begin_fn", "measure_wrapper_end_fn"):
        for bd in [worker] + subs:
            gl_b = glw if bd is worker else GuardLiveness(bd)
            if not gl_b.guard_locals:
                continue
            for bb, t in (dyn_calls(bd, uname) if bd is worker else []):
                live = [gl_b.guard_locals[l] for l in gl_b.live_at_term(bb)]
                ctx.ob("R2.call-count-shape", f"{uname}.outside-the-run-lock", not live, bd.loc(t["span"]),
                       f"user callback invoked with guards live: {live or 'none'}" +
                       ("" if not live else " - every other thread of the run blocks on that lock until this callback returns: callbacks that wait for each other deadlock before the start barrier"))
    # iter_fn: inside exactly one loop in the worker closure, the loop iterates the prepared iter_state vector
    it = dyn_calls(worker, "iter_fn")
    ok = len(it) == 1 and worker.in_loop(it[0][0])
    det = f"call sites {len(it)}"
    if ok:
        nxt = [(bb, t) for bb, t in worker.calls() if t["callee"].get("method") == "next" and worker.in_loop(bb)
               and it[0][0] in worker.successors_reach(bb, False) and bb in worker.successors_reach(it[0][0], False)]
        ok = len(nxt) == 1
        if ok:
            sl = Slice(worker).run(nxt[0][1]["args"][0])
            keys = [k.split("::")[-1] for k, _, _ in sl["calls"]]
            ok = "into_iter" in keys and "collect" in keys and "take" in keys
            det += f"; loop driven by Iterator::next over {keys}"
            # no nested second loop: the call is in exactly one SCC -> approximated by a single driving next()
    ctx.ob("R2.call-count-shape", "iter_fn", ok, worker.loc(it[0][1]["span"]) if it else worker.loc(), det)
    if it:
        # the measured loop runs to the exhaustion of the prepared iteration states: no early exit (e.g. "another thread failed")
        from ..analysis import loop_visits_all, POSITIONAL_CUT
        # (`take(iterations)` is how the states are counted out when they are prepared: sanctioned)
        okv, dv = loop_visits_all(worker, it[0][0], cutters=POSITIONAL_CUT - {"take"})
        ctx.ob("R2.call-count-shape", "iter_fn.loop-runs-to-exhaustion", okv, worker.loc(it[0][1]["span"]),
               dv + ("" if okv else " - a thread that leaves the loop early executes only a prefix of the requested iterations and still reports a normal result"))
    # prepare_iter_fn: called from the repeat_with closure, which is `take(n)`-bounded with n from iterations
    pi_sites = []
    for c in subs:
        # upvars of the nested closure refer to the worker's captured values by name too
        for bb, t in c.calls():
            cc = t["callee"]
            if cc.get("trait", "").endswith("ops::Fn"):
                pi_sites.append((c, bb, t))
    takes = [(bb, t) for bb, t in worker.calls() if t["callee"].get("method") == "take" and "RepeatWith" in t["callee"]["full"]]
    ok = len(pi_sites) == 1 and len(takes) == 1
    det = f"prepare_iter call sites in nested closures {len(pi_sites)}, take() sites {len(takes)}"
    if ok:
        sl = Slice(worker).run(takes[0][1]["args"][1])
        names = {upv.get(i) for i in sl["upvars"]}
        keys = [k.split("::")[-1] for k, _, _ in sl["calls"]]
        ok = "iterations" in names and all(k in ("try_from", "expect", "try_into", "unwrap") for k in keys) and not sl["binops"]
        det += f"; take(n): n derives from captured {sorted(x for x in names if x)} via {keys}, arithmetic {sl['binops']}"
        pcn = path_count(pi_sites[0][0], [pi_sites[0][1]])
        ok = ok and pcn == (1, 1)
        det += f"; prepare_iter per closure invocation {pcn}"
    ctx.ob("R2.call-count-shape", "prepare_iter_fn", ok, worker.loc(), det)
    # wrappers bracket the loop; barrier first
    mb = dyn_calls(worker, "measure_wrapper_begin_fn")
    me = dyn_calls(worker, "measure_wrapper_end_fn")
    wait = [(bb, t) for bb, t in worker.calls() if callee_key(t["callee"]).endswith("Barrier::wait")]
    dom = worker.dominators(unwind=False)
    ok = len(mb) == 1 and len(me) == 1 and len(it) == 1 and len(wait) == 1
    if ok:
        ok = mb[0][0] in dom[it[0][0]] and wait[0][0] in dom[mb[0][0]] and not worker.in_loop(mb[0][0]) and not worker.in_loop(me[0][0]) \
            and me[0][0] not in dom[it[0][0]] and it[0][0] not in worker.successors_reach(me[0][0], False) \
            and path_count(worker, [me[0][0]]) == (1, 1) and path_count(worker, [mb[0][0]]) == (1, 1)
        # all preparation happens before the barrier
        ok = ok and all(bb in dom[wait[0][0]] for bb, _ in pt) and all(bb in dom[wait[0][0]] for bb, _ in takes)
    ctx.ob("R2.call-count-shape", "wrappers-bracket-loop", ok, worker.loc(),
           "start.wait() -> measure begin (once) -> iteration loop -> measure end (once); preparation precedes the barrier")
    # the end wrapper consumes the begin wrapper's state; output returned
    if len(me) == 1 and len(mb) == 1:
        sl = Slice(worker).run(me[0][1]["args"][1]) if len(me[0][1]["args"]) > 1 else None
        ok = bool(sl) and mb[0][1]["dest"]["l"] in sl["locals"]
        ctx.ob("R2.call-count-shape", "end-takes-begin-state", ok, worker.loc(me[0][1]["span"]), "measure end receives the value produced by measure begin")
    # RunMeta::new(group_index, group_count, thread_count, iterations)
    rm = calls_to(worker, "run_meta::RunMeta::new")
    ok = len(rm) == 1
    if ok:
        a = rm[0][1]["args"]
        names = []
        for o in a:
            sl = Slice(worker, through_calls=True).run(o)
            names.append(sorted(x for x in {upv.get(i) for i in sl["upvars"]} if x))
        ok = names[1] == ["group_count"] and names[2] == ["thread_count"] and names[3] == ["iterations"] and names[0] == ["group_indexes"]
        ctx.ob("R2.call-count-shape", "run-meta-arguments", ok, worker.loc(rm[0][1]["span"]), f"RunMeta::new arguments derive from captured {names}")

    # ---------------- R3
    bn = [(bb, t) for bb, t in ex.calls() if callee_key(t["callee"]).endswith("Barrier::new")]
    ok = len(bn) == 1
    if ok:
        sl = Slice(ex).run(bn[0][1]["args"][0])
        ks = [k.split("::")[-1] for k, _, _ in sl["calls"]]
        ok = "thread_count" in ks and not sl["binops"] and "div_rem" not in ks
        ctx.ob("R3.grouping", "barrier-sized-by-thread-count", ok, ex.loc(bn[0][1]["span"]), f"Barrier::new argument derives via {ks}")
    else:
        ctx.ob("R3.grouping", "barrier-sized-by-thread-count", False, ex.loc(), f"Barrier::new sites: {len(bn)}")
    fm = [(bb, t) for bb, t in ex.calls() if t["callee"].get("method") == "flat_map"]
    ok = len(fm) == 1
    det = ""
    if ok:
        sl = Slice(ex).run(fm[0][1]["args"][0])
        ok = "infinity" not in str(sl) and any(f.endswith("ConfiguredRun::groups") for f in sl["fields"]) and any(c.get("val") == 0 for c in sl["consts"])
        det = f"range 0..self.groups: {ok}"
        cl = uc.linked_closures(ex, fm[0][1])
        ok2 = False
        for c in cl:
            rn = [(bb, t) for bb, t in c.calls() if callee_key(t["callee"]).endswith("iter::repeat_n")]
            if len(rn) == 1:
                s0 = Slice(c, through_calls=False).run(rn[0][1]["args"][0])
                s1 = Slice(c).run(rn[0][1]["args"][1])
                ok2 = 2 in s0["args"] and bool(s1["upvars"]) and not s1["binops"]
        ok = ok and ok2
        det += f"; closure yields repeat_n(group_index, threads_per_group): {ok2}"
    if not fm:
        # nested-loop spelling: for g in 0..groups { for _ in 0..threads_per_group { v.push(g) } }
        ok, det = _group_indexes_by_loops(ex)
    ctx.ob("R3.grouping", "group-indexes", ok, ex.loc(), det or f"flat_map sites {len(fm)}")
    # threads_per_group = thread_count / groups with remainder assertion dominating execute_task
    dr = [(bb, t) for bb, t in ex.calls() if t["callee"].get("method") == "div_rem"]
    ok = len(dr) == 1 and len(et) == 1
    if ok:
        dom = ex.dominators(unwind=False)
        gs = switch_guards(ex, et[0][0], dom=dom)
        rem_ok = False
        for g in gs:
            if g["src"].get("kind") in ("cmp", "binop"):
                dl = g["discr_local"]
                sl = Slice(ex).run({"k": "copy", "place": {"l": dl, "p": []}})
                if any(k.endswith("div_rem") for k, _, _ in sl["calls"]) and ".1" in sl["fields"]:
                    rem_ok = 0 not in g["allowed"] if g["src"].get("op") == "Eq" else True
        ok = rem_ok
    ctx.ob("R3.grouping", "remainder-assertion-dominates", ok, ex.loc(), "execute_task is reached only when thread_count % groups == 0 was asserted")


def short(k):
    return k.replace("par_bench::", "")


def drain_guard_types(prog):
    """Local ADTs whose Drop impl receives from result channels in a loop (accepted guard idiom)."""
    out = set()
    for b in prog.bodies:
        if b.impl_trait and b.impl_trait.endswith("ops::Drop") and b.name == "drop" and b.impl_adt and not b.is_closure:
            for bb, t in b.calls():
                if t["callee"].get("method") == "recv" and b.in_loop(bb):
                    out.add(b.impl_adt)
    return out


def builder_rules(ctx, prog):
    RID = "R4.builder-carries-configuration"
    n = 0
    for b in prog.bodies:
        if "::configure::" not in b.key or b.is_closure or b.impl_trait or "::tests" in b.key or b.arg_count < 1:
            continue
        self_ty = b.local_ty(1)
        if self_ty["k"] != "adt" or "::configure::" not in self_ty["s"]:
            continue    # only by-value `self` stage transitions
        self_adt = strip_generics(self_ty["s"])
        adt = prog.adts.get(self_adt)
        if adt is None:
            continue
        self_fields = [f["name"] for f in adt["variants"][0]["fields"]]
        n += 1
        ctx.fn(b)
        rsl = Slice(b).run({"k": "copy", "place": {"l": 0, "p": []}})
        carried = [f for f in self_fields if f != b.name]
        ok = 1 in rsl["args"] or not carried
        det = [f"result derives from self: {1 in rsl['args']} (carried fields: {carried})"]
        for blk in b.blocks:
            for st in blk.stmts:
                if st["k"] == "assign" and st["rv"]["k"] == "aggr" and "::configure::" in str(st["rv"].get("adt", "")):
                    names = st["rv"].get("fields") or []
                    for i, f in enumerate(names):
                        if f not in self_fields:
                            continue
                        sl = Slice(b).run(st["rv"]["ops"][i])
                        from_self = any(x == f"{self_adt}::{f}" for x in sl["fields"])
                        is_setter = (b.name == f) and bool(sl["args"] - {1})
                        if not (from_self or is_setter):
                            ok = False
                            det.append(f"field `{f}` of the next stage is not taken from self.{f}")
        ctx.ob(RID, f"{self_adt.split('::')[-1]}::{b.name}", ok, b.loc(), "; ".join(det))
    if n == 0:
        ctx.missing(RID, "by-value builder methods in par_bench::configure")


def _group_indexes_by_loops(ex):
    from ..analysis import loop_blocks
    pushes = [(bb, t) for bb, t in ex.calls() if t["callee"].get("method") == "push" and "Vec" in callee_key(t["callee"]) and ex.in_loop(bb)]
    rngs = []
    for blk in ex.blocks:
        for st in blk.stmts:
            if st["k"] == "assign" and st["rv"]["k"] == "aggr" and (st["rv"].get("adt") or "").endswith("ops::Range"):
                rngs.append(st)
    for pbb, pt in pushes:
        nexts = [(bb, t) for bb, t in ex.calls() if t["callee"].get("method") == "next" and "ops::Range" in t["callee"].get("full", "") and
                 ex.in_loop(bb) and pbb in loop_blocks(ex, bb)]
        if len(nexts) != 2:
            continue
        val = Slice(ex).run(pt["args"][1])
        outer = [t for _bb, t in nexts if any(ct is t for _k, _b, ct in val["calls"])]
        inner = [t for _bb, t in nexts if t not in outer]
        if len(outer) != 1 or len(inner) != 1 or val["binops"]:
            continue
        # the inner loop nests inside the outer one
        obb = [bb for bb, t in nexts if t is outer[0]][0]
        ibb = [bb for bb, t in nexts if t is inner[0]][0]
        # the inner range is (re)built inside the outer loop, the outer range before it
        def range_block(t):
            r = Slice(ex).run(t["args"][0])["locals"]
            for blk in ex.blocks:
                for st in blk.stmts:
                    if st in rngs and st["place"]["l"] in r:
                        return blk.idx
            return None
        lo = loop_blocks(ex, obb)
        nested = ibb in lo and range_block(inner[0]) in lo and range_block(outer[0]) not in lo
        so = Slice(ex).run(outer[0]["args"][0])
        si = Slice(ex).run(inner[0]["args"][0])
        o_ok = any(f.endswith("ConfiguredRun::groups") for f in so["fields"]) and any(c.get("val") == 0 for c in so["consts"]) and not so["binops"]
        i_names = {k.split("::")[-1] for k, _b, _t in si["calls"]}
        i_ok = any(c.get("val") == 0 for c in si["consts"]) and "thread_count" in i_names and \
            ({"div_rem", "checked_div", "div_euclid"} & i_names or "Div" in si["binops"]) and not ({"Mul", "Add", "Sub"} & set(si["binops"]))
        ok = nested and o_ok and i_ok
        return ok, (f"nested loops: outer 0..self.groups {o_ok}, inner 0..threads_per_group {i_ok}, nested {nested}; the pushed value is the outer counter")
    return False, "neither a flat_map(repeat_n) chain nor a nested push loop builds the group index list"

"""C06 - event storage is released exactly once, after every access by the other endpoint (events_once, sync)."""
from ..analysis import (path_count, Slice, switch_guards, UserCode, guard_src_place, calls_to, who_calls,
                        atomic_events, acquireish, releaseish)
from ..evtflow import Flow, summaries_for, return_sites
from ..mir import callee_key, callee_paths, op_local, op_place, resolve_const, strip_generics, op_access_path, place_fields

EXPL = ("Decides structural necessary conditions of C06 on MIR of events_once (thread-safe event): (R1) on every path to "
        "a return that grants the right to release the storage (Err(Disconnected) of the sender transitions, Some(_) of "
        "poll, Ok(Some)/Err of final_poll) the last atomic read of the state byte is acquire-ish or followed by an "
        "acquire fence (path-sensitive dataflow, compare_exchange outcomes split at the branch on its result, helper "
        "functions summarised) - otherwise the other endpoint's last accesses do not happen-before the free; (R2) on "
        "every path to a return that hands cleanup to the other endpoint the last atomic write of the state byte is "
        "release-ish; (R3) nothing reachable after that last write touches the event through a reference; (R4) "
        "release_event is called only from the five endpoint functions, at most once per path, under a test of the "
        "transition's result, and the receiver takes its reference out first; (R5) each storage strategy's "
        "release_event reaches exactly one deallocation/return primitive, the boxed one paired with its allocation.")
NOT = ("Not decided: 'nothing is leaked' / len()==0 at quiescence, rental traffic from many threads, and the full "
       "happens-before relation over all interleavings (only the ordering annotations on the hand-over edges).")

STATE = "sync::Event::state"
# function -> variant-path prefix -> kind
SPEC = {
    "set": {("Err",): "grant", ("Ok",): "handover"},
    "sender_dropped_without_set": {("Err",): "grant", ("Ok",): "handover"},
    "poll": {("Some",): "grant", ("None",): "handover"},
    "poll_bound": {("Some",): "grant", ("None",): "handover"},
    "poll_awaiting": {("Some",): "grant", ("None",): "handover"},
    "poll_signaling": {("Ok",): "grant", ("Err",): "grant"},
    "final_poll": {("Err",): "grant", ("Ok", "Some"): "grant", ("Ok", "None"): "handover"},
}


def classify(fn, path):
    spec = SPEC.get(fn, {})
    for pre, kind in sorted(spec.items(), key=lambda kv: -len(kv[0])):
        if tuple(path[:len(pre)]) == pre:
            return kind
    if path and path[0].startswith("call:"):
        return "delegate"
    return "unknown"


def event_bodies(prog, prefix="events_once::core::sync::Event::"):
    return [b for b in prog.bodies if b.key.startswith(prefix) and not b.is_closure]


def run(ctx):
    ctx.explanation = EXPL
    ctx.not_decided = NOT
    prog = ctx.prog("events_once")
    ctx.rule("R1.acquire-before-release", "release-granting returns are reached with the last state read acquire-ish (or fenced)", floor=10)
    ctx.rule("R2.release-on-handover", "hand-over returns are reached with the last state write release-ish", floor=5)
    ctx.rule("R3.no-access-after-handover", "after the last state write on a hand-over path nothing dereferences the event", floor=4)
    ctx.rule("R4.release-discipline", "release_event: callers limited to the endpoint functions, at most once per path, guarded by the transition result; receiver takes the reference first", floor=6)
    ctx.rule("R5.storage-strategies", "each EventRef::release_event impl reaches exactly one deallocation primitive matching its allocation", floor=3)
    ctx.rule("R7.grant-only-on-terminal", "a release-granting return is reached only under an observed TERMINAL state (set/disconnected); an observed `signaling` must first pass the spin that waits for the sender to leave the event", floor=8)
    ctx.rule("R6.sibling-agreement", "the two sender transitions agree on the ordering discipline of each previous-state arm (cross-check)", floor=3)

    bodies = event_bodies(prog)
    if not bodies:
        ctx.missing("R1.acquire-before-release", "events_once::core::sync::Event methods")
        return
    summ = summaries_for(bodies, STATE)
    ctx.extra["helper_summaries"] = {k.split("::")[-1]: v for k, v in summ.items()}
    flows = {}
    for b in bodies:
        if b.name not in SPEC:
            continue
        ctx.fn(b)
        f = Flow(b, STATE, summ)
        flows[b.name] = (b, f)
        for bb, path, s in return_sites(b):
            kind = classify(b.name, path)
            inst = f"{b.name}|{'/'.join(p for p in path if not p.startswith('call:') and p != '?')}|bb-role:{kind}"
            where = b.loc(s.get("span"))
            if kind == "grant":
                a = f.acq_at_entry(bb)
                # make instances distinct per arm: add the dominating state value when available
                arm = arm_of(b, bb)
                ctx.ob("R1.acquire-before-release", f"{b.name}|{'/'.join(path[:2])}|arm:{arm}", a == "A", where,
                       f"return of {path} (arm {arm}) reached with last state read {'acquire-ish/fenced' if a == 'A' else 'NOT acquire-ish and not fenced'}"
                       + ("" if a == "A" else ": the other endpoint's accesses to the event do not happen-before the release of its storage"))
            elif kind == "handover":
                r = f.rel_at_entry(bb)
                arm = arm_of(b, bb)
                ctx.ob("R2.release-on-handover", f"{b.name}|{'/'.join(path[:2])}|arm:{arm}", r in ("R", "R-"), where,
                       f"return of {path} (arm {arm}) reached with last state write {'release-ish' if r in ('R', 'R-') else 'weaker than Release'}")
            elif kind == "unknown":
                ctx.ob("R1.acquire-before-release", f"{b.name}|unclassified:{'/'.join(path)}", False, where,
                       f"return value shape {path} is not in the rule table for {b.name}")
    from .c05 import state_guard_values
    for name, (b, f) in sorted(flows.items()):
        dom = b.dominators(unwind=False)
        spin = [bb for bb, t in calls_to(b, "sync::Event::poll_signaling")]
        for bb, path, s in return_sites(b):
            if classify(name, path) != "grant":
                continue
            vals = state_guard_values(b, bb)
            if vals is None:
                # e.g. poll_signaling's own returns are guarded through its loop variable; handled by state_guard_values
                ctx.ob("R7.grant-only-on-terminal", f"{name}|{'/'.join(path[:2])}|unguarded", False, b.loc(s.get("span")),
                       f"release-granting return {path[:2]} is not control-dependent on an observation of the state byte")
                continue
            terminal = vals <= {1, 4}
            via_spin = any(x in dom[bb] for x in spin)
            ok = terminal or (vals <= {1, 3, 4} and via_spin and 3 in vals and len(vals) == 1)
            ctx.ob("R7.grant-only-on-terminal", f"{name}|{'/'.join(path[:2])}|obs:{sorted(vals)}", ok, b.loc(s.get("span")),
                   f"release-granting return {path[:2]} under observed state {sorted(vals)}; passes the signaling spin first: {via_spin}"
                   + ("" if ok else ": the sender may still be inside the event (it has yet to store the terminal state) when the storage is released"))
    for need in ("set", "sender_dropped_without_set", "poll", "final_poll"):
        if need not in flows:
            ctx.missing("R1.acquire-before-release", f"Event::{need}")

    # ---------------- R6 sibling cross-check (Engler): per previous-state arm, both senders agree on 'fenced before Err'
    if "set" in flows and "sender_dropped_without_set" in flows:
        def arms(name):
            b, f = flows[name]
            out = {}
            for bb, path, s in return_sites(b):
                kind = classify(name, path)
                out[(arm_of(b, bb), kind)] = (f.acq_at_entry(bb), f.rel_at_entry(bb))
            return out
        a1, a2 = arms("set"), arms("sender_dropped_without_set")
        for key in sorted(set(a1) & set(a2), key=str):
            arm, kind = key
            if kind == "grant":
                ok = a1[key][0] == a2[key][0]
                ctx.ob("R6.sibling-agreement", f"arm:{arm}|grant", ok, flows["sender_dropped_without_set"][0].loc(),
                       f"set(): acquire state {a1[key][0]}; sender_dropped_without_set(): {a2[key][0]}")
            else:
                ok = (a1[key][1] in ("R", "R-")) == (a2[key][1] in ("R", "R-"))
                ctx.ob("R6.sibling-agreement", f"arm:{arm}|handover", ok, flows["sender_dropped_without_set"][0].loc(),
                       f"set(): last write {a1[key][1]}; sender_dropped_without_set(): {a2[key][1]}")

    # ---------------- R3
    for name in ("set", "sender_dropped_without_set", "poll_bound", "final_poll"):
        if name not in flows:
            continue
        b, f = flows[name]
        evs = [e for e in atomic_events(b) if e["field"] and e["field"].endswith(STATE) and e["op"] not in ("load",)]
        for bb, path, s in return_sites(b):
            if classify(name, path) != "handover":
                continue
            # last writes that can reach this return without another write in between
            wblocks = [e["bb"] for e in evs]
            for e in evs:
                w = e["bb"]
                between = b.reachable(b.term_succ(w, False), unwind=False, avoid=[x for x in wblocks if x != w])
                if bb not in between:
                    continue
                # on a CAS the write only happened on the success edge; restrict to blocks dominated by... keep simple
                bad = []
                for x in sorted(between):
                    if x not in b.reachable([x], unwind=False) or bb not in b.reachable([x], unwind=False):
                        continue
                    blk = b.blocks[x]
                    t = blk.term
                    ops = []
                    if t["k"] == "call":
                        ops = t["args"]
                    for o in ops:
                        pl = op_place(o)
                        if pl is None:
                            continue
                        ty = b.local_ty(pl["l"])
                        if ty["k"] in ("ref", "refmut", "ptrmut", "ptrconst"):
                            sl = Slice(b, through_calls=True).run(o)
                            if 1 in sl["args"] and (any(fl.startswith("events_once::core::sync::Event::") for fl in sl["fields"])
                                                    or "Event<" in ty["s"]):
                                k = callee_key(t["callee"])
                                if e["op"].startswith("compare_exchange") and x in failure_side(b, e):
                                    continue
                                bad.append(f"bb{x}: {k.split('::')[-1]}({ty['s']})")
                arm = arm_of(b, bb)
                ctx.ob("R3.no-access-after-handover", f"{name}|arm:{arm}|after:{e['op']}", not bad, b.loc(e["term"]["span"]),
                       f"event accesses reachable after the hand-over write ({e['op']}) before returning {path}: {bad or 'none'}")

    # ---------------- R4 release discipline
    ALLOWED = {
        "events_once::core::sync_sender::SenderCore::send",
        "<events_once::core::sync_sender::SenderCore<E, T> as std::ops::Drop>::drop",
        "<events_once::core::sync_receiver::ReceiverCore<E, T> as futures::Future>::poll",
        "<events_once::core::sync_receiver::ReceiverCore<E, T> as std::future::Future>::poll",
        "events_once::core::sync_receiver::ReceiverCore::into_value",
        "<events_once::core::sync_receiver::ReceiverCore<E, T> as std::ops::Drop>::drop",
    }
    TRANS = ("sync::Event::set", "sync::Event::sender_dropped_without_set", "sync::Event::poll", "sync::Event::final_poll")
    rel_callers = []
    for b in prog.bodies:
        for bb, t in b.calls():
            c = t["callee"]
            if c.get("method") == "release_event" and (c.get("trait") or "").endswith("sync_refs::EventRef"):
                rel_callers.append((b, bb, t))
    by_fn = {}
    for b, bb, t in rel_callers:
        by_fn.setdefault(b.key, []).append((b, bb, t))
    for k, sites in sorted(by_fn.items()):
        b = sites[0][0]
        ctx.fn(b)
        ok = k in ALLOWED
        det = "caller is one of the five endpoint functions" if ok else "release_event called from a function outside the endpoint table"
        pc = path_count(b, [bb for _, bb, _ in sites])
        ok = ok and pc is not None and pc[1] <= 1
        det += f"; calls per normal path {pc}"
        # guarded by the transition result
        g_ok = True
        for _, bb, t in sites:
            gs = switch_guards(b, bb)
            hit = False
            for g in gs:
                dl = g.get("discr_local")
                if dl is None:
                    continue
                sl = Slice(b).run({"k": "copy", "place": {"l": dl, "p": []}})
                if any(any(kk.endswith(tr) for tr in TRANS) for kk, _, _ in sl["calls"]):
                    hit = True
            g_ok = g_ok and hit
        ok = ok and g_ok
        det += f"; every site control-dependent on a transition result: {g_ok}"
        if "sync_receiver" in k:
            # Option::take of event_ref dominates release; receiver functions
            takes = [bb for bb, t in b.calls() if t["callee"].get("method") == "take" and "Option" in callee_key(t["callee"])]
            dom = b.dominators(unwind=False)
            tk = bool(takes) and all(any(x in dom[bb] for x in takes) for _, bb, _ in sites)
            ok = ok and tk
            det += f"; Option::take of the event reference dominates the release: {tk}"
        ctx.ob("R4.release-discipline", short(k), ok, b.loc(), det)
    for k in sorted(ALLOWED):
        pass
    n_expected = 5
    ctx.ob("R4.release-discipline", "caller-count", len({k for k in by_fn if k in ALLOWED}) >= n_expected, "",
           f"{len(by_fn)} functions call EventRef::release_event: {[short(k) for k in sorted(by_fn)]}")

    # ---------------- R5 storage strategies
    impls = [b for b in prog.bodies if b.name == "release_event" and (b.impl_trait or "").endswith("sync_refs::EventRef") and not b.is_closure]
    uc = UserCode(prog)
    for b in impls:
        ctx.fn(b)
        selfty = short(b.impl_self or "?")
        prims = reach_prims(prog, uc, b)
        if "BoxedRef" in selfty:
            ok = len(prims) == 1 and prims[0][0] in ("dealloc", "Box::from_raw")
            det = f"reaches {prims}"
            # allocation side uses the same layout/type
            if ok and prims[0][0] == "dealloc":
                newp = [x for x in prog.bodies if x.key.endswith("sync_refs::BoxedRef::new_pair")]
                if newp:
                    al = [callee_key(t["callee"]) for bb, t in newp[0].calls() if callee_key(t["callee"]).endswith("alloc::alloc")]
                    ok = len(al) == 1
                    det += f"; new_pair allocates with {al}"
        elif "PtrRef" in selfty:
            ok = not prims
            det = f"caller-embedded storage: no deallocation expected, reaches {prims or 'none'}"
        else:
            ok = len(prims) == 1
            det = f"reaches {prims}"
        ctx.ob("R5.storage-strategies", selfty, ok, b.loc(), det)

    # endpoint layer: nothing but release_event after the sender's finishing transition returned
    from .c07 import endpoint_no_use_after_finish
    endpoint_no_use_after_finish(ctx, prog, "R3.no-access-after-handover", "events_once::core::sync::Event::")
    from .c07 import endpoint_receiver_drop
    endpoint_receiver_drop(ctx, prog, "R4.release-discipline", "events_once::core::sync::Event::", "sync_receiver::ReceiverCore")
    from .c07 import endpoint_receiver_poll
    endpoint_receiver_poll(ctx, prog, "R4.release-discipline", "sync_receiver::ReceiverCore")
    from .c07 import protected_reference_rule
    protected_reference_rule(ctx, "R3.no-access-after-handover", "events_once::core::sync::Event", "events_once::core::sync::Event")
    from .c07 import endpoint_sender_drop
    endpoint_sender_drop(ctx, prog, "R4.release-discipline", "events_once::core::sync::Event::", "sync_sender::SenderCore")
    # every release_event impl: nothing touches the event (self) after the storage has been given back
    for b in prog.bodies:
        if b.name != "release_event" or b.is_closure or "sync_refs" not in b.key and "sync" not in b.key:
            continue
        if "local" in b.key:
            continue
        frees = [(bb, t) for bb, t in b.calls() if not b.blocks[bb].cleanup and (
            callee_key(t["callee"]).endswith(("alloc::dealloc", "Box::from_raw", "mem::drop", "ptr::drop_in_place", "destroy_event", "remove", "remove_unpin", "release"))
            or t["callee"].get("method") in ("dealloc", "destroy_event"))]
        frees += [(blk.idx, blk.term) for blk in b.blocks if blk.term["k"] == "drop" and not blk.cleanup and "Box<" in blk.term["ty"]["s"] and "Event" in blk.term["ty"]["s"]]
        if not frees:
            continue
        ctx.fn(b)
        late = []
        for fb, _t in frees:
            for x in sorted(b.successors_reach(fb, unwind=False)):
                tt = b.blocks[x].term
                if tt["k"] == "call" and not b.blocks[x].cleanup and tt["args"]:
                    for o in tt["args"]:
                        if 1 in Slice(b).run(o)["args"] and (x, tt) not in frees:
                            late.append(f"{callee_key(tt['callee']).split('::')[-1]}@{b.loc(tt['span'])}")
                            break
        ctx.ob("R5.storage-strategies", f"{b.impl_self or b.key}.nothing-after-free", not late, b.loc(),
               f"calls on the event reference after the storage was given back: {sorted(set(late)) or 'none'}")

    # ---------------- rules shared with C05 (anchored in the same functions of core/sync.rs)
    ctx.import_rules("C05", {
        "R7.transition-table": "the storage is released exactly once only while both endpoints follow the protocol's transitions: a store where a compare-exchange is required overwrites the peer's transition and then neither endpoint (or both) releases",
        "R9.transition-on-every-path": "an endpoint that leaves without a transition never tells the peer that it may release",
        "R10.weak-cas-only-in-retry-loop": "a spurious failure taken for a real one sends the endpoint down an arm that releases (or leaks) on the strength of a state that was never there",
    })


def short(k):
    return k.replace("events_once::", "")


def failure_side(body, e):
    """Blocks only reachable through the Err arm of the switch on this CAS's result (best effort): a `match` on the
    Result's discriminant, or a branch on `.is_ok()` / `.is_err()` of it (possibly through a named boolean)."""
    out = set()
    dl = e["dest"]
    # boolean form
    for bb, t in body.calls():
        m = t["callee"].get("method")
        if m in ("is_ok", "is_err") and t["args"]:
            src = Slice(body, through_calls=False).run(t["args"][0])
            if dl not in src["locals"]:
                continue
            for blk in body.blocks:
                tt = blk.term
                if tt["k"] != "switch":
                    continue
                gl = op_local(tt["discr"])
                hops = 0
                while gl is not None and hops < 4 and gl != t["dest"]["l"]:
                    d0 = body.unique_def(gl)
                    if d0 and d0[2] == "assign" and d0[3]["rv"]["k"] == "use" and op_local(d0[3]["rv"]["op"]) is not None:
                        gl = op_local(d0[3]["rv"]["op"])
                        hops += 1
                    else:
                        break
                if gl != t["dest"]["l"]:
                    continue
                zero = [tg for v, tg in tt["arms"] if v == 0]
                other = tt["otherwise"]
                # is_ok: false (0) = failure; is_err: true (otherwise) = failure
                fail_t, ok_t = (zero, [other]) if m == "is_ok" else ([other], zero)
                if fail_t:
                    out |= body.reachable(fail_t, unwind=False, avoid=ok_t)
    if out:
        return out
    for b in body.blocks:
        t = b.term
        if t["k"] == "switch":
            l = op_local(t["discr"])
            d = body.unique_def(l) if l is not None else None
            if d and d[2] == "assign" and d[3]["rv"]["k"] == "discr" and d[3]["rv"]["place"]["l"] == dl:
                for v, tgt in t["arms"]:
                    if v == 1:
                        ok_t = [tt for vv, tt in t["arms"] if vv == 0]
                        out = body.reachable([tgt], unwind=False, avoid=ok_t)
    return out


def arm_of(body, bb):
    """Which previous-state constant(s) guard this block (from dominating switches on small integers), as text."""
    vals = []
    for g in switch_guards(body, bb):
        src = g["src"]
        if src.get("kind") in ("call", "local", "place") or src.get("kind") == "discr":
            al = sorted(str(a) for a in g["allowed"])
            if src.get("kind") == "discr":
                continue
            if len(al) <= 2:
                vals.append("/".join(al))
    return ",".join(vals) if vals else "-"


def reach_prims(prog, uc, body, depth=6):
    """Deallocation/return primitives reachable from a release_event impl."""
    out = []
    seen = set()

    def walk(b, d):
        if b.key in seen or d == 0:
            return
        seen.add(b.key)
        for bb, t in b.calls():
            if b.blocks[bb].cleanup:
                continue
            k = callee_key(t["callee"])
            if k.endswith("alloc::dealloc"):
                out.append(("dealloc", b.key.split("::")[-1]))
            elif k.endswith("Box::from_raw") or k.endswith("boxed::Box::from_raw"):
                out.append(("Box::from_raw", b.key.split("::")[-1]))
            elif k.split("::")[-1] in ("remove", "remove_unpin") and "infinity_pool" in k:
                out.append(("pool.remove", k.split("::")[-2]))
            else:
                cb = prog.body_for_callee(t["callee"])
                if cb is not None:
                    walk(cb, d - 1)
                for c2 in uc.linked_closures(b, t):
                    walk(c2, d - 1)
        for blk in b.blocks:
            if blk.term["k"] == "drop" and not blk.cleanup and blk.term["ty"].get("needs_drop"):
                ty = blk.term["ty"]["s"]
                if "Box<" in ty and "Event" in ty:
                    out.append(("Box drop", ty[:60]))

    walk(body, depth)
    return out

"""C13 - region values: own writes visible, ordered, never persistently stale (region_cached, region_local)."""
from ..analysis import (path_count, Slice, switch_guards, UserCode, calls_to, who_calls, atomic_events, field_assigns)
from ..mir import callee_key, callee_paths, op_local, op_place, strip_generics, op_access_path

EXPL = ("Decides structural necessary conditions of C13 on MIR of region_cached and region_local: (R1) a write draws its "
        "generation, publishes the latest value and only then invalidates the regions; (R2) when the generation found "
        "installed differs from the one intended, the initialiser re-invalidates and retries; (R3) validate-after-install: "
        "every path from the regional install to leaving the install loop re-loads the latest value (or the install is a "
        "compare-and-swap against the initialising marker) - otherwise a write that publishes and invalidates in the "
        "window is overwritten and the stale copy is served until the next write; (R4) the scope guard that resets the "
        "slot and releases waiters is armed before the user Clone runs and defused only after the regional store; (R5) "
        "the per-thread regional state is resolved inside the linked instance factory (per instance, on the thread that "
        "uses it), and region_local writes exactly the slot indexed by the caller's current memory region.")
NOT = "Not decided: visibility/ordering over all interleavings of readers and writers across regions."


def short(k):
    return k.replace("region_cached::", "rc::").replace("region_local::", "rl::")


def run(ctx):
    ctx.explanation = EXPL
    ctx.not_decided = NOT
    prog = ctx.prog("region_cached", "region_local")
    uc = UserCode(prog)
    ctx.rule("R1.publish-then-invalidate", "set_global: generation fetch_add -> latest_value.store -> invalidate_regions (each dominating the next)", floor=1)
    ctx.rule("R2.mismatch-retries", "generation mismatch arm reaches invalidate_regions and loops", floor=1)
    ctx.rule("R3.validate-after-install", "no path from RegionalState::initialize to the outer re-read without re-loading latest_value (or CAS install)", floor=1, shape_dependent=True)
    ctx.rule("R4.guard-brackets-clone", "scopeguard armed before T::clone, defused after the regional store; its closure resets the slot and sets the event", floor=2)
    ctx.rule("R5.per-thread-region-resolution", "try_locate_regional_state is called from the linked instance factory closure only; set_local indexes by current_memory_region_id", floor=3)

    ctx.rule("R6.invalidate-visits-every-region", "invalidate_regions clears every initialised regional slot: the loop runs over all of regional_states to exhaustion, skipping (not stopping at) uninitialised slots", floor=1)
    ctx.rule("R7.fresh-generation-per-write", "the generation drawn for a write can never equal the initial value's generation: next_generation starts above the constant stamped on the initial value, and is only ever incremented", floor=2)
    ctx.rule("R8.install-does-not-clobber-set", "region_local: the initialiser (and its panic cleanup) replaces only its own `Initializing` marker (compare_and_swap) - an unconditional store there would overwrite a set_local that completed while the user initialiser ran", floor=2)
    ctx.rule("R9.single-install-door", "RegionalState::initialize (the only function that installs a regional copy) is called from the reader path with_in_region alone, and a regional state is created empty: invalidate_regions skips slots that do not exist yet, so a state born with a copy, or a copy installed by a writer, escapes the invalidation of a concurrent write", floor=2)
    rcv = "region_cached::region_cached::RegionCached"
    invalidate_and_generation_rules(ctx, prog)
    # ---- R9
    callers = sorted({b.key.split("::{closure")[0] for b, _bb, _t in who_calls(prog, "region_cached::RegionalState::initialize") if "::tests" not in b.key})
    ok = callers == ["region_cached::region_cached::RegionCached::with_in_region"]
    ctx.ob("R9.single-install-door", "initialize-callers", ok, "", f"callers of RegionalState::initialize: {[c.split('::')[-1] for c in callers]} (need exactly with_in_region, which re-validates after installing)")
    wrs = prog.one("region_cached::GlobalState::with_regional_state")
    if wrs is None:
        ctx.missing("R9.single-install-door", "GlobalState::with_regional_state")
    else:
        extra = []
        for c in prog.closures_of(wrs):
            goi = None
            for _bb, t in c.calls():
                k = callee_key(t["callee"]).split("::")[-1]
                if k not in ("new", "default", "clone", "from", "into"):
                    extra.append(k)
        # only the creation closure (handed to get_or_init) is constrained: it builds and wraps, nothing else
        creators = []
        for bb, t in wrs.calls():
            if t["callee"].get("method") in ("get_or_init", "get_or_insert_with", "get_or_try_init"):
                for a in t["args"]:
                    l = op_local(a)
                    if l is not None:
                        creators += wrs.local_ty(l).get("closures", [])
        bad = []
        for ck in creators:
            cb = prog.by_key.get(strip_generics(ck))
            if cb:
                bad += [callee_key(t["callee"]).split("::")[-1] for _bb, t in cb[0].calls() if callee_key(t["callee"]).split("::")[-1] not in ("new", "default")]
        ctx.ob("R9.single-install-door", "regional-state-born-empty", not bad, wrs.loc(), f"calls in the creation closure other than constructors: {bad or 'none'}")
    local_install_rule(ctx, prog)
    # every user of a region's state works on THE state stored in the region's slot (what other threads of the region and the
    # writers reach), never on a private copy that lost the first-touch race
    n_w = 0
    for wb in prog.find("GlobalState::with_regional_state"):
        if "::tests" in wb.key:
            continue
        ctx.fn(wb)
        from ..analysis import fn_bound_params
        for bb, t in wb.calls():
            c = t["callee"]
            st_ = c.get("self_ty") or {}
            if wb.blocks[bb].cleanup or c.get("method") not in ("call_once", "call", "call_mut") or st_.get("k") != "param" or len(t["args"]) < 2:
                continue
            n_w += 1
            sl = Slice(wb, through_calls=False).run(t["args"][1])
            calls = sorted({k.split("::")[-1] for k, _, _ in sl["calls"]})
            from_slot = bool(set(calls) & {"get_or_init", "get", "get_or_try_init", "wait"}) and not (set(calls) & {"new", "default", "clone", "from"})
            ctx.ob("R9.single-install-door", f"{wb.crate}.with_regional_state.f-runs-on-the-slot-content#{n_w}", from_slot, wb.loc(t["span"]),
                   f"the state handed to the caller's closure derives directly from {calls}" +
                   ("" if from_slot else ": not read back from the slot - a thread that loses the race to fill the slot keeps working on an orphan no writer or sibling ever sees"))
    if n_w == 0:
        ctx.missing("R9.single-install-door", "calls of the closure parameter in GlobalState::with_regional_state (region_cached / region_local)")
    # which region a thread is served from is decided from the thread's PIN (or re-resolved per access), never from the default
    # processor set: `SystemHardware::processors()` is limited by the processor-time QUOTA, not by where the thread can run
    offenders = []
    for b in prog.bodies:
        if "::tests" in b.key or b.crate not in ("region_cached", "region_local"):
            continue
        for bb, t in b.calls():
            k = callee_key(t["callee"])
            if not b.blocks[bb].cleanup and (k.endswith("SystemHardware::processors") or k.endswith("SystemHardware::all_processors")):
                offenders.append(f"{short(b.key)} at {b.loc(t['span'])}")
    ctx.ob("R5.per-thread-region-resolution", "no-region-decision-from-the-default-processor-set", not offenders, "",
           f"uses of SystemHardware::processors()/all_processors() in the region crates: {offenders or 'none'}" +
           ("" if not offenders else " - a quota-limited set that happens to lie in one region says nothing about the regions an unpinned thread may move to: it would cache a foreign region for good"))
    sg = prog.one("region_cached::RegionCached::set_global")
    if sg is None:
        ctx.missing("R1.publish-then-invalidate", "RegionCached::set_global")
    else:
        ctx.fn(sg)
        dom = sg.dominators(unwind=False)
        fa = [e for e in atomic_events(sg) if e["op"] == "fetch_add" and e["field"] and e["field"].endswith("next_generation")]
        st = [(bb, t) for bb, t in sg.calls() if t["callee"].get("method") == "store" and "ArcSwap" in callee_key(t["callee"]) or
              (t["callee"].get("method") == "store" and "arc_swap" in callee_key(t["callee"]))]
        inv = calls_to(sg, "GlobalState::invalidate_regions")
        ok = len(fa) == 1 and len(st) == 1 and len(inv) == 1
        det = f"fetch_add {len(fa)}, latest_value.store {len(st)}, invalidate_regions {len(inv)}"
        if ok:
            ok = fa[0]["bb"] in dom[st[0][0]] and st[0][0] in dom[inv[0][0]]
            r, fs = op_access_path(sg, st[0][1]["args"][0])
            ok = ok and bool(fs) and fs[-1].endswith("GlobalState::latest_value")
            # the stored value carries the drawn generation and the parameter value
            sl = Slice(sg).run(st[0][1]["args"][1])
            ok = ok and any(k.endswith("fetch_add") for k, _, _ in sl["calls"]) and 2 in sl["args"]
            det += f"; order generation < publish < invalidate and the published value carries both: {ok}"
        ctx.ob("R1.publish-then-invalidate", "set_global", ok, sg.loc(), det)

    wir = prog.one("region_cached::RegionCached::with_in_region")
    if wir is None:
        ctx.missing("R3.validate-after-install", "RegionCached::with_in_region")
    else:
        ctx.fn(wir)
        ini = calls_to(wir, "RegionalState::initialize")
        lds = [(bb, t) for bb, t in wir.calls() if t["callee"].get("method") == "load" and "arc_swap" in callee_key(t["callee"]).lower() or
               (t["callee"].get("method") == "load" and "ArcSwap" in t["callee"]["full"])]
        # only loads of the GLOBAL latest value count as re-validation (a load of the regional slot proves nothing: the installing
        # store has just overwritten any invalidation there)
        lds = [(bb, t) for bb, t in lds if t["args"] and (op_access_path(wir, t["args"][0])[1] or [""])[-1].endswith("GlobalState::latest_value")]
        twv = calls_to(wir, "RegionalState::try_with_value")
        inv = calls_to(wir, "GlobalState::invalidate_regions")
        ok = len(ini) == 1 and len(twv) == 1 and bool(lds)
        if not ok:
            ctx.ob("R3.validate-after-install", "with_in_region.shape", False, wir.loc(), f"initialize sites {len(ini)}, try_with_value sites {len(twv)}, latest_value.load sites {len(lds)}")
        else:
            ibb = ini[0][0]
            # R2: mismatch arm -> invalidate -> back to the inner loop
            ok2 = len(inv) >= 1
            if ok2:
                # from a mismatch (Ne) the invalidate is reached; find the comparison of the two generations
                cmp_ok = False
                for g in switch_guards(wir, inv[0][0]):
                    if g["src"].get("kind") in ("binop", "cmp") and g.get("discr_local") is not None:
                        d = wir.unique_def(g["discr_local"])
                        if d and d[2] == "assign" and d[3]["rv"]["k"] == "binop" and d[3]["rv"]["op"] in ("Eq", "Ne"):
                            sa = Slice(wir).run(d[3]["rv"]["a"])
                            sb = Slice(wir).run(d[3]["rv"]["b"])
                            ks = {k.split("::")[-1] for k, _, _ in sa["calls"] + sb["calls"]}
                            if "initialize" in ks and "load" in ks:
                                cmp_ok = True
                back = ibb in wir.successors_reach(inv[0][0], unwind=False)
                ok2 = cmp_ok and back
            ctx.ob("R2.mismatch-retries", "with_in_region", ok2, wir.loc(),
                   "invalidate_regions is control-dependent on the comparison of intended vs installed generation and leads back to initialize")
            # R3
            after_loads = [bb for bb, _ in lds]
            r = wir.reachable(wir.term_succ(ibb, False), unwind=False, avoid=after_loads)
            escaped = twv[0][0] in r
            cas_install = False
            initb = prog.one("region_cached::RegionalState::initialize")
            if initb is not None:
                ctx.fn(initb)
                stores = [(bb, t) for bb, t in initb.calls() if t["callee"].get("method") == "store" and "arc_swap" in callee_key(t["callee"]).lower()]
                cass = [(bb, t) for bb, t in initb.calls() if t["callee"].get("method") == "compare_and_swap"]
                # a Ready value installed with store (not CAS)?
                ready_store = False
                for bb, t in stores:
                    sl = Slice(initb).run(t["args"][1])
                    if any(c2.get("variant") == "Ready" for c2 in sl["consts"]) or any("Ready" in str(s) for s in
                                                                                          [x for blk in initb.blocks for x in blk.stmts if x["k"] == "assign" and x["rv"]["k"] == "aggr" and x["rv"].get("variant") == "Ready" and x["place"]["l"] in sl["locals"]]):
                        ready_store = True
                cas_install = not ready_store and len(cass) >= 2
            # the value a RETRY installs is loaded anew: the load that feeds initialize() lies on the way back from a failed
            # validation to the next install (a snapshot taken once before the loop makes every retry re-install the same
            # outdated value: validation fails forever - a livelock that also keeps serving the overwritten value)
            isl = Slice(wir).run(ini[0][1]["args"][-1]) if ini[0][1]["args"] else {"calls": []}
            feed = [bbx for bbx, tx in lds if any(ct is tx for _k, _b, ct in isl["calls"])]
            # no cycle through initialize() avoids the feeding load
            fresh = bool(feed) and ibb not in wir.reachable(wir.term_succ(ibb, False), unwind=False, avoid=feed)
            ctx.ob("R3.validate-after-install", "with_in_region.retry-installs-a-fresh-load", fresh, wir.loc(ini[0][1]["span"]),
                   f"latest_value.load() sites feeding initialize(): {len(feed)}; each is re-executed on the way back to a retry: {fresh}")
            ok3 = (not escaped) or cas_install
            ctx.ob("R3.validate-after-install", "with_in_region", ok3, wir.loc(ini[0][1]["span"]),
                   f"outer re-read reachable from initialize() without re-loading latest_value: {escaped}; Ready installed by compare-and-swap against the marker: {cas_install}"
                   + ("" if ok3 else " - RegionalState::clear() overwrites the marker unconditionally, so a write that publishes and invalidates inside the window is lost and the region serves the stale copy until the next write"))

    # ---------------- R4
    for crate, mod in (("region_cached", "region_cached::region_cached"), ("region_local", "region_local::region_local")):
        for b in [x for x in prog.bodies if x.key in (f"{mod}::RegionalState::initialize", f"{mod}::RegionalState::set") and not x.is_closure]:
            ctx.fn(b)
            dom = b.dominators(unwind=False)
            g = [(bb, t) for bb, t in b.calls() if callee_key(t["callee"]).endswith("scopeguard::guard")]
            defuse = [(bb, t) for bb, t in b.calls() if callee_key(t["callee"]).endswith("ScopeGuard::into_inner")]
            usr = [blk.idx for blk in b.blocks if not blk.cleanup and (uc.direct(b, blk.idx) or ("",))[0] in ("U1-generic", "U4-fnptr", "P")]
            # a derived Clone of a wrapper around T (GenerationValue<T>) calls T::clone
            for bb, t in b.calls():
                if not b.blocks[bb].cleanup and t["callee"].get("method") == "clone" and any(ta.get("param") for ta in t["callee"].get("targs", [])) \
                        and "Arc" not in t["callee"]["full"] and bb not in usr:
                    usr.append(bb)
            stores = [(bb, t) for bb, t in b.calls() if t["callee"].get("method") in ("store", "compare_and_swap", "swap") and "arc_swap" in callee_key(t["callee"]).lower()]
            if not g and not usr:
                continue
            ok = len(g) == 1 and len(defuse) == 1 and bool(usr) and all(g[0][0] in dom[u] for u in usr) and \
                any(s in dom[defuse[0][0]] and g[0][0] in dom[s] for s, _ in stores)
            det = f"guard sites {len(g)}, defuse sites {len(defuse)}, user-code sites (Clone / initializer) {usr}"
            if ok:
                cl = uc.linked_closures(b, g[0][1])
                okc = False
                for c in cl:
                    st2 = [t for bb, t in c.calls() if t["callee"].get("method") in ("store", "compare_and_swap", "swap")]
                    sets = [t for bb, t in c.calls() if t["callee"].get("method") == "set"]
                    okc = bool(st2) and bool(sets)
                ok = okc
                det += f"; guard closure resets the slot and sets the event: {okc}"
            ctx.ob("R4.guard-brackets-clone", short(b.key), ok, b.loc(), det)

    # ---------------- R5
    for crate, ty in (("region_cached", "region_cached::region_cached::RegionCached"), ("region_local", "region_local::region_local::RegionLocal")):
        callers = who_calls(prog, ty.split("::", 1)[1] + "::try_locate_regional_state") if False else \
            [(b, bb, t) for b in prog.bodies for bb, t in b.calls() if callee_key(t["callee"]) == ty + "::try_locate_regional_state"]
        ok = bool(callers) and all(b.is_closure and strip_generics(b.root).endswith("::with_hardware") for b, _, _ in callers)
        ctx.ob("R5.per-thread-region-resolution", f"{crate}.locate-in-instance-factory", ok, callers[0][0].loc(callers[0][2]["span"]) if callers else "",
               f"callers of try_locate_regional_state: {[short(b.key) for b, _, _ in callers]} (must be the linked::new! factory closure, evaluated per instance on the using thread)")
    sl_ = prog.one("region_local::RegionLocal::set_local")
    if sl_ is None:
        ctx.missing("R5.per-thread-region-resolution", "RegionLocal::set_local")
    else:
        ctx.fn(sl_)
        wrs = calls_to(sl_, "GlobalState::with_regional_state")
        ok = len(wrs) == 1 and not any(sl_.in_loop(bb) for bb, _ in wrs)
        if ok:
            s = Slice(sl_).run(wrs[0][1]["args"][1])
            ok = any(k.endswith("current_memory_region_id") for k, _, _ in s["calls"]) and not s["binops"]
        ctx.ob("R5.per-thread-region-resolution", "region_local.set_local-writes-own-region", ok, sl_.loc(),
               "set_local updates exactly the slot of current_memory_region_id() (no loop over regions)")


def invalidate_and_generation_rules(ctx, prog):
    from ..analysis import loop_visits_all
    from ..mir import resolve_const
    inv = prog.one("region_cached::GlobalState::invalidate_regions")
    if inv is None:
        ctx.missing("R6.invalidate-visits-every-region", "GlobalState::invalidate_regions")
    else:
        ctx.fn(inv)
        from ..analysis import element_ops
        def _is_clear(t, _b=[None]):
            if (t["callee"].get("method") == "clear" and "RegionalState" in callee_key(t["callee"])) or callee_key(t["callee"]).endswith("RegionalState::clear"):
                return True
            # `clear()` written out: the regional slot's value is overwritten (store/swap) - in an invalidation pass that is the clearing
            if t["callee"].get("method") in ("store", "swap") and "arc_swap" in callee_key(t["callee"]).lower() and t["args"]:
                for bd_ in [inv] + prog.closures_of(inv):
                    if any(tt is t for _bb, tt in bd_.calls()):
                        _r, fs = op_access_path(bd_, t["args"][0])
                        return bool(fs) and fs[-1].endswith("RegionalState::value")
            return False
        eo = element_ops(prog, inv, _is_clear)
        # `for_each(RegionalState::clear)` passes the function itself: the op is then the adaptor call
        fe = [(bb, t) for bb, t in inv.calls() if t["callee"].get("method") == "for_each" and "RegionalState::clear" in t["callee"].get("full", "")]
        ok = (bool(eo) and all(e["ok"] for e in eo)) or bool(fe)
        det = f"RegionalState::clear applied to every slot: {[e['form'] + ': ' + e['detail'] for e in eo] or [t['callee']['full'][:80] for _b, t in fe]}"
        src_ok = False
        srcs = [(e["in"], e["src"]) for e in eo if e["src"] is not None] + [(inv, t["args"][0]) for _b, t in fe]
        for bd_, op_ in srcs:
            src_ok = src_ok or any(f.endswith("GlobalState::regional_states") for f in Slice(bd_).run(op_)["fields"])
        if fe and not eo:
            from ..analysis import iter_chain, POSITIONAL_CUT
            ok = ok and not (set(iter_chain(inv, fe[0][1]["args"][0])) & POSITIONAL_CUT)
        ok = ok and src_ok
        det += f"; iterates regional_states: {src_ok}"
        ctx.ob("R6.invalidate-visits-every-region", "invalidate_regions", ok, inv.loc(), det)
    new = prog.one("region_cached::GlobalState::new")
    if new is None:
        ctx.missing("R7.fresh-generation-per-write", "GlobalState::new")
        return
    ctx.fn(new)
    gen0 = None
    next0 = None
    for blk in new.blocks:
        for st in blk.stmts:
            if st["k"] == "assign" and st["rv"]["k"] == "aggr":
                names = st["rv"].get("fields") or []
                adt = str(st["rv"].get("adt", ""))
                if adt.endswith("GenerationValue") and "generation" in names:
                    c = resolve_const(new, st["rv"]["ops"][names.index("generation")])
                    gen0 = c.get("val") if c else None
                if "next_generation" in names:   # (on GlobalState itself, or on a private struct grouping its publication state)
                    sl = Slice(new).run(st["rv"]["ops"][names.index("next_generation")])
                    vs = [c.get("val") for c in sl["consts"] if "val" in c]
                    news = [k for k, _b, _t in sl["calls"] if k.endswith("::new")]
                    next0 = vs[0] if len(vs) == 1 and news else None
    ok = gen0 is not None and next0 is not None and next0 > gen0
    ctx.ob("R7.fresh-generation-per-write", "initial-constants", ok, new.loc(),
           f"initial value's generation = {gen0}; next_generation starts at {next0} (must be strictly greater)")
    # next_generation only ever advanced by fetch_add of a positive constant
    ops = []
    for b in prog.bodies:
        if b.crate != "region_cached":
            continue
        for e in atomic_events(b):
            if e["field"] and e["field"].endswith("next_generation") and e["op"] not in ("load",):
                ops.append((b, e))
    ok = bool(ops) and all(e["op"] == "fetch_add" and e["vals"] and isinstance(e["vals"][0], int) and e["vals"][0] >= 1 for _b, e in ops)
    ctx.ob("R7.fresh-generation-per-write", "monotone", ok, ops[0][0].loc() if ops else "",
           f"writes to next_generation: {[(b.name, e['op'], e['vals']) for b, e in ops]}")


def local_install_rule(ctx, prog):
    RID = "R8.install-does-not-clobber-set"
    ini = prog.one("region_local::region_local::RegionalState::initialize") or prog.one("region_local::RegionalState::initialize")
    cands = [b for b in prog.bodies if b.crate == "region_local" and b.name == "initialize" and not b.is_closure]
    if not cands:
        ctx.missing(RID, "region_local RegionalState::initialize")
        return
    ini = cands[0]
    ctx.fn(ini)
    n = 0
    for b in [ini] + prog.closures_of(ini):
        for bb, t in b.calls():
            k = callee_key(t["callee"])
            m = t["callee"].get("method")
            if "arc_swap" not in k.lower() and "ArcSwap" not in k:
                continue
            if m in ("load", "load_full", "deref", "as_ref"):
                continue
            sl = Slice(b).run(t["args"][0]) if t["args"] else {"fields": set(), "upvars": set()}
            on_value = any(f.endswith("RegionalState::value") for f in sl["fields"]) or b.is_closure
            if not on_value:
                continue
            n += 1
            ok = m in ("compare_and_swap", "rcu")
            ctx.ob(RID, f"{'initialize' if not b.is_closure else 'initialize.cleanup'}|{m}#{n}", ok, b.loc(t["span"]),
                   f"slot write `{m}` in the initialiser{' (panic cleanup closure)' if b.is_closure else ''}: " +
                   ("conditional on the expected current value" if ok else
                    "unconditional - a set_local that completed while the user initialiser ran is overwritten and the region serves the older value from then on"))
    if n == 0:
        ctx.missing(RID, "slot writes in region_local initialize")

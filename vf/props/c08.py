"""C08 - reset events: no signal lost, duplicated or delivered to two (events, awaiter_set) - weakest, structural form."""
from ..analysis import (path_count, Slice, switch_guards, UserCode, GuardLiveness, guard_target, calls_to, who_calls,
                        atomic_events, acquireish, releaseish, field_assigns, WAKER_FNS)
from ..evtflow import return_sites, variant_path
from ..analysis import discr_source, guard_src_place  # noqa: E402
from ..mir import callee_key, callee_paths, op_local, op_place, strip_generics, op_access_path, resolve_const

EXPL = ("Linearizability is NOT decided. Decided, on MIR of events and awaiter_set, are structural necessary conditions of "
        "'no lost / duplicated signal': (R1) wakers are invoked only after the waiter-list mutex guard is gone; (R2) "
        "set-flag-then-recheck: in each poll_wait every path from fetch_or(HAS_WAITERS) to AwaiterSet::register re-reads "
        "the signal, returns Ready on the signalled arm without registering, and register runs under the lock after the "
        "notification re-check made under the lock; (R3) HAS_WAITERS is cleared only under the lock, control-dependent on "
        "is_empty() or on the lone-would-be-waiter arm; (R4) cancelling an auto-reset wait decides on is_notified() read "
        "UNDER the lock and the notified arm forwards (notify_one + wake) or restores (store SIGNALED), the other arm "
        "unregisters; (R5) manual set publishes IS_SET (release-ish) before consulting HAS_WAITERS, advances the "
        "generation before the drain loop, and the loop only removes prior-generation waiters; (R6) signal publication "
        "is release-ish and consumption acquire-ish; (R7) awaiter-list discipline: an awaiter's generation is stamped "
        "only when it is linked at the tail (never on re-registration), its waker is set before it becomes WAITING, "
        "NOTIFIED/IDLE are set only after unlinking, and the prior-generation test reads the head.")
NOT = ("Not decided: linearizability, delivery over all interleavings and weak-memory executions, the single-threaded "
       "(Local*) pair's borrow discipline.")

MODS = (("auto", "SIGNALED"), ("manual", "IS_SET"))
HAS_WAITERS = 2
SIG = 1


def short(k):
    return k.replace("events::", "").replace("awaiter_set::", "aset::")


def state_events(b, mod):
    return [e for e in atomic_events(b) if e["field"] and e["field"].endswith(f"{mod}::EventInner::state")]


def _reaches_waker_call(prog, b, bb, methods, depth=4):
    """Does the call at bb of b invoke Waker::<one of methods>, itself or through functions of the analysed crates?"""
    t = b.blocks[bb].term

    def is_hit(tt):
        c = tt["callee"]
        st = c.get("self_ty") or {}
        k = callee_key(c)
        if c.get("method") in methods and ("task::Waker" in k or "task::wake::Waker" in k or (st.get("head", "") or "").endswith("Waker")):
            return True
        return False
    if is_hit(t):
        return b.loc(t["span"])
    seen = set()
    work = [(prog.body_for_callee(t["callee"]), depth)]
    while work:
        cb, d = work.pop()
        if cb is None or cb.key in seen or d == 0:
            continue
        seen.add(cb.key)
        for b2, t2 in cb.calls():
            if cb.blocks[b2].cleanup:
                continue
            if is_hit(t2):
                return f"{cb.name} -> {cb.loc(t2['span'])}"
            work.append((prog.body_for_callee(t2["callee"]), d - 1))
    return None


def signal_takes(b, mod="auto"):
    """Attempts to consume the stored signal inside b: calls of EventInner::try_wait, or - when that one-line helper is
    written out / spliced in - the fetch_and that clears SIGNALED."""
    out = [{"bb": bb, "term": t, "form": "call", "name": "try_wait"} for bb, t in calls_to(b, f"{mod}::EventInner::try_wait")]
    if b.name != "try_wait":
        for e in state_events(b, mod):
            v = e["vals"][0] if e["vals"] else None
            if e["op"] == "fetch_and" and v is not None and (v & SIG) == 0 and (v & HAS_WAITERS) and not b.blocks[e["bb"]].cleanup:
                out.append({"bb": e["bb"], "term": e["term"], "form": "inline", "name": "try_wait"})
    return out


def take_failed(b, g, site):
    """Does switch guard g say: the consumption attempt `site` found no signal?"""
    src = g["src"]
    if site["form"] == "call":
        return src.get("kind") == "call" and src.get("bb") == site["bb"] and g["allowed"] == {0}
    # (previous & SIGNALED) != 0 / == 0 on the result of the fetch_and
    if src.get("kind") != "cmp" or src.get("const") != 0 or src.get("op") not in ("Ne", "Eq"):
        return False
    inner = src.get("lhs") or {}
    if not (inner.get("kind") == "cmp" and inner.get("op") == "BitAnd" and inner.get("const") == SIG):
        return False
    call = inner.get("lhs") or {}
    if not (call.get("kind") == "call" and call.get("bb") == site["bb"]):
        return False
    if src["op"] == "Ne":
        return g["allowed"] == {0}
    return bool(g["allowed"]) and 0 not in g["allowed"]


def run(ctx):
    ctx.explanation = EXPL
    ctx.not_decided = NOT
    prog = ctx.prog("events", "awaiter_set")
    uc = UserCode(prog)
    ctx.rule("R1.wake-outside-mutex", "no Waker::wake while a MutexGuard<AwaiterSet> is live", floor=3)
    ctx.rule("R2.set-flag-then-recheck", "fetch_or(HAS_WAITERS) -> re-read signal -> (Ready without registering | register under lock after notification re-check)", floor=6)
    ctx.rule("R3.has-waiters-clear-discipline", "fetch_and(!HAS_WAITERS) only under the lock and only after is_empty()==true or on the re-check arm of poll_wait", floor=6)
    ctx.rule("R4.cancel-forwards-or-restores", "auto drop_wait: is_notified() read under the lock; notified arm: notify_one+wake or store(SIGNALED); else unregister", floor=2)
    ctx.rule("R5.manual-drain", "fetch_or(IS_SET, release-ish) first; advance_generation dominates the drain loop; loop uses notify_one_prior_generation only", floor=3)
    ctx.rule("R6.orderings", "signal publication release-ish, signal consumption acquire-ish", floor=6)
    ctx.rule("R8.local-borrow-not-across-wake", "single-threaded events: no `&mut` view of the waiter list / state obtained before a waker callback is used after it (the callback may re-enter and take its own)", floor=4)
    ctx.rule("R8.local-signal-forwarding", "single-threaded auto-reset set / cancel-of-notified: notify_one's waker is woken, and when nobody waits the signal is stored (state = Set)", floor=4)
    ctx.rule("R8.local-manual-set", "single-threaded manual-reset set: flag stored before the drain, advance_generation before the loop, loop drains prior generations until None, only skip is `already set`", floor=3)
    ctx.rule("R8.local-poll", "single-threaded poll_wait: notification consumed first; register only while unset; the auto-reset signal is consumed exactly on the Ready arm", floor=4)
    ctx.rule("R9.pending-after-register", "all four poll_wait: a Pending result is produced only after AwaiterSet::register was called with the waker handed to THIS poll (a re-poll with a new waker must replace the stored one)", floor=4)
    ctx.rule("R10.one-consumption-per-poll", "auto-reset poll_wait: a second attempt to consume a signal (try_wait / take_notification) is made only when the previous attempt on that path returned false: one wait never swallows two signals", floor=6)
    ctx.rule("R11.flag-word-bitwise", "the manual-reset event's state word carries two independent flags (IS_SET, HAS_WAITERS): every write is a bit-wise read-modify-write (fetch_or / fetch_and / compare_exchange), never a whole-word store or swap that would wipe the other flag", floor=4)
    ctx.rule("R7.awaiter-list-discipline", "generation stamped only on fresh tail-link; waker set before WAITING; NOTIFIED/IDLE after unlink; prior-generation test on the head", floor=6)

    for mod, sigconst in MODS:
        fn = {b.name: b for b in prog.bodies if b.key.startswith(f"events::{mod}::EventInner::") and not b.is_closure}
        for need in ("set", "poll_wait", "drop_wait"):
            if need not in fn:
                ctx.missing("R2.set-flag-then-recheck", f"{mod}::EventInner::{need}")
        if "poll_wait" not in fn:
            continue
        for b in fn.values():
            ctx.fn(b)
        # ---------------- R1
        for name, b in sorted(fn.items()):
            gl = GuardLiveness(b)
            wakes = [(bb, t) for bb, t in b.calls() if callee_paths(t["callee"]) & WAKER_FNS and not b.blocks[bb].cleanup]
            for i, (bb, t) in enumerate(wakes):
                live = [gl.guard_locals[l] for l in gl.live_at_term(bb)]
                ctx.ob("R1.wake-outside-mutex", f"{mod}.{name}.wake#{i}", not live, b.loc(t["span"]),
                       f"Waker::wake with guards live: {live or 'none'}")
            # a waker CLONE is a user callback as well (and may panic): made while the waiter-list guard is live, a panic in it
            # poisons the event's mutex - every later set() panics and the waiters already registered are never released.
            # (Waker DROPs under the guard - register replacing a stored waker, unregister - are existing behaviour, not judged.)
            for bb, t in b.calls():
                if b.blocks[bb].cleanup or not gl.live_at_term(bb):
                    continue
                hit = _reaches_waker_call(prog, b, bb, ("clone", "clone_from"))
                ctx.ob("R1.wake-outside-mutex", f"{mod}.{name}.no-waker-clone-under-lock@{callee_key(t['callee']).split('::')[-1]}", hit is None, b.loc(t["span"]),
                       f"call made with the waiter-list guard live; reaches Waker::clone: {hit or 'no'}")
        # ---------------- R2
        b = fn["poll_wait"]
        dom = b.dominators(unwind=False)
        gl = GuardLiveness(b)
        evs = state_events(b, mod)
        fo = [e for e in evs if e["op"] == "fetch_or" and e["vals"] == [HAS_WAITERS]]
        reg = calls_to(b, "AwaiterSet::register")
        ok = len(fo) == 1 and len(reg) == 1
        det = f"fetch_or(HAS_WAITERS) sites {len(fo)}, register sites {len(reg)}"
        if ok:
            fbb, rbb = fo[0]["bb"], reg[0][0]
            # re-read of the signal between the two
            if mod == "auto":
                takes = [x for x in signal_takes(b, mod) if fbb in dom[x["bb"]]]
                rereads = [x["bb"] for x in takes]
            else:
                rereads = [e["bb"] for e in evs if e["op"] == "load" and fbb in dom[e["bb"]]]
            okp, _ = b.must_pass(b.term_succ(fbb, False), rereads, [rbb])
            # register only on the not-signalled arm of that re-read
            g_ok = False
            for g in switch_guards(b, rbb, dom=dom):
                src = g["src"]
                if mod == "auto" and any(take_failed(b, g, x) for x in takes):
                    g_ok = True
                if mod == "manual" and src.get("kind") in ("cmp", "binop") and g.get("discr_local") is not None:
                    sl = Slice(b, through_calls=False).run({"k": "copy", "place": {"l": g["discr_local"], "p": []}})
                    if any(bb2 in rereads for _, bb2, _ in sl["calls"]):
                        # (state & IS_SET) != 0  -> false arm
                        g_ok = g["allowed"] == {0}
            under = bool(gl.live_at_term(rbb))
            # signalled arm returns Ready without registering: from the re-read's true arm register is unreachable
            ok = okp and g_ok and under
            det += f"; every path fetch_or->register re-reads the signal: {okp}; register only on its not-signalled arm: {g_ok}; register under the lock: {under}"
        ctx.ob("R2.set-flag-then-recheck", f"{mod}.poll_wait.recheck", ok, b.loc(), det)
        # notification re-check under the lock dominates register
        tn = [(bb, t) for bb, t in b.calls() if t["callee"].get("method") == "take_notification"]
        lk = [(bb, t) for bb, t in b.calls() if t["callee"].get("method") == "lock" and "Mutex" in callee_key(t["callee"])]
        ok = len(reg) == 1 and len(lk) == 1 and any(lk[0][0] in dom[bb] and bb in dom[reg[0][0]] for bb, _ in tn)
        ctx.ob("R2.set-flag-then-recheck", f"{mod}.poll_wait.notification-recheck-under-lock", ok, b.loc(),
               f"take_notification sites {len(tn)}; one of them lies between lock() and register: {ok}")
        # signal re-check under the lock before setting the flag
        if mod == "auto":
            pre = [x["bb"] for x in signal_takes(b, mod) if lk and lk[0][0] in dom[x["bb"]] and fo and x["bb"] in dom[fo[0]["bb"]]]
        else:
            pre = [e["bb"] for e in evs if e["op"] == "load" and lk and lk[0][0] in dom[e["bb"]] and fo and e["bb"] in dom[fo[0]["bb"]]]
        ctx.ob("R2.set-flag-then-recheck", f"{mod}.poll_wait.signal-check-under-lock-before-flag", bool(pre), b.loc(),
               "the signal is checked under the lock before HAS_WAITERS is set")

        # ---------------- R3
        for name, b2 in sorted(fn.items()):
            gl2 = GuardLiveness(b2)
            evs2 = state_events(b2, mod)
            for e in evs2:
                if e["op"] == "fetch_and" and e["vals"] and e["vals"][0] is not None and (e["vals"][0] & HAS_WAITERS) == 0 and (e["vals"][0] & SIG):
                    under = bool(gl2.live_at_term(e["bb"]))
                    gs = switch_guards(b2, e["bb"])
                    emp = any(g["src"].get("kind") == "call" and g["src"]["term"]["callee"].get("method") == "is_empty" and 0 not in g["allowed"] for g in gs)
                    lone = name == "poll_wait" and any(x["op"] == "fetch_or" and x["bb"] in b2.dominators(False)[e["bb"]] for x in evs2)
                    ctx.ob("R3.has-waiters-clear-discipline", f"{mod}.{name}.clear@{len([1 for o in ctx.obs if o['rule']=='R3.has-waiters-clear-discipline'])}", under and (emp or lone), b2.loc(e["term"]["span"]),
                           f"fetch_and(!HAS_WAITERS): under the lock {under}; after is_empty()==true {emp}; on the lone-waiter re-check arm {lone}")
        # ---------------- R6
        pub = []
        cons = []
        for name, b2 in sorted(fn.items()):
            for e in state_events(b2, mod):
                o = e["ords"]
                if e["op"] in ("compare_exchange", "compare_exchange_weak") and e["vals"][:2] == [0, SIG]:
                    pub.append((name, e, releaseish(o[0])))
                if e["op"] == "store" and e["vals"] == [SIG]:
                    pub.append((name, e, releaseish(o[0])))
                if e["op"] == "fetch_or" and e["vals"] == [SIG]:
                    pub.append((name, e, releaseish(o[0])))
                if e["op"] == "fetch_and" and e["vals"] and e["vals"][0] is not None and (e["vals"][0] & SIG) == 0 and (e["vals"][0] & HAS_WAITERS) and mod == "auto":
                    cons.append((name, e, acquireish(o[0])))
                if e["op"] == "load" and mod == "manual" and name in ("try_wait", "poll_wait"):
                    cons.append((name, e, acquireish(o[0])))
        for name, e, ok in pub:
            ctx.ob("R6.orderings", f"{mod}.{name}.publish:{e['op']}{e['vals']}", ok, fn[name].loc(e["term"]["span"]), f"ordering {e['ords']} (must be release-ish)")
        for name, e, ok in cons:
            ctx.ob("R6.orderings", f"{mod}.{name}.consume:{e['op']}#{e['bb']}", ok, fn[name].loc(e["term"]["span"]), f"ordering {e['ords']} (must be acquire-ish)")

    # ---------------- R4 (auto only)
    b = prog.one("auto::EventInner::drop_wait")
    if b is None:
        ctx.missing("R4.cancel-forwards-or-restores", "auto::EventInner::drop_wait")
    else:
        gl = GuardLiveness(b)
        inn = [(bb, t) for bb, t in b.calls() if t["callee"].get("method") == "is_notified"]
        ok = len(inn) == 1 and bool(gl.live_at_term(inn[0][0]))
        ctx.ob("R4.cancel-forwards-or-restores", "is_notified-read-under-lock", ok, b.loc(inn[0][1]["span"]) if inn else b.loc(),
               f"is_notified() sites {len(inn)}; read with the waiter-list lock held: {ok}" +
               ("" if ok else " - a set() that notifies this awaiter between the read and the lock makes the cancel drop the signal"))
        if len(inn) == 1:
            ibb = inn[0][0]
            no = calls_to(b, "AwaiterSet::notify_one")
            st = [e for e in state_events(b, "auto") if e["op"] == "store" and e["vals"] == [SIG]]
            un = calls_to(b, "AwaiterSet::unregister")
            okc = len(no) == 1 and len(st) == 1 and len(un) == 1
            if okc:
                def arm(bb):
                    for g in switch_guards(b, bb):
                        if g["src"].get("kind") == "call" and g["src"].get("bb") == ibb:
                            return "notified" if 0 not in g["allowed"] else "not"
                    return None
                okc = arm(no[0][0]) == "notified" and arm(st[0]["bb"]) == "notified" and arm(un[0][0]) == "not"
                # on the notified arm every path reaches (wake) or (store SIGNALED)
                wk = [bb for bb, t in b.calls() if callee_paths(t["callee"]) & WAKER_FNS]
                okp, _ = b.must_pass(b.term_succ(no[0][0], False), wk + [st[0]["bb"]], b.exits(("return",)))
                okc = okc and okp
            ctx.ob("R4.cancel-forwards-or-restores", "notified-arm-forwards-or-restores", okc, b.loc(),
                   "notified arm: notify_one() then wake the next waiter, or store(SIGNALED) when there is none; other arm: unregister")
        # the signal restored is the full SIGNALED publication (release-ish) - covered by R6
    # ---------------- R5 (manual set)
    b = prog.one("manual::EventInner::set")
    if b is None:
        ctx.missing("R5.manual-drain", "manual::EventInner::set")
    else:
        dom = b.dominators(unwind=False)
        evs = state_events(b, "manual")
        fo = [e for e in evs if e["op"] == "fetch_or" and e["vals"] == [SIG]]
        ok = len(fo) == 1 and all(fo[0]["bb"] in dom[e["bb"]] for e in evs) and releaseish(fo[0]["ords"][0])
        # HAS_WAITERS consulted from the fetch_or's previous value
        ctx.ob("R5.manual-drain", "publish-before-consult", ok, b.loc(), "fetch_or(IS_SET) is the first state operation, release-ish, and its previous value drives the slow path")
        ag = calls_to(b, "AwaiterSet::advance_generation")
        npg = calls_to(b, "AwaiterSet::notify_one_prior_generation")
        n1 = calls_to(b, "AwaiterSet::notify_one")
        ok = len(ag) == 1 and len(npg) == 1 and not n1 and ag[0][0] in dom[npg[0][0]] and b.in_loop(npg[0][0]) and not b.in_loop(ag[0][0])
        ctx.ob("R5.manual-drain", "advance-then-drain-prior-generation", ok, b.loc(),
               f"advance_generation sites {len(ag)} (outside the loop), notify_one_prior_generation sites {len(npg)} (inside the loop), notify_one sites {len(n1)}")
        # loop exits only when notify_one_prior_generation returned None
        if len(npg) == 1:
            nbb = npg[0][0]
            fwd = b.reachable(b.term_succ(nbb, False), unwind=False)
            loop = {x for x in fwd if nbb in b.reachable(b.term_succ(x, False), unwind=False)} | {nbb}
            exits_ok = True
            det = []
            dest = npg[0][1]["dest"]["l"]
            for u in sorted(loop):
                if b.blocks[u].cleanup:
                    continue
                for v in b.term_succ(u, False):
                    if v in loop or b.blocks[v].cleanup:
                        continue
                    t = b.blocks[u].term
                    okx = False
                    if t["k"] == "switch":
                        src = discr_source(b, op_local(t["discr"]))
                        pl = guard_src_place(src)
                        if src.get("kind") == "discr" and pl is not None:
                            sl = Slice(b, through_calls=False).run({"k": "copy", "place": {"l": pl["l"], "p": []}})
                            labels = [lab for lab, tgt in t["arms"] if tgt == v] + (["otherwise"] if t["otherwise"] == v else [])
                            some_labels = [lab for lab, tgt in t["arms"] if lab == 1]
                            okx = dest in sl["locals"] and 1 not in labels
                    exits_ok = exits_ok and okx
                    det.append(f"exit bb{u}->bb{v}: on the None arm of the drained waker: {okx}")
            ctx.ob("R5.manual-drain", "drain-until-none", exits_ok and bool(det), b.loc(), "; ".join(det) or "no loop exit found")
        # the only way to skip the drain is `previous & HAS_WAITERS == 0`
        if len(fo) == 1 and len(ag) == 1:
            fbb, abb = fo[0]["bb"], ag[0][0]
            rets = b.exits(("return",))
            skip = b.reachable(b.term_succ(fbb, False), unwind=False, avoid=[abb])
            edges = []
            for blk in b.blocks:
                t = blk.term
                if t["k"] != "switch" or blk.idx not in skip:
                    continue
                src = discr_source(b, op_local(t["discr"]))
                if src.get("kind") == "cmp" and src.get("op") in ("Eq", "Ne") and src.get("const") == 0 and src.get("lhs_local") is not None:
                    sl = Slice(b, through_calls=False).run({"k": "copy", "place": {"l": src["lhs_local"], "p": []}})
                    cs = [c.get("val") for c in sl["consts"] if "val" in c]
                    if "BitAnd" in sl["binops"] and cs == [HAS_WAITERS] and fo[0]["dest"] in sl["locals"]:
                        tgt_true = t["otherwise"]
                        tgt_false = [tg for lab, tg in t["arms"] if lab == 0]
                        # the skipping edge is the one where (prev & HAS_WAITERS) == 0 holds
                        e = (blk.idx, tgt_true) if src["op"] == "Eq" else (blk.idx, tgt_false[0]) if tgt_false else None
                        if e:
                            edges.append(e)
            skip2 = b.reachable(b.term_succ(fbb, False), unwind=False, avoid=[abb], avoid_edges=edges)
            other = [r for r in rets if r in skip2]
            ctx.ob("R5.manual-drain", "skip-only-without-waiters", bool(edges) and not other, b.loc(),
                   f"sanctioned skip edges (previous & HAS_WAITERS == 0): {edges}; return reachable without draining by another route: {bool(other)}")

    local_rules(ctx, prog)
    poll_rules(ctx, prog)
    flag_word_rule(ctx, prog)
    future_drop_rule(ctx, prog)
    lifecycle_orderings(ctx, prog)
    # ---------------- R7 awaiter_set
    reg = prog.one("AwaiterSet::register")
    if reg is None:
        ctx.missing("R7.awaiter-list-discipline", "AwaiterSet::register")
    else:
        ctx.fn(reg)
        gen_w = []
        for bd in prog.bodies:
            if bd.crate != "awaiter_set":
                continue
            for bb, i, s in field_assigns(bd, "awaiter::Inner::generation"):
                gen_w.append((bd, bb, s))
        ok = len(gen_w) == 1 and gen_w[0][0].key == reg.key
        det = f"writes to Inner::generation: {[short(bd.key) + '@' + bd.loc(s['span']) for bd, _, s in gen_w]}"
        if ok:
            gbb = gen_w[0][1]
            tail_w = [bb for bb, _, _ in field_assigns(reg, "AwaiterSet::tail")]
            prev_w = [bb for bb, _, _ in field_assigns(reg, "awaiter::Inner::prev")]
            okp, _ = reg.must_pass([gbb], tail_w, reg.exits(("return",))) if gbb not in tail_w else (True, None)
            sl = Slice(reg, through_calls=False).run(gen_w[0][2]["rv"]["op"]) if gen_w[0][2]["rv"]["k"] == "use" else {"fields": set()}
            src_ok = "awaiter_set::set::AwaiterSet::generation" in sl["fields"]
            ok = okp and bool(prev_w) and src_ok
            det += f"; every path from the stamp to return links the awaiter at the tail: {okp}; stamp = the set's current generation: {src_ok}"
        ctx.ob("R7.awaiter-list-discipline", "generation-stamped-only-on-fresh-link", ok, reg.loc(), det)
        # a fresh link (re)writes BOTH link fields of the awaiter: remove()/unregister() leave them stale on purpose and rely on
        # register() to overwrite them - a stale `next` on an awaiter re-linked at the tail closes the list into a cycle
        if gen_w and gen_w[0][0].key == reg.key:
            gbb = gen_w[0][1]
            tail_w = [bb for bb, _, _ in field_assigns(reg, "AwaiterSet::tail")]
            oks = {}
            for fld in ("prev", "next"):
                ws = [bb for bb, _, _ in field_assigns(reg, f"awaiter::Inner::{fld}")]
                # written on the same fresh-link path as the generation stamp: every path from the stamp to the return passes a write
                okf, _ = reg.must_pass([gbb], ws, reg.exits(("return",))) if ws and gbb not in ws else (bool(ws), None)
                oks[fld] = okf
            ctx.ob("R7.awaiter-list-discipline", "fresh-link-resets-both-links", all(oks.values()), reg.loc(),
                   f"on the fresh-link path the awaiter's own link fields are written: {oks}")
        # waker set before WAITING
        dom = reg.dominators(unwind=False)
        sl_w = [(bb, t) for bb, t in reg.calls() if t["callee"].get("method") == "set_lifecycle"]
        wk_w = [bb for bb, _, _ in field_assigns(reg, "awaiter::Inner::waker")]
        ok = len(sl_w) == 1 and any(w in dom[sl_w[0][0]] for w in wk_w)
        c = resolve_const(reg, sl_w[0][1]["args"][1]) if sl_w else None
        ok = ok and bool(c) and (c.get("name") or "").endswith("awaiter::WAITING")
        ctx.ob("R7.awaiter-list-discipline", "waker-set-before-waiting", ok, reg.loc(), "inner.waker = Some(..) dominates set_lifecycle(WAITING); the re-registration arm replaces the waker only")
    for fname, const in (("remove", "NOTIFIED"), ("unregister", "IDLE")):
        b = prog.one(f"AwaiterSet::{fname}")
        if b is None:
            ctx.missing("R7.awaiter-list-discipline", f"AwaiterSet::{fname}")
            continue
        ctx.fn(b)
        dom = b.dominators(unwind=False)
        ul = calls_to(b, "AwaiterSet::unlink")
        sl_w = [(bb, t) for bb, t in b.calls() if t["callee"].get("method") == "set_lifecycle"]
        ok = len(ul) == 1 and len(sl_w) == 1 and ul[0][0] in dom[sl_w[0][0]]
        c = resolve_const(b, sl_w[0][1]["args"][1]) if sl_w else None
        ok = ok and bool(c) and (c.get("name") or "").endswith("awaiter::" + const)
        tk = [(bb, t) for bb, t in b.calls() if t["callee"].get("method") == "take" and "Option" in callee_key(t["callee"])]
        ok = ok and len(tk) == 1 and tk[0][0] in dom[sl_w[0][0]]
        ctx.ob("R7.awaiter-list-discipline", f"{fname}.unlink-take-then-{const}", ok, b.loc(), f"unlink and waker.take() dominate set_lifecycle({const})")
    pg = prog.one("AwaiterSet::notify_one_prior_generation")
    if pg is not None:
        ctx.fn(pg)
        rm = calls_to(pg, "AwaiterSet::remove")
        ok = len(rm) == 1
        if not rm:
            # `(head_generation < self.generation).then(|| self.remove(self.head))`: the removal sits in the closure of bool::then,
            # the comparison is the receiver of that call
            thens = [(bb, t) for bb, t in pg.calls() if t["callee"].get("method") == "then" and not pg.blocks[bb].cleanup]
            crm = [(c, bb, t) for c in prog.closures_of(pg) for bb, t in calls_to(c, "AwaiterSet::remove")]
            ok = len(thens) == 1 and len(crm) == 1
            if ok:
                c, _cbb, ct = crm[0]
                hf = any(f.endswith("AwaiterSet::head") for f in Slice(c).run(ct["args"][1])["fields"])
                dl = op_local(thens[0][1]["args"][0])
                d = pg.unique_def(dl) if dl is not None else None
                cmp_ok = False
                if d and d[2] == "assign" and d[3]["rv"]["k"] == "binop" and d[3]["rv"]["op"] in ("Lt", "Gt"):
                    sa, sb = Slice(pg).run(d[3]["rv"]["a"]), Slice(pg).run(d[3]["rv"]["b"])
                    fa = {f.split("::")[-1] for f in sa["fields"]}
                    fb = {f.split("::")[-1] for f in sb["fields"]}
                    # head.generation < set.generation (or the mirrored spelling)
                    head_side, set_side = (fa, fb) if d[3]["rv"]["op"] == "Lt" else (fb, fa)
                    cmp_ok = "head" in head_side and "generation" in head_side and "generation" in set_side and "head" not in set_side
                ok = hf and cmp_ok
            ctx.ob("R7.awaiter-list-discipline", "prior-generation-test-on-head", ok, pg.loc(), "(bool::then form) removes the head only when head.generation < set.generation")
        elif ok:
            r, fs = op_access_path(pg, rm[0][1]["args"][1])
            ok = bool(fs) and fs[-1].endswith("AwaiterSet::head")
            gs = switch_guards(pg, rm[0][0])
            cmp_ok = False
            for g in gs:
                if g["src"].get("kind") in ("binop", "cmp") and g.get("discr_local") is not None:
                    d = pg.unique_def(g["discr_local"])
                    if d and d[2] == "assign" and d[3]["rv"]["k"] == "binop" and d[3]["rv"]["op"] in ("Ge", "Lt", "Le", "Gt"):
                        sa = Slice(pg).run(d[3]["rv"]["a"])
                        sb = Slice(pg).run(d[3]["rv"]["b"])
                        fa = {f.split("::")[-1] for f in sa["fields"]}
                        fb = {f.split("::")[-1] for f in sb["fields"]}
                        cmp_ok = ("head" in fa or "head" in fb) and ("generation" in fa and "generation" in fb)
            ok = ok and cmp_ok
        if rm:
            ctx.ob("R7.awaiter-list-discipline", "prior-generation-test-on-head", ok, pg.loc(), "removes the head only when head.generation < set.generation")
    ag = prog.one("AwaiterSet::advance_generation")
    if ag is not None:
        ws = field_assigns(ag, "AwaiterSet::generation")
        ok = len(ws) == 1
        if ok:
            sl = Slice(ag).run(ws[0][2]["rv"]["op"]) if ws[0][2]["rv"]["k"] == "use" else {"calls": [], "consts": []}
            ok = any(k.endswith("wrapping_add") or k.endswith("checked_add") for k, _, _ in sl["calls"]) and any(c.get("val") == 1 for c in sl["consts"])
        ctx.ob("R7.awaiter-list-discipline", "advance_generation:+1", ok, ag.loc(), "generation = generation + 1")


def _uses_of(body, bb):
    """Locals read by statements / terminator of a block (as bare or projected places)."""
    out = []
    blk = body.blocks[bb]

    def add(o, sp):
        pl = op_place(o)
        if pl is not None:
            out.append((pl["l"], sp))
    for st in blk.stmts:
        if st["k"] != "assign":
            continue
        rv = st["rv"]
        for key in ("op", "a", "b"):
            if isinstance(rv.get(key), dict):
                add(rv[key], st.get("span"))
        for o in rv.get("ops", []) or []:
            add(o, st.get("span"))
        if isinstance(rv.get("place"), dict):
            out.append((rv["place"]["l"], st.get("span")))
        if st["place"]["p"]:
            out.append((st["place"]["l"], st.get("span")))
    t = blk.term
    if t["k"] == "call":
        for o in t["args"]:
            add(o, t.get("span"))
    return out


def local_rules(ctx, prog):
    fns = {}
    for mod in ("local_auto", "local_manual"):
        for b in prog.bodies:
            if b.key.startswith(f"events::{mod}::Inner::") and not b.is_closure:
                fns[(mod, b.name)] = b
        for need in ("set", "poll_wait", "drop_wait"):
            if (mod, need) not in fns:
                ctx.missing("R8.local-poll", f"{mod}::Inner::{need}")
    # ---- borrow liveness across waker callbacks
    for (mod, name), b in sorted(fns.items()):
        ctx.fn(b)
        wakes = [(bb, t) for bb, t in b.calls() if callee_paths(t["callee"]) & WAKER_FNS and not b.blocks[bb].cleanup]
        for blk in b.blocks:
            t = blk.term
            if t["k"] == "drop" and not blk.cleanup and "task::Waker" in b.local_ty(t["place"]["l"])["s"]:
                wakes.append((blk.idx, t))
        if not wakes:
            continue
        defs = b.defs()
        for i, (wbb, wt) in enumerate(wakes):
            after = b.reachable(b.term_succ(wbb, False), unwind=False)
            bad = []
            for a in sorted(after):
                if b.blocks[a].cleanup:
                    continue
                for l, sp in _uses_of(b, a):
                    ty = b.local_ty(l)
                    if ty["k"] != "refmut" or not ("AwaiterSet" in ty["s"] or "InnerState" in ty["s"]):
                        continue
                    dbbs = [d[0] for d in defs.get(l, [])]
                    # fresh if every path from the callback to this use re-executes a definition of the reference
                    okp = bool(dbbs) and all(x in after for x in dbbs) and b.must_pass(b.term_succ(wbb, False), dbbs, [a], unwind=False)
                    okp = okp[0] if isinstance(okp, tuple) else okp
                    if not okp:
                        bad.append(f"_{l}:{ty['s'].split('::')[-1]}@{b.loc(sp) if sp else a}")
            ctx.ob("R8.local-borrow-not-across-wake", f"{mod}.{name}.callback#{i}", not bad, b.loc(wt.get("span")),
                   f"stale &mut views used after the callback: {sorted(set(bad))[:5]}" if bad else "every &mut view used after the callback is re-derived after it")
    # ---- auto: signal forwarding in set and drop_wait
    for name in ("set", "drop_wait"):
        b = fns.get(("local_auto", name))
        if b is None:
            continue
        if name == "drop_wait" and calls_to(b, "local_auto::Inner::set"):
            # the cancelled-notification branch may hand over to the event's own `set` instead of repeating its steps
            b = prog.inlined_body(b, lambda cb: cb.key == "events::local_auto::Inner::set")
        n1 = calls_to(b, "AwaiterSet::notify_one")
        wk = [(bb, t) for bb, t in b.calls() if t["callee"].get("method") == "wake" and "task::Waker" in callee_key(t["callee"])]
        stores = []
        for blk in b.blocks:
            for st in blk.stmts:
                if st["k"] == "assign" and st["place"]["p"] == ["*"] and "InnerState" in b.local_ty(st["place"]["l"])["s"]:
                    c = resolve_const(b, st["rv"]["op"]) if st["rv"]["k"] == "use" else (st["rv"] if st["rv"]["k"] == "aggr" else None)
                    var = (c or {}).get("variant")
                    stores.append((blk.idx, var))
        set_stores = [bb for bb, v in stores if v == "Set"]
        ok = len(n1) == 1 and len(wk) == 1 and len(set_stores) >= 1
        det = [f"notify_one sites {len(n1)}, wake sites {len(wk)}, `state = Set` stores {len(set_stores)}"]
        if ok:
            nbb, nt = n1[0]
            # the woken waker is notify_one's result
            sl = Slice(b).run(wk[0][1]["args"][0])
            from_n = any(t is nt for _k, _b, t in sl["calls"])
            # None arm -> store Set on every path
            sw = b.blocks[nt["target"]].term if isinstance(nt.get("target"), int) else None
            none_ok = False
            if sw and sw["k"] == "switch":
                none_t = [tg for lab, tg in sw["arms"] if lab == 0] or ([sw["otherwise"]] if all(lab == 1 for lab, _ in sw["arms"]) else [])
                if none_t:
                    r = b.must_pass(none_t, set_stores, b.exits(("return",)), unwind=False)
                    none_ok = r[0] if isinstance(r, tuple) else r
            # Set stored only when nobody was notified
            only_none = True
            for sb in set_stores:
                gs = switch_guards(b, sb)
                g = [x for x in gs if x["src"].get("kind") == "discr" and (guard_src_place(x["src"]) or {}).get("l") == nt["dest"]["l"]]
                only_none = only_none and bool(g) and all(1 not in x["allowed"] for x in g)
            # wake only with Some
            ok = from_n and none_ok and only_none
            det.append(f"woken waker is notify_one's result: {from_n}; None arm always stores Set: {none_ok}; Set stored only on the None arm: {only_none}")
        ctx.ob("R8.local-signal-forwarding", f"local_auto.{name}.forward", ok, b.loc(), "; ".join(det))
        if name == "drop_wait":
            # decided by is_notified(); non-notified arm unregisters
            isn = [(bb, t) for bb, t in b.calls() if t["callee"].get("method") == "is_notified"]
            unr = calls_to(b, "AwaiterSet::unregister")
            ok2 = len(isn) == 1 and len(unr) == 1 and len(n1) == 1
            if ok2:
                gu = [g for g in switch_guards(b, unr[0][0]) if g["src"].get("kind") == "call" and g["src"]["term"] is isn[0][1]]
                gn = [g for g in switch_guards(b, n1[0][0]) if g["src"].get("kind") == "call" and g["src"]["term"] is isn[0][1]]
                ok2 = bool(gu) and bool(gn) and all(g["allowed"] == {0} for g in gu) and all(0 not in g["allowed"] for g in gn)
            ctx.ob("R8.local-signal-forwarding", "local_auto.drop_wait.decided-by-is_notified", ok2, b.loc(),
                   "notified arm forwards (notify_one), other arm unregisters; both decided by one is_notified() read")
        else:
            # set: only the Unset arm notifies; Set arm does nothing (signal already stored)
            ctx.ob("R8.local-signal-forwarding", "local_auto.set.no-other-exit", ok and path_count(b, [n1[0][0]] if n1 else [])[1] == 1, b.loc(),
                   "notify_one reached at most once per call")
    # ---- manual set
    b = fns.get(("local_manual", "set"))
    if b is not None:
        dom = b.dominators(unwind=False)
        st_true = [(bb, t) for bb, t in b.calls() if t["callee"].get("method") == "set" and "cell::Cell" in callee_key(t["callee"])
                   and (resolve_const(b, t["args"][1]) or {}).get("val") == 1]
        ag = calls_to(b, "AwaiterSet::advance_generation")
        npg = calls_to(b, "AwaiterSet::notify_one_prior_generation")
        n1 = calls_to(b, "AwaiterSet::notify_one")
        # the flag and the generation bump are independent plain stores (no user code between them): either order is fine,
        # both must be complete before the first waker runs
        ok = len(st_true) == 1 and len(ag) == 1 and len(npg) == 1 and not n1 and st_true[0][0] in dom[npg[0][0]] and \
            ag[0][0] in dom[npg[0][0]] and b.in_loop(npg[0][0]) and not b.in_loop(ag[0][0]) and not b.in_loop(st_true[0][0])
        ctx.ob("R8.local-manual-set", "flag-advance-drain-order", ok, b.loc(),
               f"is_set.set(true) sites {len(st_true)} and advance_generation {len(ag)} (both before the loop) -> notify_one_prior_generation {len(npg)} (in loop); notify_one sites {len(n1)}")
        if len(npg) == 1:
            nbb = npg[0][0]
            fwd = b.reachable(b.term_succ(nbb, False), unwind=False)
            loop = {x for x in fwd if nbb in b.reachable(b.term_succ(x, False), unwind=False)} | {nbb}
            exits_ok = True
            n_ex = 0
            dest = npg[0][1]["dest"]["l"]
            for u in sorted(loop):
                for v in b.term_succ(u, False):
                    if v in loop or b.blocks[v].cleanup or b.blocks[u].cleanup:
                        continue
                    n_ex += 1
                    t = b.blocks[u].term
                    okx = False
                    if t["k"] == "switch":
                        src = discr_source(b, op_local(t["discr"]))
                        pl = guard_src_place(src)
                        labels = [lab for lab, tgt in t["arms"] if tgt == v]
                        same_val = pl is not None and (pl["l"] == dest or dest in Slice(b, through_calls=False).run({"k": "copy", "place": {"l": pl["l"], "p": []}})["locals"])
                        okx = src.get("kind") == "discr" and same_val and 1 not in labels
                    exits_ok = exits_ok and okx
            wk = [(bb, t) for bb, t in b.calls() if t["callee"].get("method") == "wake" and bb in loop]
            from_n = bool(wk) and all(any(t2 is npg[0][1] for _k, _b, t2 in Slice(b).run(t["args"][0])["calls"]) for _bb, t in wk)
            ctx.ob("R8.local-manual-set", "drain-until-none", exits_ok and n_ex >= 1 and from_n, b.loc(),
                   f"loop exits only on the None arm: {exits_ok} ({n_ex} exit edge(s)); each drained waker is woken: {from_n}")
        if st_true:
            sbb = st_true[0][0]
            rets = b.exits(("return",))
            skip = b.reachable([0], unwind=False, avoid=[sbb])
            edges = []
            for blk in b.blocks:
                t = blk.term
                if t["k"] == "switch" and blk.idx in skip:
                    src = discr_source(b, op_local(t["discr"]))
                    if src.get("kind") == "call" and src["term"]["callee"].get("method") == "get" and \
                            any(f.endswith("Inner::is_set") for f in Slice(b).run(src["term"]["args"][0])["fields"]):
                        edges.append((blk.idx, t["otherwise"]))
            skip2 = b.reachable([0], unwind=False, avoid=[sbb], avoid_edges=edges)
            other = [r for r in rets if r in skip2]
            ctx.ob("R8.local-manual-set", "skip-only-when-already-set", bool(edges) and not other, b.loc(),
                   f"return without storing the flag only through `is_set.get() == true`: {bool(edges) and not other}")
    # ---- poll_wait
    for mod in ("local_auto", "local_manual"):
        b = fns.get((mod, "poll_wait"))
        if b is None:
            continue
        dom = b.dominators(unwind=False)
        tn = [(bb, t) for bb, t in b.calls() if t["callee"].get("method") == "take_notification"]
        reg = calls_to(b, "AwaiterSet::register")
        ok = len(tn) == 1 and len(reg) == 1 and tn[0][0] in dom[reg[0][0]]
        if ok:
            g = [x for x in switch_guards(b, reg[0][0]) if x["src"].get("kind") == "call" and x["src"]["term"] is tn[0][1]]
            ok = bool(g) and all(x["allowed"] == {0} for x in g)
        ctx.ob("R8.local-poll", f"{mod}.notification-first", ok, b.loc(),
               "take_notification() is read once, dominates the registration, and registration happens only when it returned false")
        if len(reg) == 1:
            rbb = reg[0][0]
            gs = switch_guards(b, rbb)
            if mod == "local_manual":
                g = [x for x in gs if x["src"].get("kind") == "call" and x["src"]["term"]["callee"].get("method") == "get" and
                     any(f.endswith("Inner::is_set") for f in Slice(b).run(x["src"]["term"]["args"][0])["fields"])]
                ok = bool(g) and all(x["allowed"] == {0} for x in g)
                ctx.ob("R8.local-poll", f"{mod}.register-only-while-unset", ok, b.loc(reg[0][1]["span"]),
                       "registration is on the is_set.get() == false arm")
            else:
                g = [x for x in gs if x["src"].get("kind") == "discr" and "InnerState" in b.local_ty((guard_src_place(x["src"]) or {"l": 0})["l"])["s"]]
                ok = bool(g) and all(x["allowed"] and 1 not in x["allowed"] for x in g)
                # consumption: `*state = Unset(new)` only on the Set arm, which returns Ready
                cons = []
                for blk in b.blocks:
                    for st in blk.stmts:
                        if st["k"] == "assign" and st["place"]["p"] == ["*"] and "InnerState" in b.local_ty(st["place"]["l"])["s"]:
                            cons.append(blk.idx)
                c_ok = len(cons) == 1
                if c_ok:
                    g2 = [x for x in switch_guards(b, cons[0]) if x["src"].get("kind") == "discr" and
                          "InnerState" in b.local_ty((guard_src_place(x["src"]) or {"l": 0})["l"])["s"]]
                    # the Set arm: listed as 1, or the `otherwise` of a two-variant switch that lists only Unset (let-else form)
                    c_ok = bool(g2) and all(x["allowed"] == {1} or (x["allowed"] == {"otherwise"} and x.get("listed") == [0]) for x in g2) and \
                        rbb not in b.reachable([cons[0]], unwind=False)
                ctx.ob("R8.local-poll", f"{mod}.register-only-while-unset", ok, b.loc(reg[0][1]["span"]), "registration is on the Unset arm of the state")
                ctx.ob("R8.local-poll", f"{mod}.consume-on-ready", c_ok, b.loc(),
                       f"the stored signal is consumed (state = Unset) at {len(cons)} site(s), only on the Set arm, which does not register")


def poll_rules(ctx, prog):
    mods = {"auto": "events::auto::EventInner", "manual": "events::manual::EventInner", "local_auto": "events::local_auto::Inner", "local_manual": "events::local_manual::Inner"}
    for mod, prefix in mods.items():
        b = prog.one(f"{prefix}::poll_wait")
        if b is None:
            ctx.missing("R9.pending-after-register", f"{prefix}::poll_wait")
            continue
        ctx.fn(b)
        dom = b.dominators(unwind=False)
        wparams = [i for i in range(1, b.arg_count + 1) if b.local_ty(i)["s"].endswith("task::Waker")]
        regs = []
        for bb, t in b.calls():
            if t["callee"].get("method") == "register" and "AwaiterSet" in callee_key(t["callee"]) and t["args"]:
                sl = Slice(b).run(t["args"][-1])
                if sl["args"] & set(wparams):
                    regs.append(bb)
        n = 0
        for blk in b.blocks:
            if blk.cleanup:
                continue
            for st in blk.stmts:
                if st["k"] == "assign" and st["rv"]["k"] == "aggr" and st["rv"].get("variant") == "Pending" and st["place"]["l"] == 0:
                    n += 1
                    ok = any(r in dom[blk.idx] for r in regs)
                    ctx.ob("R9.pending-after-register", f"{mod}.poll_wait#{n}", ok, b.loc(st["span"]),
                           f"Pending is returned behind register(.., waker of this poll): {ok}" + ("" if ok else " - the task polling now is never woken"))
        if n == 0:
            ctx.missing("R9.pending-after-register", f"a literal Poll::Pending in {prefix}::poll_wait")
    # ---- one consumption per poll (thread-safe auto-reset)
    b = prog.one("events::auto::EventInner::poll_wait")
    if b is None:
        return
    sites = [{"bb": bb, "term": t, "form": "call", "name": "take_notification"} for bb, t in b.calls()
             if not b.blocks[bb].cleanup and t["callee"].get("method") == "take_notification"] + signal_takes(b, "auto")
    cons = [(x["bb"], x["term"]) for x in sites]
    pairs = 0
    for s1 in sites:
        bb1, t1 = s1["bb"], s1["term"]
        after = b.successors_reach(bb1, unwind=False)
        for s2 in sites:
            bb2, t2 = s2["bb"], s2["term"]
            if bb2 == bb1 or bb2 not in after:
                continue
            pairs += 1
            ok = False
            for g in switch_guards(b, bb2):
                if s1["form"] == "inline":
                    ok = ok or take_failed(b, g, s1)
                    continue
                sl = Slice(b).run(b.blocks[g["bb"]].term["discr"])
                if any(ct is t1 for _k, _b, ct in sl["calls"]) and g["allowed"] == {0}:
                    ok = True
            ctx.ob("R10.one-consumption-per-poll", f"auto.poll_wait:{s1['name']}@{_ordinal(cons, bb1)}->{s2['name']}@{_ordinal(cons, bb2)}", ok, b.loc(t2["span"]),
                   f"the later attempt runs only when the earlier one returned false: {ok}" + ("" if ok else " - a waiter that is both notified and facing a stored signal consumes both"))
    if pairs == 0:
        ctx.missing("R10.one-consumption-per-poll", "consumption attempts in events::auto::EventInner::poll_wait")


def _ordinal(cons, bb):
    return [x for x, _ in sorted(cons, key=lambda c: c[1]["span"]["line"])].index(bb)


def future_drop_rule(ctx, prog):
    """Dropping a wait future always hands the matter to the event's drop_wait (which decides under the lock whether the waiter
    is registered / notified and forwards or restores a notification): the future itself has no reliable knowledge of that - a
    wait that completed by consuming a STORED signal may still hold a notification from an earlier set()."""
    n = 0
    for b in prog.bodies:
        if b.name != "drop" or not (b.impl_trait or "").endswith("ops::Drop") or not (b.impl_adt or "").startswith("events::") or \
                not (b.impl_adt or "").endswith("WaitFuture") or "::tests" in b.key:
            continue
        n += 1
        ctx.fn(b)
        dw = [bb for bb, t in b.calls() if t["callee"].get("method") == "drop_wait" and not b.blocks[bb].cleanup]
        pc = path_count(b, dw)
        ctx.ob("R4.cancel-forwards-or-restores", f"{b.impl_adt.split('::')[-1]}.drop-always-reaches-drop_wait", pc == (1, 1), b.loc(),
               f"drop_wait calls per normal path of the future's Drop: {pc}" + ("" if pc == (1, 1) else " - on the skipping path a notification the waiter still holds is neither forwarded nor restored: one set() is lost"))
    if n == 0:
        ctx.missing("R4.cancel-forwards-or-restores", "Drop impls of the events::*WaitFuture types")


def flag_word_rule(ctx, prog):
    n = 0
    for b in prog.bodies:
        if not b.key.startswith("events::manual::EventInner::") or "::tests" in b.key:
            continue
        for e in state_events(b, "manual"):
            if e["op"] == "load":
                continue
            n += 1
            ok = e["op"] in ("fetch_or", "fetch_and", "compare_exchange", "compare_exchange_weak", "fetch_xor")
            ctx.ob("R11.flag-word-bitwise", f"manual.{b.key.split('EventInner::')[-1]}.{e['op']}{e['vals']}", ok, b.loc(e["term"]["span"]),
                   f"`{e['op']}` on the flag word" + ("" if ok else ": a whole-word write also clears/sets the OTHER flag - e.g. reset() wiping HAS_WAITERS makes the next set() skip the waiters"))
    if n == 0:
        ctx.missing("R11.flag-word-bitwise", "atomic writes on events::manual::EventInner::state")


def lifecycle_orderings(ctx, prog):
    """The awaiter's lifecycle byte is read outside the set's lock (fast paths of poll / drop): its stores must be release-ish and
    the reads that act on NOTIFIED / registration acquire-ish, or the waiter may reuse or free its node before the notifier's
    unlink is visible (and the notified task need not see what happened before the signal)."""
    n = 0
    for b in prog.bodies:
        if b.crate != "awaiter_set" or "::tests" in b.key:
            continue
        for bb, t in b.calls():
            if t["callee"].get("method") == "set_lifecycle" and len(t["args"]) >= 3:
                ords = [resolve_const(b, a) for a in t["args"][1:]]
                o = next((c.get("variant") for c in ords if c and str(c.get("adt", c.get("ty", ""))).endswith("atomic::Ordering")), None)
                n += 1
                ctx.ob("R6.orderings", f"awaiter_set.{b.key.split('::')[-1]}.set_lifecycle#{n}", releaseish(o), b.loc(t["span"]), f"lifecycle store ordering {o} (must be release-ish)")
        if "awaiter::Awaiter::" in b.key:
            for e in atomic_events(b):
                if not (e["field"] and e["field"].endswith("lifecycle")):
                    continue
                if e["op"] == "load" and b.name in ("take_notification", "is_notified", "is_registered"):
                    n += 1
                    ctx.ob("R6.orderings", f"awaiter_set.Awaiter::{b.name}.load", acquireish(e["ords"][0] if e["ords"] else None), b.loc(e["term"]["span"]), f"lifecycle load ordering {e['ords']} (must be acquire-ish)")
                if e["op"].startswith("compare_exchange"):
                    n += 1
                    ctx.ob("R6.orderings", f"awaiter_set.Awaiter::{b.name}.cas", acquireish(e["ords"][0] if e["ords"] else None), b.loc(e["term"]["span"]), f"lifecycle CAS success ordering {e['ords']} (must be acquire-ish)")
    if n < 5:
        ctx.missing("R6.orderings", f"awaiter lifecycle ordering sites (found {n})")

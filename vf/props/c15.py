"""C15 - future deque keeps deque order and never loses a wake-up (future_deque)."""
from ..analysis import (path_count, Slice, switch_guards, UserCode, GuardLiveness, calls_to, who_calls, atomic_events,
                        acquireish, releaseish, guard_src_place, WAKER_FNS, INF)
from ..mir import callee_key, callee_paths, op_local, op_place, strip_generics, op_access_path, resolve_const

EXPL = ("Decides structural necessary conditions of C15 on MIR of future_deque: (R1) reference-count effects of the "
        "hand-written RawWaker vtable on every path: clone +1, wake -1 (wake_by_ref then drop, both exactly once), "
        "wake_by_ref 0, drop -1, make_waker +1, metadata created with count 1, the free is control-dependent on the "
        "decrement having returned 1; (R2) the decrement is release-ish and the free is preceded by an acquire-ish "
        "read; (R3) the activation flag is swapped to 0 (check_activated) before the contained future is polled and the "
        "poll is control-dependent on it; a wake swaps it to 1 and wakes the parent only on the 0->1 arm, with the "
        "parent cloned under the lock and woken after the guard is gone; the deque's poll installs the current task's "
        "waker through an unconditional lock, skipped only when will_wake says it is already installed; (R4) slots "
        "leave the deque only through pop_front_if / pop_back_if whose predicate is the readiness test, or the drain in "
        "Drop; completion replaces the slot in place; no other reordering call on the slot deque; (R5) every path that "
        "destroys a Pending slot releases its metadata reference exactly once.")
NOT = ("Not decided: the popped sequence equals the reference deque for all histories; wake-up delivery over all "
       "interleavings of wakes, clones and drops on other threads.")

RC = "waker_meta::WakerMeta::ref_count"
ACT = "waker_meta::WakerMeta::activated"
SLOTS_OK = {"push_back", "push_front", "pop_front_if", "pop_back_if", "len", "is_empty", "iter", "iter_mut", "into_iter", "drain", "new"}


def short(k):
    return k.replace("future_deque::", "")


def run(ctx):
    ctx.explanation = EXPL
    ctx.not_decided = NOT
    prog = ctx.prog("future_deque")
    ctx.rule("R1.refcount-effects", "per-path reference count effect of each vtable function / constructor", floor=8)
    ctx.rule("R2.orderings", "ref_count decrement release-ish; free preceded by acquire-ish read; activation swaps AcqRel", floor=3)
    ctx.rule("R3.activation-protocol", "check_activated before poll_erased; wake: swap(1), parent woken only on 0->1, cloned under the lock, woken outside it; parent installed through an unconditional lock", floor=5)
    ctx.rule("R4.deque-order", "slot removals only via pop_front_if/pop_back_if(is_ready) or drain in Drop; completion by in-place replace; no reordering calls", floor=5)
    ctx.rule("R6.release-before-user-drop", "once a Pending slot has been moved out of the deque, its metadata reference is released before any user code (the future's Drop) can run and unwind past the release", floor=2)
    ctx.rule("R7.own-parent-cell", "every FutureDequeCore is built with a parent-waker cell of its own (a fresh Arc::new(Mutex::new(..)) made in the constructor): a cell shared between deques routes a wake to whichever deque was polled last", floor=1)
    ctx.rule("R5.metadata-balance", "each destruction of a Pending slot reaches release_ref(meta) exactly once", floor=3)

    wm = {b.name: b for b in prog.bodies if b.key.startswith("future_deque::waker_meta::") and not b.is_closure}
    for need in ("clone_raw_waker", "wake_raw_waker", "wake_by_ref_raw_waker", "drop_raw_waker", "make_waker", "release_ref", "check_activated", "create_waker_meta"):
        if need not in wm:
            ctx.missing("R1.refcount-effects", f"waker_meta::{need}")
    if "release_ref" not in wm:
        return
    for b in wm.values():
        ctx.fn(b)

    def rc_ops(b):
        return [e for e in atomic_events(b) if e["field"] and e["field"].endswith(RC)]

    def count_calls(b, suffix):
        cs = calls_to(b, suffix)
        return path_count(b, [bb for bb, _ in cs]), cs

    # ---------------- R1
    b = wm.get("clone_raw_waker")
    if b:
        ops = rc_ops(b)
        pc = path_count(b, [e["bb"] for e in ops if e["op"] == "fetch_add"])
        ok = pc == (1, 1) and all(e["op"] == "fetch_add" and e["vals"] == [1] for e in ops) and not calls_to(b, "waker_meta::release_ref")
        # returns a RawWaker over the same data pointer and vtable
        rw = [(bb, t) for bb, t in b.calls() if callee_key(t["callee"]).endswith("RawWaker::new")]
        same = len(rw) == 1 and Slice(b, through_calls=False).run(rw[0][1]["args"][0])["args"] == {1}
        ctx.ob("R1.refcount-effects", "clone:+1", ok and same, b.loc(), f"fetch_add(1) per path {pc}; new RawWaker reuses the data pointer: {same}")
    b = wm.get("wake_by_ref_raw_waker")
    if b:
        ok = not rc_ops(b) and not calls_to(b, "waker_meta::release_ref") and not calls_to(b, "waker_meta::drop_raw_waker")
        ctx.ob("R1.refcount-effects", "wake_by_ref:0", ok, b.loc(), f"reference-count operations: {[e['op'] for e in rc_ops(b)] or 'none'}")
    b = wm.get("wake_raw_waker")
    if b:
        pc1, c1 = count_calls(b, "waker_meta::wake_by_ref_raw_waker")
        pc2, c2 = count_calls(b, "waker_meta::drop_raw_waker")
        pc3, c3 = count_calls(b, "waker_meta::release_ref")
        dec = (pc2 == (1, 1) and pc3 in ((0, 0), None)) or (pc3 == (1, 1) and pc2 in ((0, 0), None))
        ok = pc1 == (1, 1) and dec and not rc_ops(b)
        # same data pointer to both
        for _, t in c1 + c2:
            ok = ok and Slice(b, through_calls=False).run(t["args"][0])["args"] == {1}
        ctx.ob("R1.refcount-effects", "wake:-1", ok, b.loc(),
               f"wake_by_ref per path {pc1}; drop_raw_waker per path {pc2}; release_ref per path {pc3} (an owned wake consumes exactly one reference on every path)")
    b = wm.get("drop_raw_waker")
    if b:
        pc, cs = count_calls(b, "waker_meta::release_ref")
        ok = pc == (1, 1) and not rc_ops(b)
        if ok:
            sl = Slice(b).run(cs[0][1]["args"][0])
            ok = 1 in sl["args"]
        ctx.ob("R1.refcount-effects", "drop:-1", ok, b.loc(), f"release_ref per path {pc} on the waker's own data pointer")
    b = wm.get("make_waker")
    if b:
        ops = rc_ops(b)
        pc = path_count(b, [e["bb"] for e in ops if e["op"] == "fetch_add"])
        ok = pc == (1, 1) and all(e["op"] == "fetch_add" and e["vals"] == [1] for e in ops)
        fr = [(bb, t) for bb, t in b.calls() if callee_key(t["callee"]).endswith("Waker::from_raw")]
        ok = ok and len(fr) == 1
        ctx.ob("R1.refcount-effects", "make_waker:+1", ok, b.loc(), f"fetch_add(1) per path {pc}; Waker::from_raw sites {len(fr)}")
    b = wm.get("create_waker_meta")
    if b:
        okc = False
        for c in [b] + prog.closures_of(b):
            for blk in c.blocks:
                for s in blk.stmts:
                    if s["k"] == "assign" and s["rv"]["k"] == "aggr" and s["rv"].get("adt", "").endswith("waker_meta::WakerMeta"):
                        i = s["rv"]["fields"].index("ref_count")
                        sl = Slice(c).run(s["rv"]["ops"][i])
                        okc = any(x.get("val") == 1 for x in sl["consts"]) and any(k.endswith("::new") for k, _, _ in sl["calls"])
                        j = s["rv"]["fields"].index("activated")
                        sl2 = Slice(c).run(s["rv"]["ops"][j])
                        okc = okc and any(x.get("val") == 1 for x in sl2["consts"])
        ctx.ob("R1.refcount-effects", "create:1", okc, b.loc(), "new metadata starts with ref_count = 1 (the slot's reference) and activated = 1 (first poll is due)")
    b = wm["release_ref"]
    ops = rc_ops(b)
    pc = path_count(b, [e["bb"] for e in ops if e["op"] == "fetch_sub"])
    ok = pc == (1, 1) and all(e["op"] == "fetch_sub" and e["vals"] == [1] for e in ops)
    fr = [(bb, t) for bb, t in b.calls() if callee_key(t["callee"]).endswith("Box::from_raw")]
    okf = len(fr) == 1
    if okf:
        gs = switch_guards(b, fr[0][0])
        okf = False
        for g in gs:
            src = g["src"]
            if src.get("kind") == "cmp" and src["op"] == "Eq" and src["const"] == 1 and 0 not in g["allowed"]:
                ll = src.get("lhs_local")
                sl = Slice(b, through_calls=False).run({"k": "copy", "place": {"l": ll, "p": []}}) if ll is not None else {"calls": []}
                okf = any(k.endswith("fetch_sub") for k, _, _ in sl["calls"])
            if src.get("kind") == "call" and src["term"]["callee"].get("method") == "fetch_sub" and g["allowed"] == {1}:
                okf = True
    ctx.ob("R1.refcount-effects", "release_ref:-1-and-free-on-last", ok and okf, b.loc(),
           f"fetch_sub(1) per path {pc}; Box::from_raw control-dependent on previous == 1: {okf}")
    # who else touches ref_count
    others = []
    for bd in prog.bodies:
        if bd.key.startswith("future_deque::waker_meta::"):
            continue
        for e in atomic_events(bd):
            if e["field"] and (e["field"].endswith(RC)):
                others.append(short(bd.key))
    ctx.ob("R1.refcount-effects", "no-outside-writer", not others, "", f"functions outside waker_meta touching ref_count: {others or 'none'}")

    # ---------------- R2
    e = [x for x in rc_ops(b) if x["op"] == "fetch_sub"]
    ok = len(e) == 1 and releaseish(e[0]["ords"][0]) and acquireish(e[0]["ords"][0])
    if len(e) == 1 and releaseish(e[0]["ords"][0]) and not acquireish(e[0]["ords"][0]):
        # accept Release + Acquire fence before the free
        fences = [x for x in atomic_events(b) if x["op"] == "fence" and acquireish(x["ords"][0])]
        dom = b.dominators(unwind=False)
        ok = bool(fr) and any(f["bb"] in dom[fr[0][0]] for f in fences)
    ctx.ob("R2.orderings", "decrement-release/free-acquire", ok, b.loc(), f"fetch_sub ordering {e[0]['ords'] if e else None}")
    for name, val in (("check_activated", 0), ("wake_by_ref_raw_waker", 1)):
        bb_ = wm.get(name)
        if bb_:
            sw = [x for x in atomic_events(bb_) if x["field"] and x["field"].endswith(ACT)]
            ok = len(sw) == 1 and sw[0]["op"] == "swap" and sw[0]["vals"] == [val] and acquireish(sw[0]["ords"][0]) and releaseish(sw[0]["ords"][0])
            ctx.ob("R2.orderings", f"{name}.swap({val})", ok, bb_.loc(), f"activation flag operations: {[(x['op'], x['vals'], x['ords']) for x in sw]}")

    # ---------------- R3
    core_poll = prog.one("future_deque_core::FutureDequeCore::poll")
    if core_poll is None:
        ctx.missing("R3.activation-protocol", "FutureDequeCore::poll")
    else:
        ctx.fn(core_poll)
        dom = core_poll.dominators(unwind=False)
        sh = None
        ca = calls_to(core_poll, "waker_meta::check_activated")
        pe = [(bb, t) for bb, t in core_poll.calls() if t["callee"].get("method") == "poll_erased"]
        ok = len(ca) == 1 and len(pe) == 1 and ca[0][0] in dom[pe[0][0]]
        if ok:
            gs = switch_guards(core_poll, pe[0][0], dom=dom)
            ok = any(g["src"].get("kind") == "call" and g["src"].get("bb") == ca[0][0] and 0 not in g["allowed"] for g in gs)
            # same slot: meta and handle come from the same Slot::Pending pattern (same base local)
            sm = Slice(core_poll, through_calls=False).run(ca[0][1]["args"][0])
            sh = Slice(core_poll, through_calls=True).run(pe[0][1]["args"][0])
            same = bool(sm["locals"] & sh["locals"])
            ok = ok and same
        ctx.ob("R3.activation-protocol", "poll.clear-flag-before-poll", ok, core_poll.loc(),
               "check_activated(meta) dominates poll_erased of the same slot and the poll happens only when it returned true")
        if len(ca) == 1 and len(pe) == 1:
            # ... and a consumed activation IS followed by the poll: check_activated swaps the flag to 0, so a path that leaves
            # its `true` arm without polling (a sweep budget, an early break) loses the wake for good - nobody sets the flag again
            cbb = ca[0][0]
            sw = core_poll.blocks[core_poll.blocks[cbb].term["target"]] if isinstance(core_poll.blocks[cbb].term.get("target"), int) else None
            true_t = []
            if sw is not None and sw.term["k"] == "switch":
                true_t = [tg for v, tg in sw.term["arms"] if v != 0] or ([sw.term["otherwise"]] if all(v == 0 for v, _ in sw.term["arms"]) else [])
            okp = False
            if true_t:
                exits_ = core_poll.exits(("return",)) + [cbb]
                okp, _off = core_poll.must_pass(true_t, [pe[0][0]], exits_)
            ctx.ob("R3.activation-protocol", "poll.consumed-activation-is-polled", okp, core_poll.loc(ca[0][1]["span"]),
                   f"every path from check_activated() == true reaches poll_erased before the next slot / the return: {okp}")
        # sub-context built from the slot's own waker
        cf = [(bb, t) for bb, t in core_poll.calls() if callee_key(t["callee"]).endswith("Context::from_waker")]
        if pe and ca and sh is None:
            sh = Slice(core_poll, through_calls=True).run(pe[0][1]["args"][0])
        ok = len(cf) == 1 and bool(Slice(core_poll, through_calls=True).run(cf[0][1]["args"][0])["locals"] & sh["locals"]) if pe and ca else False
        ctx.ob("R3.activation-protocol", "poll.sub-context-uses-slot-waker", ok, core_poll.loc(), "the contained future is polled with the slot's own waker")
        # parent installation
        lk = [(bb, t) for bb, t in core_poll.calls() if t["callee"].get("method") in ("lock", "try_lock") and "Mutex" in callee_key(t["callee"])]
        cfm = [(bb, t) for bb, t in core_poll.calls() if t["callee"].get("method") == "clone_from" and "Waker" in t["callee"]["full"]]
        ww = [(bb, t) for bb, t in core_poll.calls() if callee_key(t["callee"]).endswith("Waker::will_wake")]
        ok = len(lk) == 1 and lk[0][1]["callee"]["method"] == "lock" and len(cfm) == 1 and len(ww) == 1
        det = f"lock sites {[t['callee']['method'] for _, t in lk]}, clone_from sites {len(cfm)}, will_wake sites {len(ww)}"
        if ok:
            # every path to the slot loop passes the lock; clone_from guarded only by will_wake == false
            okp, _ = core_poll.must_pass([0], [lk[0][0]], [ca[0][0]] if ca else core_poll.exits(("return",)))
            gs = switch_guards(core_poll, cfm[0][0], dom=dom)
            only_ww = all((g["src"].get("kind") == "call" and g["src"].get("bb") == ww[0][0]) or
                          (g["src"].get("kind") == "unop" and (g["src"].get("inner") or {}).get("bb") == ww[0][0]) for g in gs) and len(gs) == 1
            arg_ok = bool(Slice(core_poll).run(cfm[0][1]["args"][1])["args"] & {2})
            ok = okp and only_ww and arg_ok
            det += f"; lock on every path to the slot loop: {okp}; clone_from conditioned only on will_wake: {only_ww}; source is the caller's context waker: {arg_ok}"
        ctx.ob("R3.activation-protocol", "poll.installs-parent-waker", ok, core_poll.loc(), det)
    wbr = wm.get("wake_by_ref_raw_waker")
    if wbr:
        dom = wbr.dominators(unwind=False)
        sw = [x for x in atomic_events(wbr) if x["field"] and x["field"].endswith(ACT) and x["op"] == "swap"]
        pw = [(bb, t) for bb, t in wbr.calls() if callee_paths(t["callee"]) & WAKER_FNS]
        cl = [(bb, t) for bb, t in wbr.calls() if t["callee"].get("method") == "clone" and "Waker" in t["callee"]["full"]]
        ok = len(sw) == 1 and len(pw) == 1 and len(cl) == 1
        det = f"swap sites {len(sw)}, parent wake sites {len(pw)}, parent clone sites {len(cl)}"
        if ok:
            gs = switch_guards(wbr, pw[0][0], dom=dom)
            on01 = False
            for g in gs:
                src = g["src"]
                if src.get("kind") == "cmp" and src["const"] == 0 and src["op"] == "Eq" and 0 not in g["allowed"]:
                    on01 = True
                if src.get("kind") == "call" and src.get("bb") == sw[0]["bb"] and g["allowed"] == {0}:
                    on01 = True
            gl = GuardLiveness(wbr)
            under = bool(gl.live_at_term(cl[0][0]))
            outside = not gl.live_at_term(pw[0][0])
            woken_is_clone = cl[0][1]["dest"]["l"] in Slice(wbr, through_calls=False).run(pw[0][1]["args"][0])["locals"]
            ok = on01 and under and outside and woken_is_clone
            det += f"; parent woken only on the 0->1 arm: {on01}; cloned under the lock: {under}; woken after the guard is gone: {outside}; the clone is what is woken: {woken_is_clone}"
        ctx.ob("R3.activation-protocol", "wake.parent-on-0to1-outside-lock", ok, wbr.loc(), det)
        pcs = path_count(wbr, [x["bb"] for x in sw])
        ctx.ob("R3.activation-protocol", "wake.sets-flag-on-every-path", pcs == (1, 1), wbr.loc(), f"activated.swap(1) per path {pcs}")

    # ---------------- R4
    seen = set()
    for bd in prog.bodies:
        for bb, t in bd.calls():
            if not t["args"]:
                continue
            a0 = op_place(t["args"][0])
            if a0 is None or a0["p"]:
                continue
            ty = bd.local_ty(a0["l"])["s"]
            if "VecDeque<future_deque::future_deque_core::Slot<T>>" not in ty:
                continue
            r, fs = op_access_path(bd, t["args"][0])
            if not fs or not fs[-1].endswith("FutureDequeCore::slots"):
                continue
            m = t["callee"].get("method") or callee_key(t["callee"]).split("::")[-1]
            root = strip_generics(bd.root).split("::")[-1]
            inst = f"{root}.{m}"
            if inst in seen:
                continue
            seen.add(inst)
            ctx.fn(bd)
            ok = m in SLOTS_OK
            det = f"slots.{m}() in {short(bd.key)}"
            if m == "drain":
                ok = bd.impl_trait is not None and bd.impl_trait.endswith("ops::Drop")
                det += " (only allowed in Drop)"
            if m in ("pop_front_if", "pop_back_if"):
                okp = False
                for ta in t["callee"].get("targs", []):
                    for clp in ta.get("closures", []):
                        cb = prog.by_key.get(strip_generics(clp))
                        if cb:
                            okp = _is_readiness_predicate(prog, cb[0])
                ok = ok and okp
                det += f"; predicate is the readiness test: {okp}"
            ctx.ob("R4.deque-order", inst, ok, bd.loc(t["span"]), det)
    if core_poll is not None:
        rp = [(bb, t) for bb, t in core_poll.calls() if callee_key(t["callee"]) in ("std::mem::replace", "core::mem::replace") and "Slot" in t["callee"]["full"]]
        ok = len(rp) == 1
        if ok:
            gs = switch_guards(core_poll, rp[0][0])
            # replaced with Slot::Ready built from the poll result
            ag = [s for blk in core_poll.blocks for s in blk.stmts if s["k"] == "assign" and s["rv"]["k"] == "aggr" and s["rv"].get("variant") == "Ready" and "Slot" in s["rv"].get("adt", "")]
            ok = len(ag) == 1
        ctx.ob("R4.deque-order", "completion-in-place", ok, core_poll.loc(), "a completed future's slot is overwritten in place with Slot::Ready (position unchanged)")

    # ---------------- R5
    uc6 = UserCode(prog)
    rel_sites = who_calls(prog, "waker_meta::release_ref")
    allowed = {"future_deque::future_deque_core::FutureDequeCore::poll", "<future_deque::future_deque_core::FutureDequeCore<T> as std::ops::Drop>::drop",
               "future_deque::waker_meta::drop_raw_waker"}
    by = {}
    for bd, bb, t in rel_sites:
        # a closure handed to an iterator adaptor belongs to the function it is written in
        by.setdefault(bd.key.split("::{closure")[0], []).append((bd, bb, t))
    for k, sites in sorted(by.items()):
        bd = sites[0][0]
        ok = k in allowed and len(sites) == 1
        det = f"release_ref sites {len(sites)} in {short(k)}"
        if ok and k != "future_deque::waker_meta::drop_raw_waker":
            bb, t = sites[0][1], sites[0][2]
            # guarded by the destroyed slot being Pending, and reached on every path where it is Pending
            adt = prog.adts.get("future_deque::future_deque_core::Slot")
            pidx = [i for i, v in enumerate(adt["variants"]) if v["name"] == "Pending"][0] if adt else 0
            gs = switch_guards(bd, bb)
            g_ok = any(g["src"].get("kind") == "discr" and (g["allowed"] == {pidx} or (g["allowed"] == {"otherwise"} and pidx not in g["listed"])) for g in gs)
            ok = g_ok
            det += f"; control-dependent on the destroyed slot being Pending: {g_ok}"
            # argument is that slot's meta field
            sl = Slice(bd, through_calls=False).run(t["args"][0])
            ok = ok and any(f.endswith("Slot::meta") for f in sl["fields"])
        ctx.ob("R5.metadata-balance", short(k), ok, bd.loc(), det)
        if k != "future_deque::waker_meta::drop_raw_waker":
            bb, t = sites[0][1], sites[0][2]
            dom6 = bd.dominators(unwind=False)
            # the local the metadata pointer is read from (the slot value that was moved out of the deque)
            sl = Slice(bd, through_calls=False).run(t["args"][0])
            owners = [l for l in sl["locals"] if "Slot<" in bd.local_ty(l)["s"] and bd.local_ty(l)["k"] == "adt"]
            own_defs = [d[0] for l in owners for d in bd.defs().get(l, [])]
            bad = []
            for blk in bd.blocks:
                if blk.cleanup or blk.idx == bb:
                    continue
                d = uc6.direct(bd, blk.idx)
                if not d:
                    continue
                after_move = any(x in dom6[blk.idx] for x in own_defs)
                before_rel = blk.idx in dom6[bb]
                if after_move and before_rel:
                    bad.append(f"{d[0]} at {bd.loc(blk.term.get('span'))}")
            ctx.ob("R6.release-before-user-drop", short(k), bool(owners) and not bad, bd.loc(t["span"]),
                   f"user-code points between moving the slot out and release_ref: {bad or 'none'}")
    ctx.ob("R5.metadata-balance", "all-destruction-sites-covered", set(by) == allowed, "", f"functions releasing metadata: {sorted(short(k) for k in by)}")
    # Drop releases the metadata of EVERY remaining slot (loop or adaptor form, no positional cut)
    own_parent_cell(ctx, prog)
    from ..analysis import element_ops
    dr = [b for b in prog.bodies if b.key == "<future_deque::future_deque_core::FutureDequeCore<T> as std::ops::Drop>::drop"]
    if dr:
        eo = element_ops(prog, dr[0], lambda t: callee_key(t["callee"]).endswith("waker_meta::release_ref"))
        ok = bool(eo) and all(e["ok"] for e in eo)
        ctx.ob("R5.metadata-balance", "drop-visits-every-slot", ok, dr[0].loc(), f"release_ref in Drop: {[e['form'] + ': ' + e['detail'] for e in eo]}")


def _is_readiness_predicate(prog, cb):
    """`|slot| slot.is_ready()` or `|slot| matches!(slot, Slot::Ready { .. })`: evaluated on the closure with its private callee
    inlined - true is produced exactly on the arm where the slot's discriminant is `Ready`."""
    ib = prog.inlined_body(cb)
    adt = prog.adts.get("future_deque::future_deque_core::Slot")
    ridx = [i for i, v in enumerate(adt["variants"]) if v["name"] == "Ready"] if adt else []
    if len(ridx) != 1:
        return False
    trues = []
    falses = []
    for blk in ib.blocks:
        for st in blk.stmts:
            if st["k"] == "assign" and st["rv"]["k"] == "use" and st["rv"]["op"].get("k") == "const" and st["rv"]["op"].get("ty") == "bool":
                (trues if st["rv"]["op"].get("val") == 1 else falses).append(blk.idx)
    if not trues:
        return False
    for tb in trues:
        gs = [g for g in switch_guards(ib, tb) if g["src"].get("kind") == "discr"]
        if not any(g["allowed"] == {ridx[0]} for g in gs):
            return False
    # the value returned is that boolean (through the inlined return)
    r = Slice(ib).run({"k": "copy", "place": {"l": 0, "p": []}})
    return 2 in r["args"] or any(2 in Slice(ib).run(ib.blocks[g["bb"]].term["discr"])["args"] for tb in trues for g in switch_guards(ib, tb) if g["src"].get("kind") == "discr")


def own_parent_cell(ctx, prog):
    n = 0
    for b in prog.bodies:
        if "::tests" in b.key or b.crate != "future_deque":
            continue
        for blk in b.blocks:
            for st in blk.stmts:
                if st["k"] == "assign" and st["rv"]["k"] == "aggr" and str(st["rv"].get("adt", "")).endswith("future_deque_core::FutureDequeCore"):
                    names = st["rv"].get("fields") or []
                    if "shared_parent" not in names:
                        continue
                    n += 1
                    ctx.fn(b)
                    sl = Slice(b).run(st["rv"]["ops"][names.index("shared_parent")])
                    fresh = any(k.endswith("Arc::new") for k, _b, _t in sl["calls"])
                    # `Waker::noop().clone()` as the initial content is fine; what must not be cloned/borrowed is the CELL (the Arc)
                    shared = bool(sl["args"]) or bool(sl["statics"]) or any(
                        (k.split("::")[-1] in ("with", "get", "get_or_init", "with_borrow")) or (k.split("::")[-1] == "clone" and "Arc" in k) for k, _b, _t in sl["calls"])
                    ctx.ob("R7.own-parent-cell", short(b.key), fresh and not shared, b.loc(st["span"]),
                           f"shared_parent built by Arc::new here: {fresh}; taken from a parameter / static / clone: {shared}")
    if n == 0:
        ctx.missing("R7.own-parent-cell", "construction of FutureDequeCore")

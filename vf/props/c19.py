"""C19 - history store: write-once, atomic publication (cbh_storage local backend)."""
from ..analysis import (path_count, Slice, switch_guards, UserCode, guard_src_place)
from ..mir import callee_key, callee_paths, op_local, op_place, resolve_const, strip_generics, op_access_path, place_fields

EXPL = ("Decides structural necessary conditions of C19 on the analysis MIR of the async bodies of "
        "cbh_storage::local: (R1) write_atomic creates the temp file, writes, flushes, completes the inner block "
        "(closing the handle) and only then renames, the rename being reachable only on the success arm; (R2) "
        "write_atomic is the only function of the local backend that creates/writes/renames files, and put / "
        "put_overwrite publish only through it; (R3) the temp path is a sibling of the target whose name starts "
        "with the reserved prefix constant, and list() filters with the same constant before producing a key; "
        "(R4) put reaches write_atomic only on the Ok(false) arm of the existence check and the Ok(true) arm "
        "returns ObjectAlreadyExists; (R5) key validation dominates every filesystem call of put/put_overwrite/"
        "get/delete and its error is propagated; validate_key rejects every segment failing is_plain_segment; "
        "(R6) writers compress exactly once, get decompresses exactly once.")
NOT = ("Not decided: crash atomicity itself (rests on rename(2)), byte-identical round trip (the codec's), "
       "reader/writer interleavings.")

FS_WRITE = ("tokio::fs::File::create", "tokio::fs::write", "tokio::fs::copy", "tokio::fs::OpenOptions::open",
            "tokio::fs::rename", "tokio::fs::hard_link", "tokio::fs::symlink", "std::fs::File::create",
            "std::fs::write", "std::fs::copy", "std::fs::OpenOptions::open", "std::fs::rename", "std::fs::hard_link",
            "tokio::fs::File::create_new", "std::fs::File::create_new", "tokio::fs::File::options", "std::fs::File::options",
            "tokio::fs::OpenOptions::new", "std::fs::OpenOptions::new")


def fs_calls(body):
    out = []
    for bb, t in body.calls():
        k = callee_key(t["callee"])
        if t["callee"].get("method") == "poll" or "{closure" in k:
            continue
        if k.startswith("tokio::fs::") or k.startswith("std::fs::"):
            out.append((bb, t, k))
    return out


PASS_THROUGH = ("into_future", "new_unchecked", "Pin::new", "as_mut", "deref_mut", "get_mut")


def future_origin(body, op, depth=12):
    """The call that created the future polled via `op` (follows only the receiver chain)."""
    seen = set()
    while depth:
        depth -= 1
        pl = op_place(op)
        if pl is None:
            return None
        l = pl["l"]
        if l in seen:
            return None
        seen.add(l)
        ds = body.defs().get(l, [])
        if len(ds) != 1:
            return None
        bb, _i, kind, payload = ds[0]
        if kind == "call":
            k = callee_key(payload["callee"])
            if any(k.endswith(p) for p in PASS_THROUGH) and payload["args"]:
                op = payload["args"][0]
                continue
            return bb
        rv = payload["rv"]
        if rv["k"] in ("use", "cast"):
            op = rv["op"]
        elif rv["k"] in ("ref", "rawptr"):
            op = {"k": "copy", "place": rv["place"]}
        elif rv["k"] == "aggr" and rv.get("coroutine"):
            return bb  # async block literal
        else:
            return None
    return None


def awaited(body):
    """creation-call bb -> poll-call bb, for futures created by a call and polled in this body."""
    out = {}
    for bb, t in body.calls():
        c = t["callee"]
        if c.get("method") == "poll" and c.get("trait", "").endswith("Future"):
            o = future_origin(body, t["args"][0])
            if o is not None:
                out[o] = bb
    return out


def result_of_await(body, create_bb, poll_bb):
    """Locals that hold the Ready payload of the poll at poll_bb (through moves)."""
    t = body.blocks[poll_bb].term
    start = t["dest"]["l"]
    locs = {start}
    changed = True
    while changed:
        changed = False
        for b in body.blocks:
            for s in b.stmts:
                if s["k"] == "assign" and s["rv"]["k"] == "use":
                    pl = op_place(s["rv"]["op"])
                    if pl is not None and pl["l"] in locs and s["place"]["l"] not in locs and not s["place"]["p"]:
                        locs.add(s["place"]["l"])
                        changed = True
    return locs


def run(ctx):
    ctx.explanation = EXPL
    ctx.not_decided = NOT
    prog = ctx.prog("cbh_storage", "cbh_codec")
    ctx.rule("R1.order", "File::create(temp) -> write_all -> flush in the inner block (each dominating the next, same file); every non-error return of the inner block passes flush", floor=3)
    ctx.rule("R1.only-temp-is-written", "inside write_atomic every creating / writing primitive works on the path returned by temp_path_for(target); the target itself is only ever the destination of the rename", floor=1)
    ctx.rule("R1.rename-after-close", "the inner block future is awaited to completion before rename is created; rename is reachable only on the Ok arm of the inner result; no file effect follows rename on the success path", floor=3)
    ctx.rule("R2.single-writer", "file creating/writing/renaming primitives in cbh_storage::local occur only inside write_atomic", floor=1)
    ctx.rule("R2.publish-through", "put and put_overwrite call write_atomic exactly once on their success path", floor=2)
    ctx.rule("R3.temp-beside-target", "rename source and File::create path derive from temp_path_for(target); temp_path_for joins onto target.parent()", floor=3)
    ctx.rule("R3.temp-unique", "the temp file name is unique per write within and across processes: it derives from a fetch_add on a static atomic counter and from process::id (two writers of one key must never share a temp file)", floor=1)
    ctx.rule("R2.writers-never-unlink", "put/put_overwrite never remove the object file (remove_file is reachable only inside write_atomic, on the temp path)", floor=2)
    ctx.rule("R3.reserved-prefix", "the temp file name starts with TEMP_PREFIX; is_temp_file_name tests the same constant; list() consults it before producing a key", floor=3, shape_dependent=True)
    ctx.rule("R4.write-once", "in put, write_atomic is reachable only through Ok(false) of try_exists; Ok(true) returns ObjectAlreadyExists; put_overwrite has no existence check", floor=3)
    ctx.rule("R5.validate-first", "key_path dominates every filesystem call of put/put_overwrite/get/delete, fs calls only on its Ok arm; key_path/validate_key reject non-plain segments", floor=6)
    ctx.rule("R7.segmentation-agreement", "the key validator and the path builder (and the lister that turns paths back into keys) cut a key into segments with the same separator pattern: what is validated is what is joined onto the root", floor=3)
    ctx.rule("R8.write-errors-propagate", "the result of every step of the atomic write (create, write_all, flush, the inner block, rename) reaches `?` or the function's own return value: a failed step can never be followed by a successful put", floor=7)
    ctx.rule("R6.codec-pairing", "compress exactly once on each writer's success path; decompress exactly once on get's success path; the reused per-thread codec state is reset unconditionally before every use", floor=5)
    segmentation_rule(ctx, prog)
    codec_state_rule(ctx, prog)
    inflate_truncation_rule(ctx, prog)
    only_temp_written(ctx, prog)

    local = [b for b in prog.bodies if b.key.startswith("cbh_storage::local::") or "cbh_storage::local::LocalStorage as" in b.key]
    for b in local:
        ctx.fn(b)

    wa = prog.one("local::write_atomic::{closure#0}")
    # the async block inside write_atomic: the one coroutine nested in its body (whatever its closure index is)
    inner = None
    if wa is not None:
        cos = [c for c in prog.closures_of(wa) if c.coroutine]
        inner = cos[0] if len(cos) == 1 else None
        if not cos and any("::{closure" in (x or "") for x in wa.d.get("inlined", [])):
            # the create/write/flush block became an `async fn` helper of its own (possibly in another module); its coroutine was
            # spliced back into write_atomic at the `.await`: the steps are now in write_atomic's own body
            inner = wa
    if wa is None or inner is None or not wa.coroutine:
        ctx.missing("R1.order", "cbh_storage::local::write_atomic coroutine bodies")
        return

    # ---- R1 inner block
    ic = {k: [(bb, t) for bb, t, kk in fs_calls(inner) if kk == k] for k in ("tokio::fs::File::create",)}
    creates = ic["tokio::fs::File::create"]
    wr = [(bb, t) for bb, t in inner.calls() if t["callee"].get("method") == "write_all"]
    fl = [(bb, t) for bb, t in inner.calls() if t["callee"].get("method") == "flush"]
    aw = awaited(inner)
    dom = inner.dominators(unwind=False)
    ok = len(creates) == 1 and len(wr) == 1 and len(fl) == 1
    det = f"create={len(creates)} write_all={len(wr)} flush={len(fl)}"
    if ok:
        cbb, wbb, fbb = creates[0][0], wr[0][0], fl[0][0]
        ok = cbb in dom[wbb] and wbb in dom[fbb] and cbb in aw and wbb in aw and fbb in aw
        ok = ok and aw[cbb] in dom[wbb] and aw[wbb] in dom[fbb]
        det += f"; create@bb{cbb} dom write_all@bb{wbb} dom flush@bb{fbb}; each awaited before the next: {ok}"
    ctx.ob("R1.order", "inner.create<write<flush", ok, inner.loc(), det)
    if ok:
        # same file: write_all and flush receivers derive from the create's awaited result
        same = True
        for bb, t in wr + fl:
            sl = Slice(inner).run(t["args"][0])
            same = same and any(k == "tokio::fs::File::create" for k, _, _ in sl["calls"])
        ctx.ob("R1.order", "inner.same-file", same, inner.loc(), "write_all and flush act on the file returned by File::create")
        # write_all writes the bytes captured from the parameter (upvar `bytes`)
        t = wr[0][1]
        sl = Slice(inner).run(t["args"][1])
        ctx.ob("R1.order", "inner.writes-param-bytes", bool(sl["upvars"]) and not any(k.startswith("cbh_codec") for k, _, _ in sl["calls"]),
               inner.loc(t["span"]), f"write_all data derives from captured upvar(s) {sorted(sl['upvars'])}")
        # every return passes flush's poll or an error-propagation
        resid = [bb for bb, t in inner.calls() if "from_residual" in callee_key(t["callee"])]
        okp, off = inner.must_pass([0], set([aw[fl[0][0]]]) | set(resid), inner.exits(("return",)))
        ctx.ob("R1.order", "inner.return-after-flush", okp, inner.loc(),
               "every normal path to the block's completion passes the awaited flush or an error propagation (`?`)")

    # ---- R8: no step's result is dropped
    def consumed(body, poll_bb):
        P = result_of_await(body, None, poll_bb)
        for bb, t in body.calls():
            if t["callee"].get("method") == "branch" and t["args"] and \
                    ((op_place(t["args"][0]) or {}).get("l") in P or Slice(body).run(t["args"][0])["locals"] & P):
                return True, "propagated with `?`"
        for d in body.defs().get(0, []):
            if d[2] == "assign":
                rv = d[3]["rv"]
                ops = [rv.get("op")] + list(rv.get("ops", []) or [])
                for o in ops:
                    if isinstance(o, dict) and Slice(body, through_calls=False).run(o)["locals"] & P:
                        return True, "flows into the return value"
        return False, "result is dropped (neither `?` nor returned)"
    steps = [(inner, "create", creates), (inner, "write_all", wr), (inner, "flush", fl)]
    aw_o8 = awaited(wa)
    ren8 = [(bb, t) for bb, t, k in fs_calls(wa) if k == "tokio::fs::rename"]
    steps.append((wa, "rename", ren8))
    for body, nm, sites in steps:
        a = aw if body is inner else aw_o8
        for bb, t in sites:
            if bb not in a:
                ctx.ob("R8.write-errors-propagate", nm, False, body.loc(t["span"]), "the future is never awaited in this body")
                continue
            ok8, why = consumed(body, a[bb])
            ctx.ob("R8.write-errors-propagate", nm, ok8, body.loc(t["span"]), why)
    ip8 = [bb for bb, t in wa.calls() if t["callee"].get("method") == "poll" and
           inner is not None and strip_generics(t["callee"].get("resolved") or "") == inner.key]
    for pbb in ip8:
        ok8, why = consumed(wa, pbb)
        ctx.ob("R8.write-errors-propagate", "inner-block", ok8, wa.loc(), why)
    if inner is wa:
        ctx.inconclusive("R8.write-errors-propagate", "inner-block", wa.loc(),
                         "the create/write/flush block is an async helper spliced into write_atomic: there is no inner future whose result could be classified; the individual steps are judged above")
    for b8 in prog.bodies:
        if not b8.coroutine or "LocalStorage as" not in b8.key or b8.key.count("{closure") != 1:
            continue
        meth = b8.key.split("::")[-2] if b8.key.endswith("{closure#0}") else ""
        if meth not in ("put", "put_overwrite"):
            continue
        a8 = awaited(b8)
        for bb, t in b8.calls():
            if callee_key(t["callee"]).endswith("local::write_atomic") and bb in a8:
                ok8, why = consumed(b8, a8[bb])
                ctx.ob("R8.write-errors-propagate", f"{meth}.write_atomic", ok8, b8.loc(t["span"]), why)

    # ---- R1 outer
    ren = [(bb, t) for bb, t, k in fs_calls(wa) if k == "tokio::fs::rename"]
    aw_o = awaited(wa)
    dom_o = wa.dominators(unwind=False)
    inner_polls = [bb for bb, t in wa.calls() if t["callee"].get("method") == "poll" and
                   inner is not None and strip_generics(t["callee"].get("resolved") or "") == inner.key]
    ok = len(ren) == 1 and len(inner_polls) == 1
    det = f"rename sites={len(ren)}, polls of the inner block={len(inner_polls)}"
    spliced = inner is wa
    if spliced and len(ren) == 1:
        # helper form: the rename must still come after the flush of the spliced steps and not on their error arms; the
        # future-object sub-rules are not re-derivable
        fl_ = [bb for bb, t in wa.calls() if t["callee"].get("method") in ("flush", "sync_all", "sync_data") and not wa.blocks[bb].cleanup]
        # (the spliced helper's error returns join its Ok return before write_atomic's own `?`: dominance cannot be asked for;
        #  what remains checkable is the order on the straight path)
        okf = bool(fl_) and any(ren[0][0] in wa.successors_reach(f, False) and f not in wa.successors_reach(ren[0][0], False) for f in fl_)
        ctx.ob("R1.rename-after-close", "rename-guarded-by-inner-ok", okf, wa.loc(ren[0][1]["span"]),
               f"(helper form) the rename comes after the flush of the written file and never before it: {okf}")
        ctx.inconclusive("R1.rename-after-close", "inner-future-dropped-before-rename", wa.loc(),
                         "the writing steps live in an async helper spliced into write_atomic; the helper's future (owning the handle) is gone from the view")
    if ok and not spliced:
        rbb, rt = ren[0]
        pbb = inner_polls[0]
        ok = pbb in dom_o[rbb]
        det += f"; inner poll bb{pbb} dominates rename bb{rbb}: {ok}"
        # Ready arm, then Ok arm
        gs = switch_guards(wa, rbb, dom=dom_o)
        res_locals = result_of_await(wa, None, pbb)
        ready = False
        okarm = False
        for g in gs:
            pl = guard_src_place(g["src"])
            if pl is None:
                continue
            if pl["l"] == wa.blocks[pbb].term["dest"]["l"] and not pl["p"]:
                ready = g["allowed"] == {0}
            elif pl["l"] in res_locals and not pl["p"]:
                # discriminant of the inner Result: Err = 1 must be excluded
                okarm = 1 not in g["allowed"] and ("otherwise" in g["allowed"] or 0 in g["allowed"]) and \
                    (1 in g["listed"] or g["allowed"] == {0})
        ok = ok and ready and okarm
        det += f"; guarded by Poll::Ready arm={ready}, by not-Err arm of the inner result={okarm}"
    if not spliced:
        ctx.ob("R1.rename-after-close", "rename-guarded-by-inner-ok", ok, wa.loc(ren[0][1]["span"]) if ren else wa.loc(), det)
    if len(ren) == 1:
        rbb = ren[0][0]
        # the inner future local is dropped (handle closed) before rename: a drop of the polled future dominates rename
        fut_locals = set()
        t = wa.blocks[inner_polls[0]].term if inner_polls else None
        okd = False
        if t:
            sl = Slice(wa).run(t["args"][0])
            fut_locals = sl["locals"]
            for b in wa.blocks:
                if b.term["k"] == "drop" and b.term["place"]["l"] in fut_locals and not b.cleanup and \
                        b.idx in dom_o[rbb] and "async block" in b.term["ty"]["s"]:
                    okd = True
        if not spliced:
            ctx.ob("R1.rename-after-close", "inner-future-dropped-before-rename", okd, wa.loc(),
                   "a drop of the inner block future (owning the file handle) dominates the rename")
        # after rename on success path: only remove_file on the Err arm
        after = wa.successors_reach(aw_o.get(rbb, rbb), unwind=False)
        later = [(bb, k) for bb, t, k in fs_calls(wa) if bb in after and bb != rbb]
        ok_after = all(k == "tokio::fs::remove_file" for _, k in later)
        # remove_file after rename must be on the Err arm of rename's result
        if ok_after and rbb in aw_o:
            rl = result_of_await(wa, rbb, aw_o[rbb])
            for bb, k in later:
                gs = switch_guards(wa, bb, dom=dom_o)
                on_err = any((guard_src_place(g["src"]) or {}).get("l") in rl and g["allowed"] == {1} for g in gs)
                # remove_file sites that belong to the inner-error arm are not "after rename" (loop-free): skip them
                if not on_err:
                    ok_after = False
        ctx.ob("R1.rename-after-close", "nothing-after-rename", ok_after, wa.loc(),
               f"filesystem calls reachable after rename: {[k for _, k in later]} (only remove_file on rename's Err arm allowed)")

    # ---- R2
    offenders = []
    n = 0
    for b in local:
        for bb, t, k in fs_calls(b):
            if k in FS_WRITE:
                n += 1
                if not b.key.startswith("cbh_storage::local::write_atomic"):
                    offenders.append(f"{k} in {b.key} at {b.loc(t['span'])}")
    ctx.ob("R2.single-writer", "local-backend", not offenders and n >= 2, "packages/cbh_storage/src/local.rs",
           f"{n} create/write/rename call(s), outside write_atomic: {offenders or 'none'}")
    wa_shell = prog.one("local::write_atomic")
    for m in ("put", "put_overwrite"):
        b = prog.one(f"<cbh_storage::local::LocalStorage as cbh_storage::port::Storage>::{m}::{{closure#0}}")
        if b is None:
            ctx.missing("R2.publish-through", f"LocalStorage::{m} coroutine")
            continue
        calls = [bb for bb, t in b.calls() if wa_shell and wa_shell.key in callee_paths(t["callee"])]
        aw_b = awaited(b)
        pc = path_count(b, calls)
        ok = len(calls) == 1 and pc is not None and pc[1] == 1 and calls[0] in aw_b
        ctx.ob("R2.publish-through", m, ok, b.loc(), f"write_atomic call sites={len(calls)}, per path {pc}, awaited={calls and calls[0] in aw_b}")

    for m in ("put", "put_overwrite"):
        b = prog.one(f"<cbh_storage::local::LocalStorage as cbh_storage::port::Storage>::{m}::{{closure#0}}")
        if b is None:
            continue
        rm = [k for bb, t, k in fs_calls(b) if k in ("tokio::fs::remove_file", "std::fs::remove_file", "tokio::fs::remove_dir_all", "std::fs::remove_dir_all")]
        # transitively: calls to other Storage methods of LocalStorage that delete
        dels = [callee_key(t["callee"]) for bb, t in b.calls() if callee_key(t["callee"]).endswith("Storage>::delete") or callee_key(t["callee"]).endswith("::delete")]
        ctx.ob("R2.writers-never-unlink", m, not rm and not dels, b.loc(),
               f"remove_file calls {rm or 'none'}, delete() calls {dels or 'none'} in {m} (an interrupted write must leave what the key held before)")

    # ---- R3
    tp = prog.one("local::temp_path_for")
    if tp is None:
        ctx.missing("R3.temp-beside-target", "local::temp_path_for")
    else:
        tcalls = [(bb, t) for bb, t in wa.calls() if tp.key in callee_paths(t["callee"])]
        ok = len(tcalls) == 1
        det = f"temp_path_for calls in write_atomic: {len(tcalls)}"
        if ok:
            sl = Slice(wa).run(tcalls[0][1]["args"][0])
            ok = 0 in sl["upvars"] or bool(sl["upvars"])
            tgt_up = sorted(sl["upvars"])
            det += f"; argument derives from captured upvar(s) {tgt_up} (target)"
        ctx.ob("R3.temp-beside-target", "temp-from-target", ok, wa.loc(), det)
        if ren:
            t = ren[0][1]
            s0 = Slice(wa).run(t["args"][0])
            s1 = Slice(wa, through_calls=False).run(t["args"][1])
            ok = any(k == tp.key for k, _, _ in s0["calls"]) and bool(s1["upvars"]) and not s1["calls"]
            ctx.ob("R3.temp-beside-target", "rename(temp,target)", ok, wa.loc(t["span"]),
                   f"rename source derives from temp_path_for: {any(k == tp.key for k,_,_ in s0['calls'])}; destination is the target parameter: {bool(s1['upvars']) and not s1['calls']}")
        if creates:
            # File::create(&temp) inside inner: temp is upvar captured from the outer temp local
            t = creates[0][1]
            sl = Slice(inner).run(t["args"][0])
            okc = bool(sl["upvars"])
            if inner is wa:
                okc = any(k == tp.key for k, _, _ in sl["calls"])
                ctx.ob("R3.temp-beside-target", "create(temp)", okc, inner.loc(t["span"]),
                       f"(helper form) File::create path derives from temp_path_for: {okc}")
            # the captured value in the outer body: aggregate for inner closure
            from ..analysis import closure_capture_ops
            caps = closure_capture_ops(wa, inner.key)
            src_ok = False
            for _bb, ops in caps:
                for i in sl["upvars"]:
                    if i < len(ops):
                        s2 = Slice(wa).run(ops[i])
                        if any(k == tp.key for k, _, _ in s2["calls"]):
                            src_ok = True
            if inner is not wa:
              ctx.ob("R3.temp-beside-target", "create(temp)", okc and src_ok, inner.loc(t["span"]),
                   f"File::create path is a captured value derived from temp_path_for: {src_ok}")
        # temp_path_for: join receiver derives from Path::parent(arg)
        joins = [(bb, t) for bb, t in tp.calls() if callee_key(t["callee"]).endswith("Path::join")]
        ok = len(joins) == 1
        det = ""
        if ok:
            t = joins[0][1]
            s0 = Slice(tp).run(t["args"][0])
            ok = any(k.endswith("Path::parent") for k, _, _ in s0["calls"]) and s0["args"] == {1}
            ok = ok and tp.blocks[joins[0][0]].term["dest"]["l"] == 0
            det = f"Path::join receiver derives from Path::parent(target): {ok}; result returned"
            ctx.ob("R3.temp-beside-target", "temp_path_for.join-parent", ok, tp.loc(t["span"]), det)
            # name begins with TEMP_PREFIX
            s1 = Slice(tp).run(t["args"][1])
            fa = [ct for k, _, ct in s1["calls"] if k.endswith("::fetch_add") and "atomic" in k]
            uniq = False
            for ct in fa:
                c0 = resolve_const(tp, ct["args"][0])
                if c0 is not None and "alloc" in c0.get("text", "") and "Atomic" in c0.get("ty", ""):
                    uniq = True
            pid = any(k.endswith("process::id") for k, _, _ in s1["calls"])
            ctx.ob("R3.temp-unique", "temp_path_for.name", uniq and pid, tp.loc(t["span"]),
                   f"name derives from fetch_add on a static atomic: {uniq}; from process::id(): {pid}")
            fmt = [ct for k, _, ct in s1["calls"] if k.endswith("fmt::Arguments::new") or k.endswith("fmt::Arguments::new_v1")
                   or "fmt::Arguments" in k]
            prom_names = {}
            for p in tp.d.get("promoted", []):
                prom_names[p["idx"]] = [c.get("name") for c in p["consts"]]
            okp = False
            detp = "format args not recognised"
            if len(fmt) == 1:
                ft = fmt[0]
                tmpl = resolve_const(tp, ft["args"][0])
                # the array of arguments
                arr_sl = Slice(tp, through_calls=False).run(ft["args"][1])
                arrs = [s for b in tp.blocks for s in b.stmts if s["k"] == "assign" and s["rv"]["k"] == "aggr"
                        and s["rv"].get("array") and s["place"]["l"] in arr_sl["locals"]]
                if len(arrs) == 1 and arrs[0]["rv"]["ops"]:
                    first = arrs[0]["rv"]["ops"][0]
                    fs = Slice(tp).run(first)
                    # which tuple field does the first Argument read? follow fields `.N` of the args tuple
                    firstnames = []
                    # find tuple aggregate and the projection index used
                    idxs = [int(f[1:]) for f in fs["fields"] if f.startswith(".")]
                    tup = [s for b in tp.blocks for s in b.stmts if s["k"] == "assign" and s["rv"]["k"] == "aggr"
                           and s["rv"].get("tuple") and s["place"]["l"] in fs["locals"]]
                    if len(tup) == 1 and len(idxs) == 1 and idxs[0] < len(tup[0]["rv"]["ops"]):
                        el = Slice(tp).run(tup[0]["rv"]["ops"][idxs[0]])
                        for c in el["consts"]:
                            if "promoted" in c:
                                firstnames += prom_names.get(c["promoted"], [])
                            elif c.get("name"):
                                firstnames.append(c["name"])
                    tmpl_txt = (tmpl or {}).get("text", "")
                    starts_with_arg = tmpl_txt.startswith('const b"\\xc0')
                    okp = any(nm and nm.endswith("::TEMP_PREFIX") and nm.startswith("cbh_storage::") for nm in firstnames) and starts_with_arg
                    detp = f"first formatted argument is {firstnames}; template begins with an argument placeholder: {starts_with_arg}"
            ctx.ob("R3.reserved-prefix", "writer-name-starts-with-prefix", okp, tp.loc(), detp)
    # the reader's test may live in the helper `is_temp_file_name` or be written out in `list` itself
    from ..analysis import _closure_receiver_call
    lst = prog.one("<cbh_storage::local::LocalStorage as cbh_storage::port::Storage>::list::{closure#0}")
    itf = prog.one("local::is_temp_file_name")
    if itf is not None and lst is not None and (itf.key == lst.key or lst.key.startswith(itf.key + "::")):
        itf = None      # folded into list (the anchor resolves to list's shell or coroutine)
    if lst is None:
        ctx.missing("R3.reserved-prefix", "LocalStorage::list coroutine")
    else:
        homes = ([itf] + prog.closures_of(itf)) if itf is not None else ([lst] + prog.closures_of(lst))
        ok = False
        det = ""
        sw_home = None
        for cb in homes:
            for bb, t in cb.calls():
                if t["callee"].get("method") == "starts_with":
                    c = resolve_const(cb, t["args"][1])
                    if c and ((c.get("name") or "").endswith("::TEMP_PREFIX") and (c.get("name") or "").startswith("cbh_storage::")):
                        ok = True
                        sw_home = cb
                    det = f"starts_with({(c or {}).get('name')})"
        ctx.ob("R3.reserved-prefix", "reader-tests-same-constant", ok, (itf or lst).loc(), det or "no starts_with call found")
        # the call in `list` whose boolean result is that test
        test_calls = []
        if itf is not None:
            test_calls = [(bb, t) for bb, t in lst.calls() if itf.key in callee_paths(t["callee"])]
        elif sw_home is not None:
            if sw_home is lst:
                test_calls = [(bb, t) for bb, t in lst.calls() if t["callee"].get("method") == "starts_with"]
            else:
                rc = _closure_receiver_call(prog, lst, sw_home)
                test_calls = [rc] if rc else []
        rk = [bb for bb, t in lst.calls() if callee_key(t["callee"]).endswith("local::relative_key")]
        pushes = [bb for bb, t in lst.calls() if callee_key(t["callee"]).endswith("Vec::push")]
        dl = lst.dominators(unwind=False)
        ok = bool(rk) and len(test_calls) == 1
        det = f"relative_key sites {rk}, temp-name test sites {[bb for bb, _t in test_calls]}"
        if ok:
            tterm = test_calls[0][1]
            for r in rk:
                gs = switch_guards(lst, r, dom=dl)
                g_ok = False
                for g in gs:
                    if g["src"].get("kind") == "call" and g["src"].get("term") is tterm:
                        g_ok = g["allowed"] == {0}
                ok = ok and g_ok
            det += f"; every key-producing site is on the `false` arm of the temp-name test: {ok}"
            # every push of a *key* (String) is dominated by a relative_key call
            keypush = [bb for bb in pushes if "String" in lst.blocks[bb].term["callee"]["full"]]
            ok = ok and bool(keypush) and all(any(r in dl[pb] for r in rk) for pb in keypush)
        ctx.ob("R3.reserved-prefix", "list-filters-before-key", ok, lst.loc(), det)

    # ---- R4
    put = prog.one("<cbh_storage::local::LocalStorage as cbh_storage::port::Storage>::put::{closure#0}")
    puto = prog.one("<cbh_storage::local::LocalStorage as cbh_storage::port::Storage>::put_overwrite::{closure#0}")
    if put is not None and wa_shell is not None:
        te = [(bb, t) for bb, t, k in fs_calls(put) if k == "tokio::fs::try_exists"]
        wcalls = [bb for bb, t in put.calls() if wa_shell.key in callee_paths(t["callee"])]
        awp = awaited(put)
        dp = put.dominators(unwind=False)
        ok = len(te) == 1 and len(wcalls) == 1 and te[0][0] in awp
        det = f"try_exists sites={len(te)}, write_atomic sites={len(wcalls)}"
        if ok:
            rl = result_of_await(put, te[0][0], awp[te[0][0]])
            gs = switch_guards(put, wcalls[0], dom=dp)
            ok_arm = False
            false_arm = False
            for g in gs:
                pl = guard_src_place(g["src"])
                if pl is None or pl["l"] not in rl:
                    continue
                if not pl["p"]:
                    ok_arm = g["allowed"] == {0}
                else:
                    # ((res as Ok).0: bool)
                    if any(isinstance(e, dict) and e.get("v") == "Ok" for e in pl["p"]):
                        false_arm = g["allowed"] == {0}
            if not (ok_arm and false_arm):
                # `let exists = try_exists(..).await.map_err(..)?; if exists {..}`: the bool tested derives from the awaited result
                # (it can only be obtained from the Ok payload) and the write sits on its `false` side
                for g in gs:
                    dl = g.get("discr_local")
                    if dl is None or put.local_ty(dl)["s"] != "bool":
                        continue
                    if set(Slice(put).run({"k": "copy", "place": {"l": dl, "p": []}})["locals"]) & set(rl) and g["allowed"] == {0}:
                        ok_arm = false_arm = True
            ok = ok_arm and false_arm
            det += f"; write_atomic guarded by Ok arm={ok_arm} and by `false` payload={false_arm}"
            # the same path of the argument
            t = te[0][1]
            ws = put.blocks[wcalls[0]].term
            s_te = Slice(put).run(t["args"][0])
            s_w = Slice(put).run(ws["args"][0])
            same = any(k.endswith("LocalStorage::key_path") for k, _, _ in s_te["calls"]) and \
                any(k.endswith("LocalStorage::key_path") for k, _, _ in s_w["calls"])
            ok = ok and same
            det += f"; existence check and write use the path from key_path: {same}"
        ctx.ob("R4.write-once", "put.guard", ok, put.loc(), det)
        # Ok(true) arm returns ObjectAlreadyExists
        ae = [bb for bb, t in put.calls() if callee_key(t["callee"]).endswith("ObjectAlreadyExistsError::new")]
        ok2 = len(ae) == 1
        if ok2 and len(te) == 1 and te[0][0] in awp:
            rl = result_of_await(put, te[0][0], awp[te[0][0]])
            gs = switch_guards(put, ae[0], dom=dp)
            t_arm = any((guard_src_place(g["src"]) or {}).get("l") in rl and (guard_src_place(g["src"]) or {}).get("p")
                        and 0 not in g["allowed"] for g in gs)
            if not t_arm:
                for g in gs:
                    dl = g.get("discr_local")
                    if dl is not None and put.local_ty(dl)["s"] == "bool" and 0 not in g["allowed"] and g["allowed"] and \
                            set(Slice(put).run({"k": "copy", "place": {"l": dl, "p": []}})["locals"]) & set(rl):
                        t_arm = True
            # and cannot reach write_atomic afterwards
            after = put.successors_reach(ae[0], unwind=False)
            ok2 = t_arm and not (set(wcalls) & after)
        ctx.ob("R4.write-once", "put.exists-arm-errors", ok2, put.loc(),
               "ObjectAlreadyExistsError::new is on the Ok(true) arm and write_atomic is unreachable from it")
    else:
        ctx.missing("R4.write-once", "LocalStorage::put coroutine")
    if puto is not None:
        te = [k for bb, t, k in fs_calls(puto) if k in ("tokio::fs::try_exists", "tokio::fs::metadata")]
        ctx.ob("R4.write-once", "put_overwrite.no-check", not te, puto.loc(), f"existence checks in put_overwrite: {te or 'none'} (by contract)")
        # ... and it cannot succeed without having written: every `Ok` it returns lies behind the atomic write (no "already the
        # same object" shortcut decided from a look at the stored file)
        from ..evtflow import return_sites as _rs
        was = [bb for bb, t in puto.calls() if callee_key(t["callee"]).endswith("local::write_atomic")]
        domp = puto.dominators(unwind=False)
        early = [puto.loc(st.get("span")) for bb, path, st in _rs(puto) if (path[:1] == ["Ok"] or path[:2] == ["Ready", "Ok"]) and not any(w in domp[bb] for w in was)]
        ctx.ob("R4.write-once", "put_overwrite.ok-only-after-the-write", bool(was) and not early, puto.loc(),
               f"write_atomic sites {len(was)}; Ok results produced without passing it: {early or 'none'}" +
               ("" if not early else " - an overwrite that reports success without writing leaves the old object in place"))

    # ---- R5
    kp = prog.one("local::LocalStorage::key_path")
    for m in ("put", "put_overwrite", "get", "delete"):
        b = prog.one(f"<cbh_storage::local::LocalStorage as cbh_storage::port::Storage>::{m}::{{closure#0}}")
        if b is None or kp is None:
            ctx.missing("R5.validate-first", f"LocalStorage::{m} coroutine / key_path")
            continue
        kc = [bb for bb, t in b.calls() if kp.key in callee_paths(t["callee"])]
        fsc = fs_calls(b) + [(bb, t, "write_atomic") for bb, t in b.calls() if wa_shell and wa_shell.key in callee_paths(t["callee"])]
        d = b.dominators(unwind=False)
        ok = len(kc) == 1 and bool(fsc)
        det = f"key_path sites={len(kc)}, filesystem calls={len(fsc)}"
        if ok:
            kbb = kc[0]
            ok = all(kbb in d[bb] for bb, _, _ in fsc)
            # Ok arm: Try::branch on key_path's result, Continue (0) arm
            br = [bb for bb, t in b.calls() if callee_key(t["callee"]).endswith("Try::branch") or t["callee"].get("method") == "branch"]
            br = [bb for bb in br if any(k == kp.key for k, _, _ in Slice(b, through_calls=False).run(b.blocks[bb].term["args"][0])["calls"])]
            arm_ok = False
            if len(br) == 1:
                bl = b.blocks[br[0]].term["dest"]["l"]
                arm_ok = True
                for bb, _, _ in fsc:
                    gs = switch_guards(b, bb, dom=d)
                    g = [g for g in gs if (guard_src_place(g["src"]) or {}).get("l") == bl and not (guard_src_place(g["src"]) or {}).get("p")]
                    arm_ok = arm_ok and bool(g) and all(x["allowed"] == {0} for x in g)
            ok = ok and arm_ok
            det += f"; key_path dominates all of them and they lie on its Continue(Ok) arm: {ok}"
            # every fs path argument derives from key_path's result
            src_ok = True
            for bb, t, k in fsc:
                if not t["args"]:
                    continue   # e.g. OpenOptions::new(): the path arrives at a later builder call
                sl = Slice(b).run(t["args"][0])
                if not any(kk == kp.key for kk, _, _ in sl["calls"]):
                    src_ok = False
                    det += f"; {k} at {b.loc(t['span'])} does not use the validated path"
            ok = ok and src_ok
        ctx.ob("R5.validate-first", m, ok, b.loc(), det)
    if kp is not None:
        vk = [bb for bb, t in kp.calls() if callee_key(t["callee"]).endswith("keys::validate_key")]
        d = kp.dominators(unwind=False)
        others = [bb for bb, t in kp.calls() if callee_key(t["callee"]).endswith("PathBuf::push") or callee_key(t["callee"]).endswith("Path::join")
                  or (t["callee"].get("method") == "extend" and "PathBuf" in callee_key(t["callee"]) + str((t["callee"].get("self_ty") or {}).get("s", "")))]
        ok = len(vk) == 1 and bool(others) and all(vk[0] in d[o] for o in others)
        if ok:
            br = [bb for bb, t in kp.calls() if t["callee"].get("method") == "branch"]
            ok = len(br) == 1
            if ok:
                bl = kp.blocks[br[0]].term["dest"]["l"]
                for o in others:
                    gs = [g for g in switch_guards(kp, o, dom=d) if (guard_src_place(g["src"]) or {}).get("l") == bl]
                    ok = ok and bool(gs) and all(g["allowed"] == {0} for g in gs)
        ctx.ob("R5.validate-first", "key_path", ok, kp.loc(), "validate_key dominates path construction, which lies on its Ok arm")
    vkb = prog.one("keys::validate_key")
    if vkb is None:
        ctx.missing("R5.validate-first", "keys::validate_key")
    else:
        ctx.fn(vkb)
        ips = [bb for bb, t in vkb.calls() if callee_key(t["callee"]).endswith("keys::is_plain_segment")]
        errs = [bb for bb, t in vkb.calls() if callee_key(t["callee"]).endswith("InvalidStorageKeyError::new")]
        ok = len(ips) == 1 and len(errs) == 1 and vkb.in_loop(ips[0])
        det = f"is_plain_segment sites={len(ips)} (in the segment loop: {bool(ips) and vkb.in_loop(ips[0])}), error sites={len(errs)}"
        alls = []
        if not ips:
            # `key.split('/').all(is_plain_segment)`: the test handed to `all` as a function item or a one-call closure
            for bb, t in vkb.calls():
                if t["callee"].get("method") != "all" or vkb.blocks[bb].cleanup:
                    continue
                fi = any(a.get("k") == "const" and strip_generics(a.get("fndef") or "").endswith("keys::is_plain_segment") for a in t["args"])
                for a in t["args"][1:]:
                    l = op_local(a)
                    for c in (vkb.local_ty(l).get("closures", []) if l is not None else []):
                        cb = (prog.by_key.get(strip_generics(c)) or [None])[0]
                        if cb is not None:
                            cc = [t2 for _b2, t2 in cb.calls() if not cb.blocks[_b2].cleanup]
                            if len(cc) == 1 and callee_key(cc[0]["callee"]).endswith("keys::is_plain_segment") and \
                                    2 in Slice(cb).run(cc[0]["args"][0])["args"] and \
                                    not any(blk.term["k"] == "switch" for blk in cb.blocks):
                                fi = True
                if fi:
                    alls.append((bb, t))
        if alls and len(alls) == 1 and len(errs) == 1:
            abb, at = alls[0]
            gs = switch_guards(vkb, errs[0])
            okg = any(g["src"].get("kind") == "call" and g["src"].get("bb") == abb and g["allowed"] == {0} for g in gs)
            sl = Slice(vkb).run(at["args"][0])
            src = any(k.endswith("str::split") or "::split" in k for k, _, _ in sl["calls"]) and 1 in sl["args"]
            from ..analysis import iter_chain, POSITIONAL_CUT
            from ..evtflow import return_sites
            chain = iter_chain(vkb, at["args"][0])
            cut = sorted(set(chain) & POSITIONAL_CUT)
            # Ok is returned only on the `all(..) == true` arm
            oks = [bb for bb, path, st in return_sites(vkb) if path[:1] == ["Ok"]]
            ok_guard = bool(oks) and all(any(g["src"].get("kind") == "call" and g["src"].get("bb") == abb and 0 not in g["allowed"]
                                             for g in switch_guards(vkb, bb)) for bb in oks)
            ok = okg and src and not cut and ok_guard
            det = (f"all(is_plain_segment) over key.split: {src} (positional cuts {cut or 'none'}); error constructed exactly on its false arm: {okg}; "
                   f"Ok only on its true arm: {ok_guard}")
        elif ok:
            # false arm leads to the error construction and from there to return without re-entering the loop
            gs = switch_guards(vkb, errs[0])
            g = [g for g in gs if g["src"].get("kind") in ("call",) and g["src"].get("bb") == ips[0]
                 or (g["src"].get("kind") == "unop" and g["src"]["inner"].get("bb") == ips[0])]
            okg = False
            for x in g:
                if x["src"].get("kind") == "call":
                    okg = x["allowed"] == {0}
                else:
                    okg = 0 not in x["allowed"]
            after = vkb.successors_reach(errs[0], unwind=False)
            ok = okg and ips[0] not in after
            # the Ok(()) return is reachable only via iterator exhaustion (next() == None)
            det += f"; error constructed exactly on the not-plain arm: {okg}; loop not re-entered after the error: {ips[0] not in after}"
            # segment passed to is_plain_segment derives from split('/') of the key parameter
            sl = Slice(vkb).run(vkb.blocks[ips[0]].term["args"][0])
            src = any(k.endswith("str::split") or "::split" in k for k, _, _ in sl["calls"]) and 1 in sl["args"]
            ok = ok and src
            det += f"; segments come from key.split: {src}"
        ctx.ob("R5.validate-first", "validate_key", ok, vkb.loc(), det)
    ipb = prog.one("keys::is_plain_segment")
    if ipb is not None:
        ctx.fn(ipb)
        comps = [bb for bb, t in ipb.calls() if callee_key(t["callee"]).endswith("Path::components")]
        nexts = [bb for bb, t in ipb.calls() if t["callee"].get("method") == "next"]
        # return true requires: first component is Normal (discriminant switch) and a second next() is_none
        isnone = [bb for bb, t in ipb.calls() if t["callee"].get("method") == "is_none"]
        ok = len(comps) == 1 and len(nexts) == 2 and len(isnone) == 1
        det = f"components={len(comps)} next={len(nexts)} is_none={len(isnone)}"
        if ok:
            sl = Slice(ipb).run(ipb.blocks[comps[0]].term["args"][0])
            ok = 1 in sl["args"]
            # a switch on the discriminant of the first next() result path selecting Component::Normal (variant index 4)
            gs = switch_guards(ipb, isnone[0])
            normal = any(g["allowed"] == {4} for g in gs)
            some = any(g["allowed"] == {1} for g in gs)
            ok = ok and normal and some
            det += f"; second-component test reached only when the first is Some(Component::Normal): {normal and some}"
        ctx.ob("R5.validate-first", "is_plain_segment", ok, ipb.loc(), det)

    # ---- R6
    for m, fn, want in (("put", "cbh_codec::codec::compress", 1), ("put_overwrite", "cbh_codec::codec::compress", 1), ("get", "cbh_codec::codec::decompress", 1)):
        b = prog.one(f"<cbh_storage::local::LocalStorage as cbh_storage::port::Storage>::{m}::{{closure#0}}")
        if b is None:
            ctx.missing("R6.codec-pairing", m)
            continue
        cs = [(bb, t) for bb, t in b.calls() if callee_key(t["callee"]) in (fn, fn.replace("codec::codec", "codec"))
              or callee_key(t["callee"]).endswith(fn.split("::")[-1]) and callee_key(t["callee"]).startswith("cbh_codec")]
        other = [(bb, t) for bb, t in b.calls() if callee_key(t["callee"]).startswith("cbh_codec") and (bb, t) not in cs]
        pc = path_count(b, [bb for bb, _ in cs])
        ok = len(cs) == 1 and pc is not None and pc[1] == 1 and not other
        det = f"{fn.split('::')[-1]} sites={len(cs)} per path {pc}; other codec calls={len(other)}"
        if ok and m != "get" and wa_shell is not None:
            # the bytes handed to write_atomic are the compressed bytes; compress takes the parameter bytes
            w = [t for bb, t in b.calls() if wa_shell.key in callee_paths(t["callee"])]
            if w:
                sl = Slice(b).run(w[0]["args"][1])
                okw = any(k.startswith("cbh_codec") for k, _, _ in sl["calls"])
                ok = ok and okw
                det += f"; write_atomic receives the compressed buffer: {okw}"
                # ... on EVERY path: nothing reaches the write without having gone through compress (a payload-dependent
                # "already in stored form" shortcut makes the writer and the always-inflating reader disagree)
                wbbs = [bb for bb, t in b.calls() if wa_shell.key in callee_paths(t["callee"])]
                okm, _off = b.must_pass([0], [bb for bb, _ in cs], wbbs)
                ok = ok and okm
                det += f"; every path to write_atomic passes compress: {okm}"
        if ok and m == "get":
            t = cs[0][1]
            sl = Slice(b).run(t["args"][0])
            okr = any(k == "tokio::fs::read" for k, _, _ in sl["calls"])
            ok = ok and okr
            det += f"; decompress input is the file content read: {okr}"
        ctx.ob("R6.codec-pairing", m, ok, b.loc(), det)


def codec_state_rule(ctx, prog):
    """The codec keeps one Compress / Decompress per thread and reuses it for every object: each use must start from a reset
    made unconditionally (a state left behind by the previous object - e.g. end-of-stream after an empty one - poisons the next)."""
    for fn, reset, work in (("codec::run_deflate", "reset", "compress"), ("codec::run_inflate", "reset", "decompress")):
        b = prog.one(fn)
        if b is None:
            ctx.missing("R6.codec-pairing", f"cbh_codec::{fn}")
            continue
        ctx.fn(b)
        rs = [(bb, t) for bb, t in b.calls() if t["callee"].get("method") == reset and "flate2" in callee_key(t["callee"]) and not b.blocks[bb].cleanup]
        ws = [(bb, t) for bb, t in b.calls() if t["callee"].get("method") in (work, work + "_vec") and "flate2" in callee_key(t["callee"])]
        dom = b.dominators(unwind=False)
        pc = path_count(b, [bb for bb, _ in rs])
        uncond = bool(rs) and all(not [g for g in switch_guards(b, bb)] for bb, _ in rs)
        before = bool(rs) and bool(ws) and all(any(rb in dom[wb] for rb, _ in rs) for wb, _ in ws)
        same = bool(rs) and bool(ws) and all(Slice(b, through_calls=False).run(t["args"][0])["args"] == {1} for _bb, t in rs + ws)
        ok = pc == (1, 1) and uncond and before and same
        ctx.ob("R6.codec-pairing", f"{fn.split('::')[-1]}.reset-before-use", ok, b.loc(),
               f"{reset}() on the per-thread state: per path {pc}, unconditional {uncond}, dominates every {work}() {before}, same state object {same}")


def inflate_truncation_rule(ctx, prog):
    """run_inflate may declare the body truncated only from what a decoding pass did: the decoder can hold finished output it
    could not deliver yet (full output window) after having taken ALL input, so 'no input left' alone proves nothing. Every
    error this function originates (Error::new in its own body, not the conversion of a decoder error) must (i) come after
    the pass's `decompress` call and (ii) be decided by the pass's output progress (`total_out`)."""
    b = prog.one("codec::run_inflate")
    if b is None:
        return
    ws = [bb for bb, t in b.calls() if t["callee"].get("method") in ("decompress", "decompress_vec") and "flate2" in callee_key(t["callee"])]
    errs = [(bb, t) for bb, t in b.calls() if not b.blocks[bb].cleanup and callee_key(t["callee"]).endswith("io::Error::new")
            or (not b.blocks[bb].cleanup and callee_key(t["callee"]).endswith("io::error::Error::new"))]
    dom = b.dominators(unwind=False)
    for i, (bb, t) in enumerate(errs):
        after = bool(ws) and any(w in dom[bb] for w in ws)
        by_output = False
        for g in switch_guards(b, bb, dom=dom):
            sl = Slice(b).run(b.blocks[g["bb"]].term["discr"])
            if any(k.endswith("total_out") for k, _b, _t in sl["calls"]):
                by_output = True
        ok = after and by_output
        ctx.ob("R6.codec-pairing", f"run_inflate.truncation-error#{i}", ok, b.loc(t["span"]),
               f"error originated after this pass's decompress(): {after}; decided by the pass's output progress (total_out): {by_output}" +
               ("" if ok else " - a complete body whose last pass filled the output window exactly has no input left while output is still pending: it is reported as truncated and the stored object can never be read back"))


def only_temp_written(ctx, prog):
    wa = prog.one("local::write_atomic::{closure#0}")
    if wa is None:
        ctx.missing("R1.only-temp-is-written", "write_atomic coroutine")
        return
    bodies = [wa] + prog.closures_of(wa)
    n = 0
    bad = []
    for bd in bodies:
        for bb, t, k in fs_calls(bd):
            leaf = k.split("::")[-1]
            if leaf in ("rename", "remove_file", "try_exists", "metadata", "create_dir_all", "read", "read_dir", "new"):
                continue
            if not t["args"]:
                continue
            n += 1
            sl = Slice(bd).run(t["args"][0])
            via_temp = any(kk.endswith("temp_path_for") for kk, _b, _t in sl["calls"]) or bool(sl["upvars"]) and any(
                any(kk.endswith("temp_path_for") for kk, _b, _t in Slice(wa).run(o)["calls"]) for _bb2, ops_ in __import__("vf.analysis", fromlist=["closure_capture_ops"]).closure_capture_ops(wa, bd.key) for o in ops_)
            on_file = "File" in callee_key(t["callee"]) and leaf not in ("create", "open")
            if not (via_temp or on_file):
                bad.append(f"{k.split('::')[-2]}::{leaf} at {bd.loc(t['span'])}")
    ctx.ob("R1.only-temp-is-written", "write_atomic", n >= 1 and not bad, wa.loc(),
           f"{n} creating/writing call(s); on a path that is not the temp path: {bad or 'none'}" +
           ("" if not bad else " - writing the target in place truncates it first: an interrupted write leaves an empty or partial object where a complete one (or nothing) was"))


def segmentation_rule(ctx, prog):
    from ..mir import resolve_const
    RID = "R7.segmentation-agreement"
    want = {"validator": "keys::validate_key", "builder": "local::LocalStorage::key_path"}
    pats = {}
    for role, suffix in want.items():
        b = prog.one(suffix)
        if b is None:
            ctx.missing(RID, suffix)
            continue
        ctx.fn(b)
        sp = [(bb, t) for bb, t in b.calls() if (t["callee"].get("method") or "").startswith(("split", "rsplit")) and "str" in callee_key(t["callee"])]
        sig = sorted((t["callee"].get("method"), tuple(ta.get("s") for ta in t["callee"].get("targs", [])),
                      tuple((resolve_const(b, a) or {}).get("val") for a in t["args"][1:])) for _bb, t in sp)
        pats[role] = sig
        ctx.ob(RID, f"{role}.splits-once", len(sp) == 1, b.loc(), f"{suffix}: split calls {sig}")
    if len(pats) == 2:
        ok = pats["validator"] == pats["builder"] and all(v is not None for sig in pats.values() for _m, _t, vs in sig for v in vs)
        ctx.ob(RID, "validator==builder", ok, "", f"validator pattern {pats['validator']} vs builder pattern {pats['builder']}")
    # the builder joins exactly the segments it iterates (no other transformation of the key between validation and join)
    b = prog.one("local::LocalStorage::key_path")
    if b is not None:
        v = [(bb, t) for bb, t in b.calls() if callee_key(t["callee"]).endswith("keys::validate_key")]
        sp = [(bb, t) for bb, t in b.calls() if (t["callee"].get("method") or "").startswith("split") and "str" in callee_key(t["callee"])]
        ok = len(v) == 1 and len(sp) == 1
        if ok:
            a = Slice(b, through_calls=False).run(v[0][1]["args"][0])["args"]
            c = Slice(b, through_calls=False).run(sp[0][1]["args"][0])["args"]
            ok = a == c and bool(a) and v[0][0] in b.dominators(unwind=False)[sp[0][0]]
        ctx.ob(RID, "builder.validates-what-it-splits", ok, b.loc(), "validate_key and split receive the same key parameter, validation first")

"""Anchored crates per property (packages of /repo whose lib target is analysed)."""
PROP_CRATES = {
    "C01": ["infinity_pool"],
    "C02": ["infinity_pool"],
    "C03": ["infinity_pool"],
    "C04": ["infinity_pool"],
    "C05": ["events_once"],
    "C06": ["events_once"],
    "C07": ["events_once"],
    "C08": ["events", "awaiter_set"],
    "C09": ["many_cpus_impl"],
    "C10": ["many_cpus_impl"],
    "C11": ["many_cpus_impl", "cpulist"],
    "C12": ["linked"],
    "C13": ["region_cached", "region_local"],
    "C14": ["vicinal"],
    "C15": ["future_deque"],
    "C16": ["nm_impl"],
    "C17": ["par_bench"],
    "C18": ["alloc_tracker"],
    "C19": ["cbh_storage", "cbh_codec"],
    "C20": ["cbh_stats"],
}
ALL_CRATES = []
for _v in PROP_CRATES.values():
    for _c in _v:
        if _c not in ALL_CRATES:
            ALL_CRATES.append(_c)

#!/usr/bin/env python3
"""tools_siblings.py <pkg>...: discovery aid (not a check). For every crate-local function with >= 2 call sites
outside tests, print the argument provenance classes per site where the sites disagree."""
import sys, os, collections
sys.path.insert(0, os.path.dirname(os.path.abspath(__file__)))
sys.dont_write_bytecode = True
from vf.mir import Program, callee_key
from vf.analysis import Slice, closure_capture_ops

def deep(prog, body, op, depth=2):
    sl = Slice(body).run(op)
    out = set()
    for f in sl["fields"]:
        if "::" in f and not f.startswith(("std::", "core::", "alloc::")):
            out.add("f:" + f.split("::")[-2] + "." + f.split("::")[-1])
    for a in sl["args"]:
        out.add(f"p{a}" if not body.is_closure else f"cp{a}")
    for c in sl["consts"]:
        if "val" in c or "variant" in c:
            out.add("c:" + str(c.get("name") or c.get("variant") or c.get("val"))[-30:])
    for k, _b, t in sl["calls"]:
        n = k.split("::")[-1]
        if n in ("default", "new"):
            out.add("call:" + "::".join(k.split("::")[-2:]))
    if body.is_closure and sl["upvars"] and depth:
        pk = body.key.rsplit("::{closure", 1)[0]
        par = [b for b in prog.bodies if b.key == pk]
        if par:
            for _bb, cops in closure_capture_ops(par[0], body.key):
                for i in sl["upvars"]:
                    if i < len(cops):
                        out |= {x for x in deep(prog, par[0], cops[i], depth - 1)}
            out = {x for x in out if not x.startswith("cp")}
    return frozenset(out)

prog = Program(sys.argv[1:])
sites = collections.defaultdict(list)
for b in prog.bodies:
    if "::tests::" in b.key or "::test" in b.key:
        continue
    for bb, t in b.calls():
        k = callee_key(t["callee"])
        if k.split("::")[0] not in prog.crates if hasattr(prog, "crates") else False:
            pass
        if not any(k.startswith(c + "::") or ("<" + c + "::") in k for c in [p.replace("-", "_") for p in sys.argv[1:]]):
            continue
        sites[k].append((b, bb, t))
n = 0
for k, ss in sorted(sites.items()):
    if len(ss) < 2:
        continue
    nargs = len(ss[0][2]["args"])
    for i in range(nargs):
        classes = [deep(prog, b, t["args"][i]) if i < len(t["args"]) else frozenset() for b, _bb, t in ss]
        # compare on "kind" level: does each site draw from self-fields / params / consts?
        if len(set(classes)) > 1:
            kinds = [frozenset(x.split(":")[0] if not x.startswith("p") else "p" for x in c) for c in classes]
            if len(set(kinds)) > 1:
                n += 1
                print(f"{k} arg{i}:")
                for (b, bb, t), c in zip(ss, classes):
                    print(f"    {b.key.split('::',1)[1][:70]:70s} {sorted(c)[:6]}")
print("disagreeing (function,arg) pairs:", n)

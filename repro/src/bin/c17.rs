//! C17 finding: a callback that panics on one worker makes `execute_on` unwind while the other
//! workers still run callbacks that borrow from the caller's frame.
use std::panic::{catch_unwind, AssertUnwindSafe};
use std::sync::atomic::{AtomicBool, AtomicUsize, Ordering};
use std::time::Duration;

use many_cpus::SystemHardware;
use par_bench::{Run, ThreadPool};

static FRAME_GONE: AtomicBool = AtomicBool::new(false);
static USED_AFTER_RETURN: AtomicUsize = AtomicUsize::new(0);

struct Frame;
impl Drop for Frame {
    fn drop(&mut self) {
        FRAME_GONE.store(true, Ordering::SeqCst);
    }
}

fn main() {
    std::panic::set_hook(Box::new(|_| {}));
    let procs = SystemHardware::current().processors().to_builder().take(new_nz(4)).unwrap();
    let mut pool = ThreadPool::new(&procs);
    // which arrival panics: results are awaited in a fixed order, so only a panic on the thread whose
    // result is awaited first makes execute_on unwind early. Try each arrival position.
    let mut any_unwound = false;
    for victim in 1..=4usize {
    FRAME_GONE.store(false, Ordering::SeqCst);
    let mut pool = ThreadPool::new(&procs);
    let r = catch_unwind(AssertUnwindSafe(|| {
        let frame = Frame; // state borrowed by the callbacks
        let arrivals = AtomicUsize::new(0);
        let run = Run::new().iter(|_| {
            let _borrow: &Frame = &frame;
            if arrivals.fetch_add(1, Ordering::SeqCst) + 1 == victim {
                panic!("callback panics on one thread");
            }
            std::thread::sleep(Duration::from_millis(300));
            // still inside a callback that borrows `frame`: has the caller's frame been destroyed?
            if FRAME_GONE.load(Ordering::SeqCst) {
                USED_AFTER_RETURN.fetch_add(1, Ordering::SeqCst);
            }
        });
        let _ = run.execute_on(&mut pool, 1);
    }));
    std::thread::sleep(Duration::from_millis(800));
    any_unwound |= r.is_err();
    std::mem::forget(pool);
    }
    let n = USED_AFTER_RETURN.load(Ordering::SeqCst);
    println!("execute_on unwound: {any_unwound}; callbacks still running after the borrowed frame was destroyed: {n}");
    let key = "C17|R1.scope-obligation";
    println!("{} {key}", if n > 0 { "REPRODUCED" } else { "not-reproduced" });
    std::process::exit(if n > 0 { 0 } else { 1 });
}

fn new_nz(n: usize) -> std::num::NonZero<usize> {
    std::num::NonZero::new(n).unwrap()
}

//! C11 finding: cpulist::emit panics for a run of three or more ids that ends at u32::MAX
//! (the inclusive range end is computed as (start + len) - 1; the intermediate overflows although every id fits).
use std::panic;

fn main() {
    let ids = [u32::MAX - 2, u32::MAX - 1, u32::MAX];
    panic::set_hook(Box::new(|_| {}));
    let r = panic::catch_unwind(|| cpulist::emit(ids));
    let _ = panic::take_hook();
    match &r {
        Ok(s) => {
            let back = cpulist::parse(s).expect("emitted list parses");
            println!("emit({ids:?}) = {s:?}; parse(emit(..)) == ids: {}", back == ids);
        }
        Err(_) => println!("emit({ids:?}) panicked"),
    }
    // shorter runs at the top of the range and the same run one id lower are fine either way
    assert_eq!(cpulist::parse(&cpulist::emit([u32::MAX - 1, u32::MAX])).unwrap(), vec![u32::MAX - 1, u32::MAX]);
    assert_eq!(cpulist::parse(&cpulist::emit([u32::MAX - 3, u32::MAX - 2, u32::MAX - 1])).unwrap(), vec![u32::MAX - 3, u32::MAX - 2, u32::MAX - 1]);
    let reproduced = r.is_err();
    println!("{} C11|R8.range-arithmetic|render:start + len", if reproduced { "REPRODUCED" } else { "not-reproduced" });
    std::process::exit(if reproduced { 0 } else { 1 });
}

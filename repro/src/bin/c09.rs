//! C09 finding: prefer_same_memory_region().take(n) can return more than n processors.
use std::num::NonZero;

use many_cpus::fake::HardwareBuilder;
use many_cpus::SystemHardware;

fn main() {
    let nz = |n| NonZero::new(n).unwrap();
    // 6 processors in 2 regions of 3
    let hw = SystemHardware::fake(HardwareBuilder::from_counts(nz(6), nz(2)));
    let mut worst = 0;
    for _ in 0..50 {
        let set = hw.processors().to_builder().prefer_same_memory_region().take(nz(4)).expect("4 of 6 is satisfiable");
        worst = worst.max(set.len());
    }
    println!("prefer_same_memory_region().take(4) over regions of 3+3 returned up to {worst} processors");
    println!("{} C09|R4.bounded-accumulation|take.loop@selector=3.extend", if worst != 4 { "REPRODUCED" } else { "not-reproduced" });
    std::process::exit(if worst != 4 { 0 } else { 1 });
}

//! C03 known findings: safe programs that share / send a `Send + !Sync` payload across threads.
//! Every function below compiling is the defect; running it performs the unsynchronised accesses.
use std::cell::Cell;
use std::ops::Deref;
use std::thread;

use infinity_pool::{define_pooled_dyn_cast, BlindPool, OpaquePool};

pub trait Poke {
    fn poke(&self, v: u32);
    fn peek(&self) -> u32;
}
impl Poke for Cell<u32> {
    fn poke(&self, v: u32) {
        self.set(v);
    }
    fn peek(&self) -> u32 {
        self.get()
    }
}
pub trait PokeSend: Poke + Send {}
impl<T: Poke + Send> PokeSend for T {}
define_pooled_dyn_cast!(Poke);
define_pooled_dyn_cast!(PokeSend);

/// rule (a): two threads holding `&H` both reach `&Cell<u32>`.
fn share_cell<H: Sync + Deref<Target = Cell<u32>>>(h: &H) -> bool {
    thread::scope(|s| {
        s.spawn(|| (0..1000).for_each(|i| h.set(i)));
        s.spawn(|| (0..1000).for_each(|i| h.set(i + 7)));
    });
    true
}
fn share_dyn<H: Sync + Deref<Target = dyn Poke>>(h: &H) -> bool {
    thread::scope(|s| {
        s.spawn(|| (0..1000).for_each(|i| h.poke(i)));
        s.spawn(|| (0..1000).for_each(|i| h.poke(i + 7)));
    });
    true
}
fn share_dyn_send<H: Sync + Deref<Target = dyn PokeSend>>(h: &H) -> bool {
    thread::scope(|s| {
        s.spawn(|| (0..1000).for_each(|i| h.poke(i)));
        s.spawn(|| (0..1000).for_each(|i| h.poke(i + 7)));
    });
    true
}
/// rule (c): a clone sent to another thread shares the payload.
fn send_clone_cell<H: Send + Clone + Deref<Target = Cell<u32>> + 'static>(h: &H) -> bool {
    let h2 = h.clone();
    let t = thread::spawn(move || (0..1000).for_each(|i| h2.set(i)));
    (0..1000).for_each(|i| h.set(i + 7));
    t.join().unwrap();
    true
}
fn send_clone_dyn_send<H: Send + Clone + Deref<Target = dyn PokeSend> + 'static>(h: &H) -> bool {
    let h2 = h.clone();
    let t = thread::spawn(move || (0..1000).for_each(|i| h2.poke(i)));
    (0..1000).for_each(|i| h.poke(i + 7));
    t.join().unwrap();
    true
}

fn main() {
    let op = OpaquePool::with_layout_of::<Cell<u32>>();
    let bp = BlindPool::new();
    let mut ok = true;
    let mut rep = |key: &str, r: bool| {
        println!("{} {key}", if r { "REPRODUCED" } else { "not-reproduced" });
        ok &= r;
    };
    // Pooled
    let h = op.insert(Cell::new(0)).into_shared();
    rep("C03|R1.matrix|Pooled|SnS|a-sync-needs-payload-sync", share_cell(&h));
    rep("C03|R1.matrix|Pooled|SnS|c-clone-send-needs-payload-sync", send_clone_cell(&h));
    let hd = op.insert(Cell::new(0)).into_shared().cast_poke();
    rep("C03|R1.matrix|Pooled|DynPlain|a-sync-needs-payload-sync", share_dyn(&hd));
    let hs = op.insert(Cell::new(0)).into_shared().cast_poke_send();
    rep("C03|R1.matrix|Pooled|DynSend|a-sync-needs-payload-sync", share_dyn_send(&hs));
    rep("C03|R1.matrix|Pooled|DynSend|c-clone-send-needs-payload-sync", send_clone_dyn_send(&hs));
    // PooledMut
    let hm = op.insert(Cell::new(0));
    rep("C03|R1.matrix|PooledMut|SnS|a-sync-needs-payload-sync", share_cell(&hm));
    let hmd = op.insert(Cell::new(0)).cast_poke();
    rep("C03|R1.matrix|PooledMut|DynPlain|a-sync-needs-payload-sync", share_dyn(&hmd));
    let hms = op.insert(Cell::new(0)).cast_poke_send();
    rep("C03|R1.matrix|PooledMut|DynSend|a-sync-needs-payload-sync", share_dyn_send(&hms));
    // BlindPooled
    let b = bp.insert(Cell::new(0u32)).into_shared();
    rep("C03|R1.matrix|BlindPooled|SnS|a-sync-needs-payload-sync", share_cell(&b));
    rep("C03|R1.matrix|BlindPooled|SnS|c-clone-send-needs-payload-sync", send_clone_cell(&b));
    let bd = bp.insert(Cell::new(0u32)).into_shared().cast_poke();
    rep("C03|R1.matrix|BlindPooled|DynPlain|a-sync-needs-payload-sync", share_dyn(&bd));
    let bs = bp.insert(Cell::new(0u32)).into_shared().cast_poke_send();
    rep("C03|R1.matrix|BlindPooled|DynSend|a-sync-needs-payload-sync", share_dyn_send(&bs));
    rep("C03|R1.matrix|BlindPooled|DynSend|c-clone-send-needs-payload-sync", send_clone_dyn_send(&bs));
    // BlindPooledMut
    let bm = bp.insert(Cell::new(0u32));
    rep("C03|R1.matrix|BlindPooledMut|SnS|a-sync-needs-payload-sync", share_cell(&bm));
    let bmd = bp.insert(Cell::new(0u32)).cast_poke();
    rep("C03|R1.matrix|BlindPooledMut|DynPlain|a-sync-needs-payload-sync", share_dyn(&bmd));
    let bms = bp.insert(Cell::new(0u32)).cast_poke_send();
    rep("C03|R1.matrix|BlindPooledMut|DynSend|a-sync-needs-payload-sync", share_dyn_send(&bms));
    std::process::exit(if ok { 0 } else { 1 });
}
